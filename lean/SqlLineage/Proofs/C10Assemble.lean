/-
Helper lemmas of `Props/C10.lean` about the assembler (`Model/Assemble.lean`):

* `NoCols`: graphs without column nodes (what table‑level statement holders produce) are closed under the statement fold, and
  the tail of `_build_digraph` (unresolved columns, orphans) is the identity on them;
* the empty holder (what silent mode substitutes for a statement of an unsupported type) is neutral for the fold.
-/
import SqlLineage.Proofs.AStmtLemmas
import SqlLineage.Proofs.RenameOrder

namespace SqlLineage.Proofs.C10Assemble
open SqlLineage Graph Assemble AStmt

/-! ### graphs without column nodes -/

/-- no column node, and no edge touching one -/
structure NoCols (g : LGraph) : Prop where
  nodes : ∀ n ∈ g.nodes, n.isCol = false
  edges : ∀ e ∈ g.edges, e.1.isCol = false ∧ e.2.isCol = false

theorem noCols_empty : NoCols (Graph.empty : LGraph) := ⟨by simp, by simp⟩

theorem noCols_compose {g h : LGraph} (hg : NoCols g) (hh : NoCols h) : NoCols (g.compose h) := by
  constructor
  · intro n hn
    rcases (mem_nodes_compose g h n).mp hn with a | a
    · exact hg.nodes n a
    · exact hh.nodes n a
  · intro e he
    rcases (mem_edges_compose g h e).mp he with a | a
    · exact hg.edges e a
    · exact hh.edges e a

theorem noCols_removeNode {g : LGraph} (hg : NoCols g) (n : Node) : NoCols (g.removeNode n) :=
  ⟨fun m hm => hg.nodes m ((mem_nodes_removeNode g n m).mp hm).1,
   fun e he => hg.edges e ((mem_edges_removeNode g n e).mp he).1⟩

theorem noCols_dropStep (ts : List Node) : ∀ {g : LGraph}, NoCols g → NoCols (dropStep g ts) := by
  induction ts with
  | nil => intro g hg; exact hg
  | cons t r ih =>
    intro g hg
    simp only [dropStep, List.foldl_cons]
    split
    · exact ih (noCols_removeNode hg t)
    · exact ih hg

theorem rmap_noCol {old new n : Node} (hn : n.isCol = false) (hnew : new.isCol = false) :
    (rmap old new n).isCol = false := by
  unfold rmap; split
  · exact hnew
  · exact hn

theorem noCols_removeEdges {g : LGraph} (hg : NoCols g) (ps : List (Node × Node)) : NoCols (removeEdges g ps) :=
  ⟨hg.nodes, fun e he => hg.edges e (List.mem_filter.mp he).1⟩

theorem noCols_renameOne {g : LGraph} (p : Node × Node) (hg : NoCols g) (hp : p.2.isCol = false) :
    NoCols (renameOne g p) := by
  have h2 : NoCols (g.relabel p.1 p.2) := by
    constructor
    · intro n hn
      obtain ⟨m, hm, rfl⟩ := (mem_nodes_relabel g p.1 p.2 n none).mp hn
      exact rmap_noCol (hg.nodes m hm) hp
    · intro e he
      obtain ⟨a, b, hab, rfl⟩ := (mem_edges_relabel g p.1 p.2 e none).mp he
      have := hg.edges (a, b) (mem_edgesOrdered g (a, b) hab)
      exact ⟨rmap_noCol this.1 hp, rmap_noCol this.2 hp⟩
  unfold renameOne
  simp only
  split
  · exact noCols_removeNode h2 _
  · exact h2

theorem noCols_renameStep (ps : List (Node × Node)) {g : LGraph} (hg : NoCols g) (hp : ∀ p ∈ ps, p.2.isCol = false) :
    NoCols (renameStep g ps) := by
  unfold renameStep
  have gen : ∀ (l : List (Node × Node)) (G : LGraph), NoCols G → (∀ p ∈ l, p.2.isCol = false) →
      NoCols (l.foldl renameOne G) := by
    intro l
    induction l with
    | nil => intro G hG _; exact hG
    | cons p r ih =>
      intro G hG hl
      exact ih _ (noCols_renameOne p hG (hl p (by simp))) (fun q hq => hl q (by simp [hq]))
  exact gen ps _ (noCols_removeEdges hg ps) hp

theorem mem_tagged {g : LGraph} {t : Tag} {n : Node} (h : n ∈ tagged g t) : n ∈ g.nodes := by
  simp only [tagged, List.mem_filter] at h; exact h.1

theorem noCols_rwStep {g : LGraph} (rd wr : List Node) (hg : NoCols g) (hr : ∀ n ∈ rd, n.isCol = false)
    (hw : ∀ n ∈ wr, n.isCol = false) : NoCols (rwStep g rd wr) := by
  constructor
  · intro n hn
    unfold rwStep at hn
    split at hn
    · exact hg.nodes n (by simpa using hn)
    · split at hn
      · exact hg.nodes n (by simpa using hn)
      · rcases (mem_nodes_foldl_addEdge _ _ _ _).mp hn with a | ⟨⟨x, y⟩, he, hm⟩
        · exact hg.nodes n a
        · have hp := (mem_product rd wr x y).mp he
          rcases hm with hm | hm
          · rw [hm]; exact hr _ hp.1
          · rw [hm]; exact hw _ hp.2
  · intro e he
    rcases (rwStep_edges g rd wr e).mp he with a | ⟨a, b⟩
    · exact hg.edges e a
    · exact ⟨hr _ a, hw _ b⟩

/-- one statement of the fold keeps the graph free of column nodes (statement order of the rename pairs) -/
theorem noCols_foldStep {g h g' : LGraph} (hg : NoCols g) (hh : NoCols h) (hs : foldStep id g h = .ok g') : NoCols g' := by
  unfold foldStep at hs
  simp only at hs
  have hc := noCols_compose hg hh
  split at hs
  · cases hs; exact noCols_dropStep _ hc
  · split at hs
    · cases hs
      refine noCols_renameStep _ hc ?_
      intro p hp
      rw [RenameOrder.mem_renamesInOrder] at hp
      simp only [id, stmtRename, List.mem_filter] at hp
      exact (hh.edges p (mem_edgesOrdered h p hp.1)).2
    · cases hs
      refine noCols_rwStep _ _ hc ?_ ?_
      · intro n hn
        simp only [stmtRead, List.mem_filter] at hn
        exact hh.nodes n (mem_tagged hn.1)
      · intro n hn
        simp only [stmtWrite, List.mem_filter] at hn
        exact hh.nodes n (mem_tagged hn.1)

theorem noCols_foldAll : ∀ (hs : List LGraph) {g g' : LGraph}, NoCols g → (∀ h ∈ hs, NoCols h) →
    foldAll id g hs = .ok g' → NoCols g'
  | [], g, g', hg, _, h => by simp only [foldAll] at h; cases h; exact hg
  | x :: r, g, g', hg, hx, h => by
    simp only [foldAll] at h
    split at h
    · rename_i g1 h1
      exact noCols_foldAll r (noCols_foldStep hg (hx x (by simp)) h1) (fun y hy => hx y (by simp [hy])) h
    · cases h

/-- on a graph without column nodes nothing is unresolved and nothing is an orphan column: the tail of `_build_digraph`
    only tags self‑loops -/
theorem tail_noCols (prov : Prov) (g : LGraph) (hc : ∀ n ∈ g.nodes, n.isCol = false) :
    (match resolveAll prov (tagSelfloops g) (unresolved (tagSelfloops g)) with
      | .error e => Except.error e
      | .ok g => Except.ok (removeOrphans g)) = .ok (tagSelfloops g) := by
  have hu : unresolved (tagSelfloops g) = [] := by
    simp only [unresolved, List.filter_eq_nil_iff]
    intro e he
    have := (mem_edgesOrdered_iff _ _).mp he
    have hn : e.1 ∈ g.nodes := by simpa [tagSelfloops] using this.2
    simp [hc _ hn]
  have ho : removeOrphans (tagSelfloops g) = tagSelfloops g := by
    have : (tagSelfloops g).nodes.filter (fun n => (tagSelfloops g).degree n == 0 && n.isCol &&
        decide ((cands (tagSelfloops g) n).length > 1)) = [] := by
      simp only [List.filter_eq_nil_iff]
      intro n hn
      have hn' : n ∈ g.nodes := by simpa [tagSelfloops] using hn
      simp [hc _ hn']
    simp [removeOrphans, this]
  rw [hu]; simp [resolveAll, ho]

/-! ### statement holders of abstract statements -/

theorem noCols_addRename {g : LGraph} (hg : NoCols g) (a b : String) : NoCols (Holder.addRename g (tbl a) (tbl b)) := by
  constructor
  · intro n hn
    simp only [Holder.addRename, mem_nodes_addEdge] at hn
    rcases hn with h | h | h
    · exact hg.nodes n h
    · rw [h]; rfl
    · rw [h]; rfl
  · intro e he
    simp only [Holder.addRename, mem_edges_addEdge] at he
    rcases he with h | h
    · exact hg.edges e h
    · rw [h]; exact ⟨rfl, rfl⟩

theorem noCols_renames (ps : List (String × String)) : ∀ {g : LGraph}, NoCols g →
    NoCols (ps.foldl (fun g p => Holder.addRename g (tbl p.1) (tbl p.2)) g) := by
  induction ps with
  | nil => intro g hg; exact hg
  | cons p r ih => intro g hg; exact ih (noCols_addRename hg p.1 p.2)

theorem noCols_holderOf (s : AStmt) : NoCols (holderOf s) := by
  cases s with
  | rw R w =>
    constructor
    · intro n hn
      rcases (rw_nodes R w n).mp hn with ⟨r, _, h | h⟩ | ⟨x, _, h⟩
      · rw [h]; simp
      · rw [h]; rfl
      · rw [h]; simp
    · intro e he
      obtain ⟨r, _, h⟩ := (rw_edges R w e).mp he
      rw [h]; exact ⟨by simp, rfl⟩
  | drop t =>
    constructor
    · intro n hn
      have : n = Node.ds (tbl t) := by
        simpa [holderOf, Holder.addDrop, setTag, addNode, hasNode, Graph.empty] using hn
      rw [this]; rfl
    · intro e he
      simp [holderOf, Holder.addDrop, setTag, addNode, hasNode, Graph.empty] at he
  | rename ps => exact noCols_renames ps noCols_empty

/-! ### the empty holder -/

theorem stmtDrop_empty : stmtDrop (Graph.empty : LGraph) = [] := rfl
theorem stmtRename_empty : stmtRename (Graph.empty : LGraph) = [] := rfl
theorem stmtRead_empty : stmtRead (Graph.empty : LGraph) = [] := rfl
theorem stmtWrite_empty : stmtWrite (Graph.empty : LGraph) = [] := rfl

/-- **`empty_holder_neutral`, step form**: composing the empty holder never fails and does nothing but `nx.compose(g, ∅)` -/
theorem foldStep_empty (ord : List (Node × Node) → List (Node × Node)) (g : LGraph) :
    foldStep ord g Graph.empty = .ok (g.compose Graph.empty) := by
  simp [foldStep, stmtDrop_empty, stmtRename_empty, stmtRead_empty, stmtWrite_empty, rwStep, product]

variable {ν π : Type} [DecidableEq ν]

/-- `nx.compose(g, ∅)` is `g`: same nodes and edges in the same order, and every attribute read gives the same answer -/
theorem compose_empty_nodes (g : Graph ν π) : (g.compose Graph.empty).nodes = g.nodes := by simp [compose, Graph.empty]
theorem compose_empty_edges (g : Graph ν π) : (g.compose Graph.empty).edges = g.edges := by simp [compose, Graph.empty]
theorem compose_empty_tag (g : Graph ν π) (n : ν) (t : Tag) : (g.compose Graph.empty).tag n t = g.tag n t := by
  rw [tag_compose]; simp
theorem compose_empty_ety (g : Graph ν π) (u v : ν) : (g.compose Graph.empty).ety u v = g.ety u v := by
  simp [ety, hasEdge, compose, Graph.empty]
theorem compose_empty_idx (g : Graph ν π) (u v : ν) : (g.compose Graph.empty).idx u v = g.idx u v := by
  simp only [idx, hasEdge, compose, Graph.empty, List.filter_nil, List.append_nil, List.contains_nil,
    Bool.false_eq_true, if_false]
  split <;> simp_all
theorem compose_empty_payload (g : Graph ν π) (n : ν) : (g.compose Graph.empty).payload n = g.payload n := by
  simp only [payload, hasNode, compose, Graph.empty, List.filter_nil, List.append_nil]
  split <;> simp_all
theorem compose_empty_etype (g : Graph ν π) : (g.compose Graph.empty).etype = g.etype := by
  funext u v; simp [compose, Graph.empty, hasEdge]

/-- `compose` looks at its left argument only through the node and edge lists, the masked accessors, the raw edge types and
    the payloads of present nodes -/
theorem compose_congr_left (g1 g2 h : Graph ν π) (hn : g1.nodes = g2.nodes) (he : g1.edges = g2.edges)
    (ht : ∀ n t, g1.tag n t = g2.tag n t) (hty : g1.etype = g2.etype) (hi : ∀ u v, g1.idx u v = g2.idx u v)
    (hp : ∀ n, n ∈ g1.nodes → g1.pay n = g2.pay n) : g1.compose h = g2.compose h := by
  simp only [compose, hasNode, hasEdge, hn, he, Graph.mk.injEq, true_and]
  refine ⟨?_, hty ▸ rfl, ?_, ?_⟩
  · funext n t; rw [ht]
  · funext u v; rw [hi]
  · funext n
    by_cases hc : g2.nodes.contains n = true
    · simp only [hc, if_true]
      exact hp n (by rw [hn]; simpa using hc)
    · have hc' : n ∉ g2.nodes := by simpa using hc
      simp [hc']

/-- composing a further holder onto `nx.compose(g, ∅)` is composing it onto `g` — structurally, so whatever the fold does
    next is identical -/
theorem compose_empty_compose (g h : Graph ν π) : (g.compose Graph.empty).compose h = g.compose h := by
  apply compose_congr_left
  · exact compose_empty_nodes g
  · exact compose_empty_edges g
  · exact compose_empty_tag g
  · exact compose_empty_etype g
  · exact compose_empty_idx g
  · intro n hn
    rw [compose_empty_nodes] at hn
    simp [compose, hasNode, hn]

theorem foldStep_after_empty (ord : List (Node × Node) → List (Node × Node)) (g h : LGraph) :
    foldStep ord (g.compose Graph.empty) h = foldStep ord g h := by
  unfold foldStep
  rw [compose_empty_compose]

/-- an empty holder followed by at least one more holder is exactly neutral for the fold -/
theorem foldAll_skip (ord : List (Node × Node) → List (Node × Node)) :
    ∀ (a : List LGraph) (g : LGraph) (h : LGraph) (b : List LGraph),
      foldAll ord g (a ++ Graph.empty :: h :: b) = foldAll ord g (a ++ h :: b)
  | [], g, h, b => by
    simp only [List.nil_append, foldAll, foldStep_empty, foldStep_after_empty]
  | x :: a, g, h, b => by
    simp only [List.cons_append, foldAll]
    split
    · exact foldAll_skip ord a _ h b
    · rfl

/-- an empty holder in last position leaves `nx.compose(G, ∅)` of the graph `G` the other holders produce -/
theorem foldAll_skip_last (ord : List (Node × Node) → List (Node × Node)) :
    ∀ (a : List LGraph) (g : LGraph),
      foldAll ord g (a ++ [Graph.empty]) =
        (match foldAll ord g a with | .ok G => .ok (G.compose Graph.empty) | .error e => .error e)
  | [], g => by simp only [List.nil_append, foldAll, foldStep_empty]
  | x :: a, g => by
    simp only [List.cons_append, foldAll]
    split
    · exact foldAll_skip_last ord a _
    · rfl

end SqlLineage.Proofs.C10Assemble
