import SqlLineage.Proofs.C10Assemble
import SqlLineage.Model.Runner

namespace SqlLineage.Proofs.C10Ext
open SqlLineage Graph Assemble

variable {ν π : Type} [DecidableEq ν]

/-- two graphs that every reader used by the tail of `_build_digraph` and by the role / path functions tells apart:
    same node list, same edge list, same tag reads, same key objects -/
structure Ext (g g' : Graph ν π) : Prop where
  nodes : g.nodes = g'.nodes
  edges : g.edges = g'.edges
  tag : ∀ n t, g.tag n t = g'.tag n t
  payload : ∀ n, g.payload n = g'.payload n

theorem Ext.refl (g : Graph ν π) : Ext g g := ⟨rfl, rfl, fun _ _ => rfl, fun _ => rfl⟩

theorem Ext.hasNode {g g' : Graph ν π} (h : Ext g g') (n : ν) : g.hasNode n = g'.hasNode n := by
  unfold Graph.hasNode; rw [h.nodes]
theorem Ext.hasEdge {g g' : Graph ν π} (h : Ext g g') (u v : ν) : g.hasEdge u v = g'.hasEdge u v := by
  unfold Graph.hasEdge; rw [h.edges]

theorem ext_compose_empty (g : Graph ν π) : Ext (g.compose Graph.empty) g :=
  ⟨C10Assemble.compose_empty_nodes g, C10Assemble.compose_empty_edges g, C10Assemble.compose_empty_tag g,
   C10Assemble.compose_empty_payload g⟩

/-! structural descriptions of the operations the tail uses -/

theorem nodes_addNode (g : Graph ν π) (n : ν) (p : Option π) :
    (g.addNode n p).nodes = if g.hasNode n then g.nodes else g.nodes ++ [n] := by
  unfold addNode; split <;> rfl

theorem payload_addNode (g : Graph ν π) (n m : ν) (p : Option π) :
    (g.addNode n p).payload m = if g.hasNode m then g.payload m else if m = n then p else none := by
  unfold addNode
  by_cases hn : g.hasNode n = true
  · simp only [hn, if_true]
    by_cases hm : g.hasNode m = true
    · simp [hm]
    · have : m ≠ n := fun h => hm (h ▸ hn)
      simp [payload, hm, this]
  · simp only [hn, Bool.false_eq_true, if_false]
    by_cases hm : g.hasNode m = true
    · have : m ≠ n := fun h => hn (h ▸ hm)
      have hm' : m ∈ g.nodes := by simpa [hasNode] using hm
      simp [payload, hasNode, hm', this]
    · have hm' : m ∉ g.nodes := by simpa [hasNode] using hm
      by_cases hmn : m = n
      · subst hmn; simp [payload, hasNode, hm']
      · simp [payload, hasNode, hm', hmn]

theorem ext_addNode {g g' : Graph ν π} (h : Ext g g') (n : ν) (p : Option π) : Ext (g.addNode n p) (g'.addNode n p) := by
  refine ⟨?_, ?_, ?_, ?_⟩
  · rw [nodes_addNode, nodes_addNode, h.hasNode, h.nodes]
  · simp [h.edges]
  · intro m t; rw [tag_addNode, tag_addNode, h.tag]
  · intro m; rw [payload_addNode, payload_addNode, h.hasNode, h.payload]

theorem addEdge_eq (g : Graph ν π) (u v : ν) (ty : EType) (i : Option Nat) (pu pv : Option π) :
    (g.addEdge u v ty i pu pv).nodes = ((g.addNode u pu).addNode v pv).nodes ∧
    (g.addEdge u v ty i pu pv).edges =
      (if ((g.addNode u pu).addNode v pv).hasEdge u v then g.edges else g.edges ++ [(u, v)]) ∧
    (∀ m t, (g.addEdge u v ty i pu pv).tag m t = ((g.addNode u pu).addNode v pv).tag m t) ∧
    (∀ m, (g.addEdge u v ty i pu pv).payload m = ((g.addNode u pu).addNode v pv).payload m) := by
  unfold addEdge
  simp only
  split <;> simp [tag, payload, hasNode]

theorem ext_addEdge {g g' : Graph ν π} (h : Ext g g') (u v : ν) (ty : EType) (i : Option Nat) (pu pv : Option π) :
    Ext (g.addEdge u v ty i pu pv) (g'.addEdge u v ty i pu pv) := by
  have h2 := ext_addNode (ext_addNode h u pu) v pv
  obtain ⟨a1, a2, a3, a4⟩ := addEdge_eq g u v ty i pu pv
  obtain ⟨b1, b2, b3, b4⟩ := addEdge_eq g' u v ty i pu pv
  refine ⟨?_, ?_, ?_, ?_⟩
  · rw [a1, b1, h2.nodes]
  · rw [a2, b2, h2.hasEdge, h.edges]
  · intro m t; rw [a3, b3, h2.tag]
  · intro m; rw [a4, b4, h2.payload]

theorem ext_setTags {g g' : Graph ν π} (h : Ext g g') (ns : List ν) (t : Tag) (b : Bool) :
    Ext (g.setTags ns t b) (g'.setTags ns t b) := by
  refine ⟨h.nodes, h.edges, ?_, ?_⟩
  · intro m t'
    rw [tag_setTags, tag_setTags, h.tag, h.nodes]
  · intro m
    have := h.payload m
    simpa [payload, hasNode, setTags] using this

theorem ext_removeNode {g g' : Graph ν π} (h : Ext g g') (n : ν) : Ext (g.removeNode n) (g'.removeNode n) := by
  refine ⟨by simp [removeNode, h.nodes], by simp [removeNode, h.edges], ?_, ?_⟩
  · intro m t
    by_cases hm : m = n
    · subst hm; rw [tag_removeNode_self, tag_removeNode_self]
    · rw [tag_removeNode_ne _ _ _ _ hm, tag_removeNode_ne _ _ _ _ hm, h.tag]
  · intro m
    have := h.payload m
    have hn := h.nodes
    by_cases hm : m = n
    · subst hm; simp [payload, hasNode, removeNode]
    · simp only [payload, hasNode, removeNode] at this ⊢
      simp only [List.contains_iff_mem, List.mem_filter, decide_eq_true_eq, ne_eq, hm, not_false_eq_true, and_true] at this ⊢
      simpa [List.contains_iff_mem] using this

theorem ext_removeEdge {g g' : Graph ν π} (h : Ext g g') (u v : ν) :
    (g.removeEdge? u v = none ∧ g'.removeEdge? u v = none) ∨
    (∃ g1 g1', g.removeEdge? u v = some g1 ∧ g'.removeEdge? u v = some g1' ∧ Ext g1 g1') := by
  unfold removeEdge?
  rw [h.hasEdge]
  split
  · right
    refine ⟨_, _, rfl, rfl, ⟨h.nodes, by simp [h.edges], ?_, ?_⟩⟩
    · intro m t; have := h.tag m t; simpa [tag, hasNode] using this
    · intro m; have := h.payload m; simpa [payload, hasNode] using this
  · left; exact ⟨rfl, rfl⟩


/-! ### the tail of `_build_digraph` and the observable results respect `Ext` -/

theorem ext_tagSelfloops {g g' : LGraph} (h : Ext g g') : Ext (tagSelfloops g) (tagSelfloops g') := by
  have : g.selfloopNodes = g'.selfloopNodes := by
    unfold selfloopNodes
    rw [h.nodes]
    congr 1
    funext n
    exact h.hasEdge n n
  unfold tagSelfloops
  rw [this]
  exact ext_setTags h _ _ _

theorem ext_edgesOrdered {g g' : LGraph} (h : Ext g g') : g.edgesOrdered = g'.edgesOrdered := by
  unfold edgesOrdered outEdges
  rw [h.nodes, h.edges]

theorem ext_cands {g g' : LGraph} (h : Ext g g') (n : Node) : cands g n = cands g' n := by
  unfold cands; rw [h.payload]

theorem ext_rawOf {g g' : LGraph} (h : Ext g g') (n : Node) : rawOf g n = rawOf g' n := by
  unfold rawOf; rw [h.payload]

theorem ext_unresolved {g g' : LGraph} (h : Ext g g') : unresolved g = unresolved g' := by
  unfold unresolved
  rw [ext_edgesOrdered h]
  congr 1
  funext e
  rw [ext_cands h]

theorem ext_foldl_addEdge {g g' : LGraph} (tgt : Node) (cs : List Column) : Ext g g' →
    Ext (cs.foldl (fun g c => g.addEdge c.key tgt .lineage none (some (.col c)) none) g)
        (cs.foldl (fun g c => g.addEdge c.key tgt .lineage none (some (.col c)) none) g') := by
  induction cs generalizing g g' with
  | nil => exact id
  | cons c r ih => intro h; exact ih (ext_addEdge h _ _ _ _ _ _)

/-- related results: the same error, or `Ext`‑related graphs -/
def RelE : Except Err LGraph → Except Err LGraph → Prop
  | .ok a, .ok b => Ext a b
  | .error e, .error e' => e = e'
  | _, _ => False

theorem ext_resolveOne (prov : Prov) {g g' : LGraph} (h : Ext g g') (e : Node × Node) :
    RelE (resolveOne prov g e) (resolveOne prov g' e) := by
  unfold resolveOne
  simp only
  rw [ext_rawOf h, ext_cands h]
  have hE : g.hasEdge = g'.hasEdge := by funext u v; exact h.hasEdge u v
  simp only [hE]
  generalize hs : (List.filter _ (List.map (mkSrcCol (rawOf g' e.1)) (cands g' e.1)) ++ _) = srcs
  have hf := ext_foldl_addEdge e.2 srcs h
  split
  · exact hf
  · rcases ext_removeEdge hf e.1 e.2 with ⟨a, b⟩ | ⟨g1, g1', a, b, c⟩
    · rw [a, b]; rfl
    · rw [a, b]; exact c

theorem ext_resolveAll (prov : Prov) : ∀ (es : List (Node × Node)) {g g' : LGraph}, Ext g g' →
    RelE (resolveAll prov g es) (resolveAll prov g' es)
  | [], g, g', h => h
  | e :: r, g, g', h => by
    have h1 := ext_resolveOne prov h e
    simp only [resolveAll]
    cases ha : resolveOne prov g e with
    | error x =>
      cases hb : resolveOne prov g' e with
      | error y => rw [ha, hb] at h1; exact h1
      | ok y => rw [ha, hb] at h1; exact h1.elim
    | ok x =>
      cases hb : resolveOne prov g' e with
      | error y => rw [ha, hb] at h1; exact h1.elim
      | ok y => rw [ha, hb] at h1; exact ext_resolveAll prov r h1

theorem ext_degree {g g' : LGraph} (h : Ext g g') (n : Node) : g.degree n = g'.degree n := by
  unfold degree inDeg outDeg inEdges outEdges
  rw [h.edges]

theorem ext_foldl_removeNode (ns : List Node) : ∀ {g g' : LGraph}, Ext g g' →
    Ext (ns.foldl (fun g n => g.removeNode n) g) (ns.foldl (fun g n => g.removeNode n) g') := by
  induction ns with
  | nil => intro g g' h; exact h
  | cons n r ih => intro g g' h; exact ih (ext_removeNode h n)

theorem ext_removeOrphans {g g' : LGraph} (h : Ext g g') : Ext (removeOrphans g) (removeOrphans g') := by
  unfold removeOrphans
  have : g.nodes.filter (fun n => g.degree n == 0 && n.isCol && decide ((cands g n).length > 1)) =
         g'.nodes.filter (fun n => g'.degree n == 0 && n.isCol && decide ((cands g' n).length > 1)) := by
    rw [h.nodes]
    congr 1
    funext n
    rw [ext_degree h, ext_cands h]
  rw [this]
  exact ext_foldl_removeNode _ h

/-- the tail of `_build_digraph` (everything after the statement fold) -/
def tail (prov : Prov) (g : LGraph) : Except Err LGraph :=
  match resolveAll prov (tagSelfloops g) (unresolved (tagSelfloops g)) with
  | .error e => .error e
  | .ok g => .ok (removeOrphans g)

theorem ext_tail (prov : Prov) {g g' : LGraph} (h : Ext g g') : RelE (tail prov g) (tail prov g') := by
  unfold tail
  have h1 := ext_tagSelfloops h
  rw [ext_unresolved h1]
  have h2 := ext_resolveAll prov (unresolved (tagSelfloops g')) h1
  cases ha : resolveAll prov (tagSelfloops g) (unresolved (tagSelfloops g')) with
  | error x =>
    cases hb : resolveAll prov (tagSelfloops g') (unresolved (tagSelfloops g')) with
    | error y => rw [ha, hb] at h2; exact h2
    | ok y => rw [ha, hb] at h2; exact h2.elim
  | ok x =>
    cases hb : resolveAll prov (tagSelfloops g') (unresolved (tagSelfloops g')) with
    | error y => rw [ha, hb] at h2; exact h2.elim
    | ok y => rw [ha, hb] at h2; exact ext_removeOrphans h2

/-! observable results -/

theorem ext_tagTables {g g' : LGraph} (h : Ext g g') (t : Tag) : tagTables g t = tagTables g' t := by
  unfold tagTables tagged
  rw [h.nodes]
  congr 2
  funext n
  rw [h.tag]

theorem ext_tableGraph {g g' : LGraph} (h : Ext g g') :
    (tableGraph g).nodes = (tableGraph g').nodes ∧ (tableGraph g).edges = (tableGraph g').edges := by
  unfold tableGraph subgraph
  simp only [h.nodes, h.edges, and_self]

theorem ext_roles {g g' : LGraph} (h : Ext g g') :
    sourceTables g = sourceTables g' ∧ targetTables g = targetTables g' ∧ intermediateTables g = intermediateTables g' := by
  obtain ⟨hn, he⟩ := ext_tableGraph h
  have hin : ∀ n, (tableGraph g).inDeg n = (tableGraph g').inDeg n := by
    intro n; unfold inDeg inEdges; rw [he]
  have hout : ∀ n, (tableGraph g).outDeg n = (tableGraph g').outDeg n := by
    intro n; unfold outDeg outEdges; rw [he]
  refine ⟨?_, ?_, ?_⟩
  · unfold sourceTables
    simp only [hn, ext_tagTables h, hin, hout]
  · unfold targetTables
    simp only [hn, ext_tagTables h, hin, hout]
  · unfold intermediateTables
    simp only [hn, ext_tagTables h, hin, hout]

theorem ext_pathsFrom {g g' : LGraph} (h : Ext g g') : ∀ (fuel : Nat) (vis : List Node) (cur tgt : Node),
    Paths.pathsFrom g fuel vis cur tgt = Paths.pathsFrom g' fuel vis cur tgt
  | 0, _, _, _ => rfl
  | fuel + 1, vis, cur, tgt => by
    simp only [Paths.pathsFrom]
    split
    · rfl
    · have : g.outEdges cur = g'.outEdges cur := by unfold outEdges; rw [h.edges]
      rw [this]
      congr 1
      funext n
      rw [ext_pathsFrom h fuel]

theorem ext_columnLineage {g g' : LGraph} (h : Ext g g') (a b : Bool) :
    Paths.columnLineage g a b = Paths.columnLineage g' a b := by
  have hs : ∀ s t, Paths.simplePaths g s t = Paths.simplePaths g' s t := by
    intro s t; unfold Paths.simplePaths; rw [h.nodes, ext_pathsFrom h]
  have hn : (g.subgraph Node.isCol).nodes = (g'.subgraph Node.isCol).nodes := by unfold subgraph; simp only [h.nodes]
  have he : (g.subgraph Node.isCol).edges = (g'.subgraph Node.isCol).edges := by unfold subgraph; simp only [h.edges]
  have hin : ∀ n, (g.subgraph Node.isCol).inDeg n = (g'.subgraph Node.isCol).inDeg n := by
    intro n; unfold inDeg inEdges; rw [he]
  have hout : ∀ n, (g.subgraph Node.isCol).outDeg n = (g'.subgraph Node.isCol).outDeg n := by
    intro n; unfold outDeg outEdges; rw [he]
  unfold Paths.columnLineage
  simp only [hn, hin, hout, hs]

end SqlLineage.Proofs.C10Ext
