/-
Audit meta-program: for every theorem declared in a namespace `SqlLineage.Props.Cnn` print one JSON line with
the axioms its proof depends on.  Run with `lake env lean Audit.lean` after `lake build`.
-/
import SqlLineage
import Lean
open Lean Elab Command

private def propOf (n : Name) : Option (String × String) :=
  -- SqlLineage.Props.Cnn.<rest>  (public names only; private helper lemmas are reachable from these)
  match n.components with
  | `SqlLineage :: `Props :: c :: rest =>
    if rest.isEmpty then none else
    some (c.toString, ".".intercalate (rest.map Name.toString))
  | _ => none

run_cmd do
  let env ← getEnv
  let mut rows : Array (String × String × Array Name) := #[]
  for (n, ci) in env.constants.toList do
    if n.isInternal then continue
    -- skip auto-generated equation lemmas of definitions (`f.eq_1`, `f.eq_def`, …)
    let last := n.components.getLast?.map Name.toString |>.getD ""
    if last.startsWith "eq_" || last.startsWith "match_" || last.startsWith "_" then continue
    match ci with
    | .thmInfo _ =>
      match propOf n with
      | some (p, t) =>
        let ax ← liftCoreM (collectAxioms n)
        rows := rows.push (p, t, ax)
      | none => pure ()
    | _ => pure ()
  let sorted := rows.qsort (fun a b => a.1 < b.1 || (a.1 == b.1 && a.2.1 < b.2.1))
  for (p, t, ax) in sorted do
    let axs := ", ".intercalate (ax.toList.map (fun a => "\"" ++ a.toString ++ "\""))
    IO.println s!"\{\"prop\": \"{p}\", \"theorem\": \"{t}\", \"axioms\": [{axs}]}"
