/-
Line-protocol driver: one JSON request per line on stdin, one JSON answer per line on stdout.
Every request is an object with a "cmd" field; the answer is either the handler's object or {"error": "..."}.
Imports nothing outside core Lean and the Mathlib-free Model/Spec/Gen/IO modules, so it is compiled (`lake build driver`).
-/
import Lean.Data.Json
import SqlLineage.IO.Config
import SqlLineage.IO.Graph
import SqlLineage.IO.Sql
import SqlLineage.IO.PathSec
import SqlLineage.IO.Qualify
import SqlLineage.IO.Names

open Lean

def handlers : List (String × (Json → Except String Json)) := [
  ("cfg", SqlLineage.IO.Config.handleCfg),
  ("cfgmicro", SqlLineage.IO.Config.handleMicro),
  ("cfgexpand", SqlLineage.IO.Config.handleExpand),
  ("cfgparse", SqlLineage.IO.Config.handleParse),
  ("cfgtable", SqlLineage.IO.Config.handleTable),
  ("asm", SqlLineage.IO.Graph.handleAsm),
  ("sql", SqlLineage.IO.Sql.handleSql),
  ("render", SqlLineage.IO.Sql.handleRender),
  ("dispatch", SqlLineage.IO.Sql.handleDispatch),
  ("path", SqlLineage.IO.PathSec.handleOne),
  ("pathbatch", SqlLineage.IO.PathSec.handleBatch),
  ("pathlib", SqlLineage.IO.PathSec.handlePathlib),
  ("sqlfx", SqlLineage.IO.Qualify.handleSqlFixed),
  ("qualify", SqlLineage.IO.Qualify.handleQualify),
  ("ident", SqlLineage.IO.Names.handleIdent),
  ("namesBatch", SqlLineage.IO.Names.handleBatch),
  ("namesOf", SqlLineage.IO.Names.handleOf),
  ("namesSrc", SqlLineage.IO.Names.handleSrc),
  ("namesSites", SqlLineage.IO.Names.handleSites),
  ("namesEq", SqlLineage.IO.Names.handleEq)
]

def handleLine (line : String) : String :=
  match Json.parse line with
  | .error e => (Json.mkObj [("error", .str s!"json: {e}")]).compress
  | .ok j =>
    match j.getObjValAs? String "cmd" with
    | .error e => (Json.mkObj [("error", .str s!"cmd: {e}")]).compress
    | .ok c =>
      match handlers.find? (·.1 = c) with
      | none => (Json.mkObj [("error", .str s!"unknown cmd {c}")]).compress
      | some (_, h) =>
        match h j with
        | .ok r => r.compress
        | .error e => (Json.mkObj [("error", .str e)]).compress

partial def loop (hin : IO.FS.Stream) (hout : IO.FS.Stream) : IO Unit := do
  let line ← hin.getLine
  if line.isEmpty then return ()
  let l := line.trimAscii.toString
  if !l.isEmpty then
    hout.putStrLn (handleLine l)
  loop hin hout

def main : IO Unit := do
  let hin ← IO.getStdin
  let hout ← IO.getStdout
  loop hin hout
  hout.flush
