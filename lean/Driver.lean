/-
Line-protocol driver: one JSON request per line on stdin, one JSON answer per line on stdout.
Every request is an object with a "cmd" field; the answer is either the handler's object or {"error": "..."}.
Imports nothing outside core Lean and the Mathlib-free Model/Spec/Gen/IO modules, so it is compiled (`lake build driver`).
-/
import Lean.Data.Json
import SqlLineage.IO.Config
import SqlLineage.IO.Graph
import SqlLineage.IO.Sql
import SqlLineage.IO.PathSec
import SqlLineage.IO.Qualify
import SqlLineage.IO.Shape
import SqlLineage.IO.Export
import SqlLineage.IO.Rename
import SqlLineage.IO.Names
import SqlLineage.IO.Segments
import SqlLineage.IO.Split
import SqlLineage.IO.Provider
import SqlLineage.IO.Chain

open Lean

def handlers : List (String × (Json → Except String Json)) := [
  ("seglist", SqlLineage.IO.Segments.handleSegList),
  ("identbatch", SqlLineage.IO.Segments.handleIdentBatch),
  ("splitkeep", SqlLineage.IO.Segments.handleSplitKeep),
  ("cfg", SqlLineage.IO.Config.handleCfg),
  ("cfgmicro", SqlLineage.IO.Config.handleMicro),
  ("cfgexpand", SqlLineage.IO.Config.handleExpand),
  ("cfgparse", SqlLineage.IO.Config.handleParse),
  ("cfgtable", SqlLineage.IO.Config.handleTable),
  ("asm", SqlLineage.IO.Graph.handleAsm),
  ("sql", SqlLineage.IO.Sql.handleSql),
  ("render", SqlLineage.IO.Sql.handleRender),
  ("dispatch", SqlLineage.IO.Sql.handleDispatch),
  ("shape", SqlLineage.IO.Shape.handleShape),
  ("path", SqlLineage.IO.PathSec.handleOne),
  ("pathbatch", SqlLineage.IO.PathSec.handleBatch),
  ("pathlib", SqlLineage.IO.PathSec.handlePathlib),
  ("sqlfx", SqlLineage.IO.Qualify.handleSqlFixed),
  ("qualify", SqlLineage.IO.Qualify.handleQualify),
  ("exportsql", SqlLineage.IO.Export.handleExportSql),
  ("exportgraph", SqlLineage.IO.Export.handleExportGraph),
  ("exportfull", SqlLineage.IO.Export.handleExportFull),
  ("rename", SqlLineage.IO.Rename.handleRename),
  ("renamenames", SqlLineage.IO.Rename.handleNames),
  ("renamerender", SqlLineage.IO.Rename.handleRoundTrip),
  ("ident", SqlLineage.IO.Names.handleIdent),
  ("namesBatch", SqlLineage.IO.Names.handleBatch),
  ("namesOf", SqlLineage.IO.Names.handleOf),
  ("namesSrc", SqlLineage.IO.Names.handleSrc),
  ("namesSites", SqlLineage.IO.Names.handleSites),
  ("namesEq", SqlLineage.IO.Names.handleEq),
  ("splitlex", SqlLineage.IO.Split.handleLex),
  ("split", SqlLineage.IO.Split.handleSplit),
  ("splitscript", SqlLineage.IO.Split.handleScript),
  ("provhist", SqlLineage.IO.Provider.handleHist),
  ("provthreads", SqlLineage.IO.Provider.handleThreads),
  ("provsched", SqlLineage.IO.Provider.handleSched),
  ("chain", SqlLineage.IO.Chain.handleChain),
  ("chainpaths", SqlLineage.IO.Chain.handleChainPaths)
]

def handleLine (line : String) : String :=
  match Json.parse line with
  | .error e => (Json.mkObj [("error", .str s!"json: {e}")]).compress
  | .ok j =>
    match j.getObjValAs? String "cmd" with
    | .error e => (Json.mkObj [("error", .str s!"cmd: {e}")]).compress
    | .ok c =>
      match handlers.find? (·.1 = c) with
      | none => (Json.mkObj [("error", .str s!"unknown cmd {c}")]).compress
      | some (_, h) =>
        match h j with
        | .ok r => r.compress
        | .error e => (Json.mkObj [("error", .str e)]).compress

partial def loop (hin : IO.FS.Stream) (hout : IO.FS.Stream) : IO Unit := do
  let line ← hin.getLine
  if line.isEmpty then return ()
  let l := line.trimAscii.toString
  if !l.isEmpty then
    hout.putStrLn (handleLine l)
  loop hin hout

def main : IO Unit := do
  let hin ← IO.getStdin
  let hout ← IO.getStdout
  loop hin hout
  hout.flush
