"""C14 — a default schema equals explicit qualification.

  run(script, DEFAULT_SCHEMA = S)  ==  run(script with every unqualified base-table name written S.name, no default)

for tables, column paths (hence pairs) and both cytoscape exports, for S in {unset, a fresh name, a name the script already uses as
a qualifier} and for both mechanisms: the environment variable SQLLINEAGE_DEFAULT_SCHEMA in a FRESH SUBPROCESS (import-time effects
matter: `Table.__init__` had a default argument `Schema()` evaluated at import) and `with SQLLineageConfig(DEFAULT_SCHEMA=S)` in
process.  Thorough adds the combination "environment says S0, scoped override says S" (the override must win everywhere).

Oracle (implementation vs implementation, the model is not consulted): the partner result is computed on the qualified text — for
generated scripts the text comes from Lean (`Qualify.qualifyStmt`, driver command `qualify`), for corpus scripts from the
conservative token-level rewriter of `corpus14.py` (scripts it refuses are counted as skipped).  One thing the partner TEXT cannot
express: a column qualifier that names no relation in scope (`select zz.a from t1`, or the table of a scalar subquery in the select
list, which `_get_column_from_subquery` passes on by bare name).  sqllineage keeps only the last part of a column qualifier, so
`S.zz.a` still reads `zz`; the owner is created by `Table(qualifier)` with the default schema.  By the property it must be S.zz
under default S (and the placeholder under no default), so the expected result is the partner's with the placeholder schema
replaced by S.  With S unset the script is compared with the partner qualified by a fresh name P, `P.` mapped back to the
placeholder: that is "the placeholder is used uniformly for sources, targets and column owners".

"names that are already qualified are unaffected": the qualified script is also run under a different default S2; nothing but
fallback owners may change.

Model side (correspondence): `spec = qspec` (the Lean theorem `spec_default_eq_qualify` evaluated), model table lineage of the script
under default S = implementation's, model table lineage of the qualified script = implementation's.
"""
import collections
import json
import os
import shutil
import subprocess
import sys
import tempfile
import time
import warnings

import common
import corpus14
import gensql
import sqlcheck
import sqlimpl
from common import Check, Driver, Infra, canon_json, log, PY

PLACEHOLDER = "<default>"
FRESH = "zq9"          # not used by any generator or corpus script (checked)
FRESH2 = "zr8"
ENVVAR = "SQLLINEAGE_DEFAULT_SCHEMA"

WORKER = r"""
import sys, json
import sqlimpl
cases = json.load(sys.stdin)
json.dump([sqlimpl.run_case(c) for c in cases], sys.stdout)
"""


# ------------------------------------------------------------------------------------------------ running
def run_in_env(cases, env_schema, nproc=12):
    """run the cases in FRESH interpreters whose environment sets SQLLINEAGE_DEFAULT_SCHEMA=env_schema (None = unset)"""
    if not cases:
        return []
    env = dict(os.environ)
    env.pop(ENVVAR, None)
    if env_schema:
        env[ENVVAR] = env_schema
    env["PYTHONPATH"] = common.HERE + os.pathsep + env.get("PYTHONPATH", "")
    env["VERIF_REPO"] = common.REPO
    env.setdefault("PYTHONHASHSEED", "0")
    n = max(1, min(nproc, (len(cases) + 7) // 8))
    chunks = [cases[i::n] for i in range(n)]
    procs = []
    for ch in chunks:
        p = subprocess.Popen([PY, "-c", WORKER], stdin=subprocess.PIPE, stdout=subprocess.PIPE, stderr=subprocess.PIPE, env=env, text=True)
        procs.append((p, ch))
    for p, ch in procs:
        p.stdin.write(json.dumps(ch)); p.stdin.close()
    outs = []
    for p, ch in procs:
        out = p.stdout.read()
        err = p.stderr.read()
        rc = p.wait()
        if rc != 0:
            raise Infra("environment worker failed: " + err[-400:])
        outs.append(json.loads(out))
    res = [None] * len(cases)
    for k, o in enumerate(outs):
        for j, r in enumerate(o):
            res[k + j * n] = r
    return res


def remap(res, f):
    """apply the name mapping f to every printed name of a canonical result; the mapping may identify two names (a fallback owner
    and the table it stands for), so everything is compared as SETS.  Two masks (not C14's subject): the display parent of a column
    whose owner is a SubQuery (subqueries are identified by their text, two occurrences of one text share a node and the name shown
    depends on iteration order — C11 / D24), taken from the column's own candidate instead."""
    if "result" not in res:
        return {k: v for k, v in res.items() if k in ("error", "etype", "site", "rejected")}
    r = res["result"]

    def uniq(xs, key=None):
        out, seen = [], set()
        for x in sorted(xs, key=key or repr):
            k = repr(x)
            if k not in seen:
                seen.add(k); out.append(x)
        return out
    out = {k: uniq(f(x) for x in r[k]) for k in ("source", "target", "intermediate")}
    if "paths" in r:
        out["paths"] = uniq([f(c) for c in p] for p in r["paths"])
    if "cyto_table" in r:
        out["cyto_table"] = {"nodes": uniq(f(x) for x in r["cyto_table"]["nodes"]),
                             "edges": uniq([f(a), f(b)] for a, b in r["cyto_table"]["edges"])}
    if "cyto_column" in r:
        cc = r["cyto_column"]
        nodes = []
        for i, p, pcs in cc["nodes"]:
            pcs2 = uniq([f(n), t] for n, t in pcs)
            par = f(p)
            if len(pcs2) == 1 and pcs2[0][1] == "SubQuery":
                par = pcs2[0][0]
            nodes.append([f(i), par, pcs2])
        out["cyto_column"] = {
            "nodes": uniq(nodes),
            "parents": uniq([f(n), t] for n, t in cc["parents"] if t != "SubQuery"),
            "edges": uniq([f(a), f(b)] for a, b in cc["edges"]),
        }
    return {"result": out}


def prefix_map(pairs):
    def f(s):
        for old, new in pairs:
            if s == old:
                return new
            if s.startswith(old + "."):
                return new + s[len(old):]
        return s
    return f


def comparable(res):
    """error answers are compared by kind only; rejections are rejections"""
    if "rejected" in res:
        return None
    if "error" in res:
        return {"error": res["error"], "etype": res.get("etype")}
    return res


def diff_keys(a, b):
    if "result" in a and "result" in b:
        return [k for k in a["result"] if a["result"].get(k) != b["result"].get(k)]
    return ["<error>"]


# ------------------------------------------------------------------------------------------------ inputs
def ddl_stmt(rng):
    t = lambda: ([rng.choice(["s1", "s2"])] if rng.random() < 0.3 else []) + [rng.choice(gensql.TABLES + ["tgt", "out1"])]
    k = rng.randrange(5)
    if k == 0:
        return ["create_table", t(), rng.random() < 0.3, [["a", "int"], ["b", "varchar(10)"]]]
    if k == 1:
        return ["create_table_like", t(), t()]
    if k == 2:
        return ["drop", rng.random() < 0.3, rng.random() < 0.5, t()]
    if k == 3:
        x, y = t(), t()
        return ["alter_rename", x, y] if x != y else ["drop", False, False, x]
    return ["insert_values", t(), (["a", "b"] if rng.random() < 0.5 else None), [[["lit", "1"], ["lit", "'k'"]]]]


def targeted():
    """shapes the random generator cannot produce: a column qualifier that names no relation in scope (D17, fallback `Table(qualifier)`),
    scalar subqueries in the select list (their table reaches `to_source_columns` by bare name), CTE named like a base table elsewhere"""
    G = gensql
    sel = G.select
    out = []
    out.append(("unknown-qualifier", [["insert", "into", False, ["tgt"], None,
                                       sel([G.item(G.col("a", "zz")), G.item(G.col("b", "t1"))], [G.from_expr(G.table("t1"))]), False]]))
    out.append(("unknown-qualifier-join", [["ctas", ["tgt"], False, False,
                                            sel([G.item(G.col("a", "zz")), G.item(G.col("c", "y"))],
                                                [G.from_expr(G.table("t1", None, "x"), [G.join(G.table("t2", "s1", "y"), G.eq(G.col("a", "x"), G.col("a", "y")))])]), False]]))
    out.append(("scalar-subquery-item", [["insert", "into", False, ["tgt"], None,
                                          sel([G.item(G.func("coalesce", [["subq", sel([G.item(G.func("max", [G.col("c")]))], [G.from_expr(G.table("t3"))])], G.lit("0")]), "f", True),
                                               G.item(G.col("a"))], [G.from_expr(G.table("t1"))]), False]]))
    out.append(("scalar-subquery-item-qualified", [["insert", "into", False, ["s1", "tgt"], None,
                                                    sel([G.item(["subq", sel([G.item(G.col("c"))], [G.from_expr(G.table("t3", "s2"))])], "f", True)],
                                                        [G.from_expr(G.table("t1"))]), False]]))
    out.append(("chain-default-and-qualified", [
        ["insert", "into", False, ["t2"], None, sel([G.item(G.col("a")), G.item(G.col("b"))], [G.from_expr(G.table("t1", "s1"))]), False],
        ["insert", "into", False, ["s1", "t3"], None, sel([G.item(G.col("a"))], [G.from_expr(G.table("t2"))]), False],
        ["create_table_like", ["t4"], ["t3"]],
        ["drop", False, False, ["t5"]]]))
    out.append(("cte-and-base", [["insert", "into", False, ["tgt"], None,
                                  G.with_([("c1", sel([G.item(G.col("a"))], [G.from_expr(G.table("t1"))]))],
                                          sel([G.item(G.col("a", "c1")), G.item(G.col("b", "t2"))],
                                              [G.from_expr(G.table("c1"), [G.join(G.table("t2"), G.eq(G.col("a", "c1"), G.col("a", "t2")))])])), False]]))
    out.append(("rename", [["alter_rename", ["t1"], ["t2"]], ["insert", "into", False, ["t3"], None, sel([G.item(["star", []])], [G.from_expr(G.table("t2"))]), False]]))
    return out


TEXT_CASES = [
    # (name, dialect, script, qualified partner as a function of S) — shapes outside the typed AST
    ("vertica-swap-partitions", "vertica",
     "select swap_partitions_between_tables('staging', 'min_range_value', 'max_range_value', 'target')",
     lambda S: f"select swap_partitions_between_tables('{S}.staging', 'min_range_value', 'max_range_value', '{S}.target')"),
    ("update-from", "ansi", "update t1 set a = t2.a from t2 where t1.b = t2.b",
     lambda S: f"update {S}.t1 set a = t2.a from {S}.t2 where t1.b = t2.b"),
    ("merge", "ansi", "merge into tgt using src on tgt.k = src.k when matched then update set tgt.v = src.v",
     lambda S: f"merge into {S}.tgt using {S}.src on tgt.k = src.k when matched then update set tgt.v = src.v"),
    ("select-into", "tsql", "select a, b into t2 from t1", lambda S: f"select a, b into {S}.t2 from {S}.t1"),
    ("unknown-qualifier-sqlparse", "non-validating", "insert into tgt select zz.a from t1", lambda S: f"insert into {S}.tgt select zz.a from {S}.t1"),
]


def script_qualifiers(stmts):
    qs = []
    for n in gensql._walk(stmts):
        if isinstance(n, list) and n and n[0] == "table" and len(n[1]) >= 2:
            qs.append(n[1][0])
    for s in stmts:
        for pos in {"insert": [3], "ctas": [1], "create_view": [1], "create_table": [1], "create_table_like": [1, 2], "drop": [3],
                    "alter_rename": [1, 2], "insert_values": [1]}.get(s[0], []):
            if isinstance(s[pos], list) and len(s[pos]) >= 2:
                qs.append(s[pos][0])
    return qs


def gen_scripts(chk):
    rng = chk.rng
    out = [(f"targeted/{n}", ss) for n, ss in targeted()]
    shapes = list(gensql.enumerate_shapes(1))
    shapes = rng.sample(shapes, 60 if chk.tier != "thorough" else 400)
    out += [(f"shape/{n}", [s]) for n, s in shapes]
    n_rand = 500 if chk.tier == "thorough" else 110
    R = gensql.Rand(rng, max_depth=3 if chk.tier == "thorough" else 2)
    for i in range(n_rand):
        k = rng.choice([1, 1, 2, 3])
        ss = []
        for _ in range(k):
            if rng.random() < 0.25:
                ss.append(ddl_stmt(rng))
            else:
                ss.append(R.stmt(rng.choice([1, 2, 2, 3]) if chk.tier == "thorough" else rng.choice([1, 2])))
        out.append((f"rand-{i}", ss))
    return out


# ------------------------------------------------------------------------------------------------ the check
class Case:
    """one (script, dialect): texts for each S, and the runs it needs"""
    __slots__ = ("name", "kind", "dialect", "sql", "qsql", "ast", "variants")


MIXED = "Zq9X"         # a default spelled with upper-case letters: it is normalised like a schema name written in the script


def nrm(S):
    """printed form of an unquoted schema name"""
    return S.lower() if S else S


def variants_for(qualifiers_in_script):
    v = [("unset", None), ("fresh", FRESH), ("mixed", MIXED)]
    qs = [q for q in qualifiers_in_script if q and q.isidentifier()]
    if qs:
        v.append(("used", sorted(set(q.lower() for q in qs))[0]))
    return v


def expected_from_partner(partner, S_label, S):
    """the partner ran the script qualified by S (or by FRESH2 for `unset`) under no default"""
    if S_label == "unset":
        return remap(partner, prefix_map([(FRESH2, PLACEHOLDER)]))
    return remap(partner, prefix_map([(PLACEHOLDER, nrm(S))]))


def part_env_sequence(chk):
    """ONE process, the environment variable set / changed / unset between analyses with no scoped override in between (a value
    memoised at first use, or keyed by something the environment does not touch, shows only here: seeded change C14-5).  The
    expectation is spelled out, not computed: `insert into t select a from s` under default S is s.S -> t.S with S or <default>."""
    from sqllineage.runner import LineageRunner
    seq = [None, "zq1", "zq2", None, "zq1", "zq3", None]
    n = 0
    try:
        for step, S in enumerate(seq):
            if S is None:
                os.environ.pop(ENVVAR, None)
            else:
                os.environ[ENVVAR] = S
            P = S or "<default>"
            for dialect in ("ansi", "non-validating"):
                with warnings.catch_warnings():
                    warnings.simplefilter("ignore")
                    lr = LineageRunner("insert into t select a from s", dialect=dialect)
                    got = {"source": [str(x) for x in lr.source_tables], "target": [str(x) for x in lr.target_tables],
                           "pairs": sorted([str(p[0]), str(p[-1])] for p in lr.get_column_lineage())}
                exp = {"source": [f"{P}.s"], "target": [f"{P}.t"], "pairs": [[f"{P}.s.a", f"{P}.t.a"]]}
                n += 1
                chk.count("envseq:" + canon_json([step, S, dialect]), True)
                if got != exp:
                    chk.violation(f"default schema {S!r} set through the environment in a running process (step {step} of the sequence "
                                  f"{seq}) does not give the result of the explicitly qualified script",
                                  {"kind": "env-sequence", "sequence": seq[:step + 1], "dialect": dialect, "got": got, "expected": exp})
                    return n
    finally:
        os.environ.pop(ENVVAR, None)
    return n


def run(chk):
    os.environ.pop(ENVVAR, None)
    chk.coverage["env_sequence_runs"] = part_env_sequence(chk)
    if chk.violations:
        return chk.finish(level="proof", rule="environment sequence in one process", trusted_base=["harness/c14.py"])
    if not chk.lean.driver_ok:
        chk.stale.append({"kind": "driver", "why": "model driver does not build"})
        return chk.finish(level="proof", rule="driver unavailable")
    drv = Driver()
    thorough = chk.tier == "thorough"
    if thorough:
        ok, out = common.leanchecker(['SqlLineage.Props.C14', 'SqlLineage.Proofs.FlatLemmas', 'SqlLineage.Model.Qualify'])
        chk.coverage["leanchecker"] = "accepted" if ok else "REJECTED: " + out[-300:]
        if not ok:
            chk.lean.forbidden.append("leanchecker rejected the property's modules: " + out[-300:])
    dialects = ["ansi", "sparksql", "postgres"] if thorough else ["ansi"]
    st = sqlcheck.Stats()
    want = ("tables", "columns", "cyto")

    # ---- inputs: (name, kind, dialect, S_label, S, text under test, partner text, ast|None)
    items = []
    scripts = gen_scripts(chk)
    reqs, idx = [], []
    for si, (name, ss) in enumerate(scripts):
        for lab, S in variants_for(script_qualifiers(ss)):
            Sq = S if S else FRESH2
            reqs.append({"cmd": "qualify", "stmts": ss, "schema": Sq, "default_schema": S or "", "import_default": S or PLACEHOLDER, "fixed": True})
            idx.append((si, lab, S))
    answers = drv.ask(reqs)
    model = {}
    for (si, lab, S), a in zip(idx, answers):
        if "error" in a and "sql" not in a:
            raise Infra("model driver error: " + a["error"])
        name, ss = scripts[si]
        model[(si, lab)] = a
        for d in dialects:
            items.append({"name": name, "kind": "generated", "dialect": d, "label": lab, "S": S, "sql": a["sql"], "qsql": a["qsql"],
                          "ast": ss, "si": si})
    # corpus
    corpus = corpus14.harvest()
    n_skipped = 0
    n_corpus = 0
    if not thorough:
        corpus = chk.rng.sample(corpus, min(len(corpus), 70))
    for origin, sql, ds in corpus:
        low = sql.lower()
        if FRESH in low or FRESH2 in low:
            n_skipped += 1; continue
        quals = corpus14.used_qualifiers(sql)
        d = (ds[0] if ds else "ansi")
        ok_any = False
        for lab, S in variants_for(quals):
            q = corpus14.qualify_text(sql, S if S else FRESH2)
            if q is None:
                continue
            ok_any = True
            items.append({"name": origin, "kind": "corpus", "dialect": d, "label": lab, "S": S, "sql": sql, "qsql": q, "ast": None})
        if ok_any:
            n_corpus += 1
        else:
            n_skipped += 1
    for name, d, sql, qf in TEXT_CASES:
        for lab, S in [("unset", None), ("fresh", FRESH)]:
            items.append({"name": "text/" + name, "kind": "text", "dialect": d, "label": lab, "S": S, "sql": sql, "qsql": qf(S if S else FRESH2), "ast": None})

    # ---- runs
    def case(sql, d, ds=None):
        return {"sql": sql, "dialect": d, "default_schema": ds, "want": want}
    t0 = time.time()
    partner = sqlimpl.run_cases([case(it["qsql"], it["dialect"]) for it in items], chunksize=8)
    scoped = sqlimpl.run_cases([case(it["sql"], it["dialect"], it["S"]) for it in items], chunksize=8)
    # "already qualified names are unaffected": the qualified text under another default
    t1 = time.time()
    rq_idx = [k for k, it in enumerate(items) if it["S"]]
    rq = sqlimpl.run_cases([case(items[k]["qsql"], items[k]["dialect"], FRESH if items[k]["S"] != FRESH else "zs7") for k in rq_idx], chunksize=8)
    requal = [{"rejected": "not run"}] * len(items)
    for k, r in zip(rq_idx, rq):
        requal[k] = r
    t2 = time.time()
    envres = [None] * len(items)
    by_env = collections.defaultdict(list)
    for k, it in enumerate(items):
        by_env[it["S"]].append(k)
    for S, ks in by_env.items():
        rs = run_in_env([case(items[k]["sql"], items[k]["dialect"]) for k in ks], S)
        for k, r in zip(ks, rs):
            envres[k] = r
    both = [None] * len(items)
    if thorough:
        ks = [k for k, it in enumerate(items) if it["S"]]
        rs = run_in_env([case(items[k]["sql"], items[k]["dialect"], items[k]["S"]) for k in ks], "zenv0")
        for k, r in zip(ks, rs):
            both[k] = r
    # ---- with a metadata provider that knows tables of the default schema: every metadata lookup goes by the table's schema, so the
    # provider must be asked about S.name under default S exactly as for the qualified text (generated scripts, scoped override)
    md_idx, md_of = [], {}
    for k, it in enumerate(items):
        if it["S"] and it["kind"] == "generated" and "result" in partner[k]:
            pre = nrm(it["S"]) + "."
            tabs = sorted({t for key in ("source", "target", "intermediate") for t in partner[k]["result"][key] if t.startswith(pre)})
            if tabs:
                C = list(gensql.COLS)
                md_of[k] = {t: [C[(i + j) % len(C)] for j in range(3)] for i, t in enumerate(tabs)}
                md_idx.append(k)
    pm = sqlimpl.run_cases([dict(case(items[k]["qsql"], items[k]["dialect"]), metadata=md_of[k]) for k in md_idx], chunksize=8)
    sm = sqlimpl.run_cases([dict(case(items[k]["sql"], items[k]["dialect"], items[k]["S"]), metadata=md_of[k]) for k in md_idx], chunksize=8)
    partner_md, scoped_md = dict(zip(md_idx, pm)), dict(zip(md_idx, sm))
    sqlimpl.close_pool()
    log(f"[c14] {len(items)} items; in-process runs {t2 - t0:.1f}s, subprocess (environment) runs {time.time() - t2:.1f}s")

    # ---- classify
    fails = []   # (item index, mechanism, got, expected)
    for k, it in enumerate(items):
        p = comparable(partner[k])
        if p is None:
            st.reject[it["dialect"]] += 1
            continue
        exp = expected_from_partner(partner[k], it["label"], it["S"]) if "result" in partner[k] else p
        nontrivial = "result" in partner[k] and bool(partner[k]["result"]["source"] or partner[k]["result"]["target"])
        for mech, got in (("scoped", scoped[k]), ("env", envres[k]), ("env+scoped", both[k])):
            if got is None:
                continue
            g = comparable(got)
            if g is None:
                st.reject[it["dialect"]] += 1
                continue
            st.accept[it["dialect"]] += 1
            chk.count(canon_json([it["sql"] if isinstance(it["sql"], str) else it["sql"], it["dialect"], it["label"], mech]), nontrivial)
            st.c[f"{it['kind']}:{it['label']}:{mech}"] += 1
            g2 = remap(got, lambda s: s) if "result" in got else g
            if g2 == exp:
                st.c["agree"] += 1
                if st.c["agree"] % 900 == 1:
                    chk.sample({"script": it["sql"], "qualified": it["qsql"], "dialect": it["dialect"], "S": it["S"], "mechanism": mech,
                                "tables": {x: exp["result"][x] for x in ("source", "target")} if "result" in exp else exp})
            else:
                st.c["MISMATCH:" + mech] += 1
                fails.append((k, mech, g2, exp))
        # the same with a metadata provider
        if k in partner_md and comparable(partner_md[k]) is not None and comparable(scoped_md[k]) is not None:
            e3 = expected_from_partner(partner_md[k], it["label"], it["S"]) if "result" in partner_md[k] else comparable(partner_md[k])
            g3 = remap(scoped_md[k], lambda s: s) if "result" in scoped_md[k] else comparable(scoped_md[k])
            st.c["scoped+metadata:checked"] += 1
            chk.count(canon_json([it["sql"], it["dialect"], it["label"], "scoped+metadata"]), nontrivial)
            if g3 != e3:
                st.c["MISMATCH:scoped+metadata"] += 1
                fails.append((k, "scoped+metadata", g3, e3))
        # qualified names unaffected
        rq = comparable(requal[k])
        if rq is not None and "result" in requal[k] and "result" in partner[k]:
            other = FRESH if it["S"] != FRESH else "zs7"
            e2 = remap(partner[k], prefix_map([(PLACEHOLDER, other)]))
            st.c["qualified-unaffected:checked"] += 1
            if remap(requal[k], lambda s: s) != e2:
                st.c["MISMATCH:qualified-affected"] += 1
                fails.append((k, "requalified:" + other, remap(requal[k], lambda s: s), e2))

    # ---- model side (generated scripts, first dialect): spec = qspec, model tables = impl tables on both sides
    n_model = 0
    for k, it in enumerate(items):
        if it["kind"] != "generated" or it["dialect"] != dialects[0]:
            continue
        a = model[(it["si"], it["label"])]
        n_model += 1
        if it["S"]:
            sp = [(x["reads"], x["writes"]) for x in a["spec"]]
            qsp = [(x["reads"], x["writes"]) for x in a["qspec"]]
            if sp != qsp:
                raise Infra("Lean: spec under default S differs from spec of the qualified statement (contradicts spec_default_eq_qualify): "
                            + json.dumps(it["sql"])[:300])
        for side, ans, impl in (("default", a["out"], scoped[k]), ("qualified", a["qout"], partner[k])):
            if "rejected" in impl:
                continue
            it_t = sqlcheck.impl_tables(impl)
            m_t = {"error": ans["error"].split(":")[0]} if "error" in ans else sqlcheck.tables_of(ans["result"])
            if "error" in it_t:
                it_t = {"error": it_t["error"]}
            if it_t == m_t:
                st.c["model-tables:agree"] += 1
            else:
                # the property itself is decided above on the implementation alone; a model disagreement is a stale correspondence
                # unless it is the D17 fallback (tables are never affected by it) — report it
                st.c["model-tables:DISAGREE"] += 1
                if len(chk.stale) < 10 and not any(f[0] == k for f in fails):
                    chk.stale.append({"kind": "c14-model", "side": side, "script": it["sql"], "S": it["S"], "impl": it_t, "model": m_t})

    if os.environ.get("C14_DEBUG"):
        with open(os.environ["C14_DEBUG"], "w") as fh:
            json.dump([{"name": items[k]["name"], "sql": items[k]["sql"], "qsql": items[k]["qsql"], "S": items[k]["S"], "mech": m,
                        "dialect": items[k]["dialect"], "diff": diff_keys(g, e), "got": g, "exp": e} for k, m, g, e in fails], fh, indent=1)
    # ---- report
    d17 = chk.finding("D17")
    reported = 0
    seen_scripts = set()
    for k, mech, got, exp in fails:
        it = items[k]
        key = (json.dumps(it["sql"]), mech.split(":")[0])
        if key in seen_scripts:
            continue
        seen_scripts.add(key)
        cls = classify_d17(got, exp, it["S"])
        if cls and d17 is not None:
            chk.known("D17")
            continue
        # finding D45-subquery-schema-lost: the schema of a select-list subquery's table is lost on the way through `_get_column_from_subquery`
        if not cls and chk.finding("D45-subquery-schema-lost") is not None and mech.split(":")[0] in ("scoped", "env", "env+scoped", "scoped+metadata") and \
                (gensql.item_has_subq(it["ast"]) if it["ast"] is not None else corpus14.text_item_has_subq(it["sql"] if isinstance(it["sql"], str) else ";".join(it["sql"]))) \
                and not any(x in diff_keys(got, exp) for x in ("source", "target", "intermediate")) \
                and ("cyto_table" not in diff_keys(got, exp) or d45_owner_collides(it, got, exp)):
            chk.known("D45-subquery-schema-lost")
            continue
        if reported >= 3:
            continue
        reported += 1
        small = it
        if mech == "scoped+metadata":
            small = dict(it, metadata=md_of[k])
        if it["ast"] is not None and mech in ("scoped", "env", "scoped+metadata"):
            small = shrink_item(drv, small, mech)
            got, exp = evaluate_item(small, mech)
        if not cls and chk.finding("D16") is not None and it["ast"] is not None and star_over_several(it["ast"]) and same_targets(got, exp):
            chk.known("D16")
            continue
        what = ("default schema %r via %s does not give the result of the explicitly qualified script (differs in: %s)%s"
                % (it["S"], mech, ", ".join(diff_keys(got, exp)), " [D17 class: a Table created without schema ignores the configured default]" if cls else ""))
        chk.violation(what, {"kind": "c14", "dialect": small["dialect"], "S": small["S"], "label": small["label"], "mechanism": mech,
                             "sql": small["sql"], "qsql": small["qsql"], "ast": small.get("ast"), "metadata": small.get("metadata"),
                             "got": got, "expected": exp,
                             "class": "D17" if cls else None})
    chk.coverage.update({"scripts_generated": len(scripts), "scripts_corpus_used": n_corpus, "scripts_corpus_skipped_by_rewriter": n_skipped,
                         "text_cases": len(TEXT_CASES), "dialects": dialects, "mechanisms": ["scoped", "env"] + (["env+scoped"] if thorough else []),
                         "model_comparisons": n_model, "distribution": st.as_dict(), "exhaustive": False})
    chk.assumptions += ["corpus scripts are qualified by a conservative token-level rewriter; the scripts it refuses are skipped and counted",
                        "a column qualifier that names no relation in scope cannot be schema-qualified in SQL text as sqllineage reads it "
                        "(only the last qualifier part is kept): its owner is expected in S, i.e. the partner's placeholder schema is mapped to S",
                        "S ranges over plain lower-case names (the theorems' `Plain S`) and one name spelled with upper-case letters (normalised like a written "
                        "schema name); quoted defaults are C16's subject",
                        "generated scripts run under sqlfluff dialects only: the sqlparse analyzer (`non-validating`) loses the sources of "
                        "`insert into <schema>.<table> (select ...)` whatever the default schema is — a parser-level defect of the QUALIFIED text "
                        "(C09's subject); one hand-written sqlparse case is kept"]
    return chk.finish(
        level="proof",
        rule="scripts = targeted shapes + enumerate_shapes(1) (sampled in quick) + seeded random scripts of 1-3 statements (queries, INSERT, "
             "CTAS, VIEW, CREATE TABLE [LIKE], DROP, ALTER RENAME, INSERT VALUES; depth<=2 quick / <=3 thorough) rendered and qualified by "
             "Lean + the SQL scripts harvested from the repository's tests (token-level rewriter) + hand-written text cases (vertica "
             "swap_partitions, UPDATE FROM, MERGE, SELECT INTO, sqlparse); x S in {unset, fresh, used qualifier} x mechanism in {scoped "
             "override in process, environment variable in a fresh subprocess[, both]}; compared: source/target/intermediate tables, all "
             "column paths, both cytoscape exports. non-trivial = the partner reports at least one table; distinct by (text, dialect, S, mechanism)",
        trusted_base=["Lean 4.33 kernel", "axioms: propext, Classical.choice, Quot.sound", "harness/c14.py, corpus14.py, sqlimpl.py"])


def d45_owner_collides(it, got, exp):
    """D45 seen in the table-level export: the fallback owner `<placeholder>.<bare name>` of a select-list subquery's column is, under a
    default (or no default at all), the SAME node as a table of that bare name which a DROP / RENAME of the script names — in the
    qualified partner the two are different tables.  Recognised by: the roles agree, the edges of the table export agree, and every node
    the two exports do not share is a table that a DROP / RENAME statement of the script names (by bare name)."""
    if it.get("ast") is None or "result" not in got or "result" not in exp:
        return False
    g, e = got["result"]["cyto_table"], exp["result"]["cyto_table"]
    if g["edges"] != e["edges"]:
        return False
    ddl = set()
    for st_ in it["ast"]:
        if st_ and st_[0] in ("drop", "alter_rename", "rename_table"):
            for n in gensql._walk(st_):
                if isinstance(n, list) and n and all(isinstance(x, str) for x in n):
                    ddl.add(n[-1].lower())
    odd = set(map(str, g["nodes"])) ^ set(map(str, e["nodes"]))
    return bool(odd) and all(x.rsplit(".", 1)[-1] in ddl for x in odd)


def star_over_several(stmts):
    """some SELECT has an unqualified `*` over two or more relations: which relation a shared column name is attributed to depends on
    the iteration order of a set of relations hashed by name / subquery TEXT (C11, finding D16) — and the text is what qualification
    changes"""
    for n in gensql._walk(stmts):
        if isinstance(n, list) and n and n[0] == "select" and len(n) == 7:
            if any(it[0][0] == "star" and not it[0][1] for it in n[2]):
                rels = sum(1 + len(fe[1]) for fe in n[3])
                if rels >= 2:
                    return True
    return False


def same_targets(got, exp):
    """both sides report the same target columns and the same tables; only the attribution of sources differs"""
    if "result" not in got or "result" not in exp:
        return False
    g, e = got["result"], exp["result"]
    if any(g[k] != e[k] for k in ("source", "target", "intermediate", "cyto_table")):
        return False
    return sorted({p[-1] for p in g.get("paths", [])}) == sorted({p[-1] for p in e.get("paths", [])})


def classify_d17(got, exp, S):
    """the disagreement is exactly: names the expectation puts in S appear in the placeholder schema (or in the import-time
    environment schema `zenv0`) instead — the signature of a `Table(name)` created without schema"""
    if "result" not in got or "result" not in exp or not S:
        return False
    for wrong in (PLACEHOLDER, "zenv0"):
        if remap(got, prefix_map([(wrong, S)])) == exp:
            return True
    return False


def evaluate_item(it, mech):
    want = ("tables", "columns", "cyto")
    if mech == "scoped+metadata":
        partner = sqlimpl.run_case({"sql": it["qsql"], "dialect": it["dialect"], "want": want, "metadata": it["metadata"]})
        got = sqlimpl.run_case({"sql": it["sql"], "dialect": it["dialect"], "default_schema": it["S"], "want": want, "metadata": it["metadata"]})
        if "rejected" in partner or "rejected" in got:
            return {"rejected": True}, {"rejected": True}
        exp = expected_from_partner(partner, it["label"], it["S"]) if "result" in partner else comparable(partner)
        return (remap(got, lambda s: s) if "result" in got else comparable(got)), exp
    partner = sqlimpl.run_case({"sql": it["qsql"], "dialect": it["dialect"], "want": want})
    if mech == "scoped":
        got = sqlimpl.run_case({"sql": it["sql"], "dialect": it["dialect"], "default_schema": it["S"], "want": want})
    elif mech == "env":
        got = run_in_env([{"sql": it["sql"], "dialect": it["dialect"], "want": want}], it["S"])[0]
    elif mech == "env+scoped":
        got = run_in_env([{"sql": it["sql"], "dialect": it["dialect"], "default_schema": it["S"], "want": want}], "zenv0")[0]
    else:   # requalified:<other>
        other = mech.split(":", 1)[1]
        got = sqlimpl.run_case({"sql": it["qsql"], "dialect": it["dialect"], "default_schema": other, "want": want})
        if "result" not in partner or "result" not in got:
            return comparable(got) or {}, comparable(partner) or {}
        return remap(got, lambda s: s), remap(partner, prefix_map([(PLACEHOLDER, other)]))
    if "rejected" in partner or "rejected" in got:
        return {"rejected": True}, {"rejected": True}
    exp = expected_from_partner(partner, it["label"], it["S"]) if "result" in partner else comparable(partner)
    g = remap(got, lambda s: s) if "result" in got else comparable(got)
    return g, exp


def shrink_item(drv, it, mech):
    """smaller generated script on which the implementation still disagrees with its partner"""
    def mk(ss):
        Sq = it["S"] if it["S"] else FRESH2
        a = drv.ask1({"cmd": "qualify", "stmts": ss, "schema": Sq, "default_schema": it["S"] or "", "fixed": True})
        if "sql" not in a:
            raise ValueError("bad candidate")
        return dict(it, sql=a["sql"], qsql=a["qsql"], ast=ss)

    def bad(ss):
        c = mk(ss)
        g, e = evaluate_item(c, mech)
        return g != e and "rejected" not in g
    cur = it["ast"]
    budget = 25 if mech == "env" else 120
    # drop whole statements first
    changed = True
    while changed and len(cur) > 1 and budget > 0:
        changed = False
        for i in range(len(cur)):
            cand = cur[:i] + cur[i + 1:]
            budget -= 1
            try:
                if bad(cand):
                    cur = cand; changed = True; break
            except Exception:
                continue
    if len(cur) == 1 and cur[0][0] in ("query", "insert", "ctas", "create_view"):
        try:
            s = sqlcheck.shrink(cur[0], lambda c: bad([c]), budget=budget)
            cur = [s]
        except Infra:
            raise
        except Exception:
            pass
    return mk(cur)


def replay(chk, obj):
    if obj.get("replay", {}).get("kind") == "env-sequence":
        n0 = len(chk.violations)
        part_env_sequence(chk)
        return 1 if len(chk.violations) > n0 else 0
    r = obj["replay"]
    if r.get("kind") == "c14":
        os.environ.pop(ENVVAR, None)
        it = {"sql": r["sql"], "qsql": r["qsql"], "dialect": r["dialect"], "S": r["S"], "label": r["label"], "metadata": r.get("metadata")}
        got, exp = evaluate_item(it, r["mechanism"])
        print(json.dumps({"script": r["sql"], "qualified": r["qsql"], "S": r["S"], "mechanism": r["mechanism"],
                          "differs_in": diff_keys(got, exp) if got != exp else [],
                          "got_paths": got.get("result", {}).get("paths"), "expected_paths": exp.get("result", {}).get("paths"),
                          "got_tables": {k: got.get("result", {}).get(k) for k in ("source", "target")},
                          "expected_tables": {k: exp.get("result", {}).get(k) for k in ("source", "target")}}, indent=1))
        return 1 if got != exp else 0
    print("replay file names no concrete input:", json.dumps(r)[:600])
    return 1
