"""C11 - analysis is deterministic.

Sweep: every input (harvested corpus with its dialects / metadata / configuration, TPC-DS, generated statements incl. star-heavy ones,
generated multi-statement scripts with and without a dict metadata provider, targeted order-sensitive shapes) is evaluated by
`c11_worker.py` with the REAL LineageRunner in fresh subprocesses started under different PYTHONHASHSEED values; the canonical dumps
of ALL public accessors are compared byte for byte across seeds.  Accessor-order part: for a sample, the accessors are called in
several orders / repeatedly on fresh runners and on the same runner (also with a provider that changes between evaluations) and the
answers compared.

Oracle (does not use the model): implementation vs implementation - dump under seed a == dump under seed b; answer of an accessor
at any position of any call sequence == its answer on a fresh runner.  A difference is shrunk (statements of the script, then the
AST for generated inputs) and classified: it is counted under a known finding only if that finding is listed with status "finding",
the input belongs to the finding's class and the difference is confined to what the finding describes; anything else is a VIOLATION
with (script, dialect, metadata, the two seeds) as replay.

Correspondence with the Lean model (generated inputs): the model evaluates the same AST under several iteration orders of the
one order parameter it has (`rev_star`); every seed's answer must be one of the model's outcomes (up to `c02.agrees_modulo_order`).

The check does not depend on the hash seed of the harness process: all evaluation happens in workers whose seed is set explicitly,
and the harness never iterates a set of strings to take a decision.
"""
import concurrent.futures as cf
import copy
import json
import os
import re
import shutil
import subprocess
import tempfile
import time

import c02
import c11_worker as W
import corpus11
import gensql
import sqlcheck
import common
from common import Driver, Infra, canon_json, leanchecker, log
from gensql import col, derived, eq, from_expr, item, join, select, setop, table, with_

NEED_DRIVER = True
WORKER = os.path.join(common.HERE, "c11_worker.py")
TABLE_KEYS = ("source", "target", "intermediate", "cyto_table", "str", "statements", "print_table", "failed")
COLUMN_KEYS = ("col_default", "col_TF", "col_TT", "col_FF", "col_FT", "col_kw", "print_column", "cyto_column")
PATH_KEYS = ("col_default", "col_TF", "col_TT", "col_FF", "col_FT", "col_kw")
GEN_DIALECTS = ["ansi", "ansi", "ansi", "sparksql", "bigquery", "postgres", "non-validating"]


def n_procs():
    try:
        return max(2, min(16, int(os.environ.get("VERIF_PROCS", "0")) or (os.cpu_count() or 4)))
    except ValueError:
        return 16


def seeds_for(chk):
    """the set of string-hash seeds of this run: a fixed part (so that recorded witnesses keep their meaning) + a part drawn from the
    run's PRNG (so that repeated runs with different VERIF_SEED widen the set)"""
    if chk.tier == "thorough":
        fixed = list(range(24))
        k = 8
    else:
        fixed = [0, 1, 4]
        k = 1
    extra = []
    while len(extra) < k:
        s = chk.rng.randrange(100, 2 ** 32 - 1)
        if s not in extra:
            extra.append(s)
    return fixed + extra


# ------------------------------------------------------------------------------------------------ inputs
NAME_POOL = [("x", "y"), ("t1", "t2"), ("orders", "customers"), ("left_tab", "right_tab"), ("a1", "b1"), ("src", "dim"),
             ("p", "q"), ("fact_sales", "dim_date")]


def _rel(kind, tname, alias, cols, md, schema="s1"):
    """one FROM element of kind derived | cte | mdtable | plain exposing `cols`; returns (from_elem, cte_def | None)"""
    if kind == "derived":
        return derived(select([item(col(c)) for c in cols], [from_expr(table(tname))]), alias), None
    if kind == "cte":
        return table(alias), (alias, select([item(col(c)) for c in cols], [from_expr(table(tname))]))
    if kind == "mdtable":
        md[f"{schema}.{tname}"] = list(cols)
        return table(tname, schema, alias), None
    return table(tname, None, alias), None


def targeted_cases(chk):
    """shapes aimed at each order-sensitive site (each as a script of AST statements so that the model can be asked too)"""
    out = []

    def add(tag, stmts, md=None, dialect="ansi"):
        out.append({"kind": "targeted", "tag": tag, "ast": stmts, "metadata": md or None, "dialect": dialect})
    kinds = ["derived", "cte", "mdtable", "plain"]
    # D16 site: unqualified * over 2 relations; every pair of relation kinds x join / comma x a few name pairs
    for i, (k1, k2) in enumerate([(a, b) for a in kinds for b in kinds]):
        for j, (n1, n2) in enumerate(NAME_POOL):
            if (i + j) % (2 if chk.tier == "thorough" else 3):
                continue
            md = {}
            r1, c1 = _rel(k1, n1, "l" + n1, ["a", "e"], md)
            r2, c2 = _rel(k2, n2, "r" + n2, ["b", "e"], md)
            if j % 2:
                frm = [from_expr(r1, [join(r2, eq(col("a", "l" + n1), col("b", "r" + n2)))])]
            else:
                frm = [from_expr(r1), from_expr(r2)]
            q = select([item(["star", []])], frm)
            ctes = [c for c in (c1, c2) if c]
            if ctes:
                q = with_(ctes, q)
            add(f"star/{k1}-{k2}", [["insert", "into", False, ["tgt"], None, q, False]], md)
            # the same scope, an unqualified ordinary column: candidates are sorted, must not depend on the seed
            q2 = select([item(col("e")), item(col("a"))], frm)
            if ctes:
                q2 = with_(ctes, q2)
            add(f"unqualified/{k1}-{k2}", [["insert", "into", False, ["tgt"], None, q2, False]], md)
    # three relations, nested joins in a derived table (deep join crawl), star next to other items, star in a CTE body / view / ctas
    for j, (n1, n2) in enumerate(NAME_POOL):
        md = {}
        d1 = derived(select([item(col("a")), item(col("e"))], [from_expr(table(n1))]), "u")
        d2 = derived(select([item(col("b")), item(col("e"))], [from_expr(table(n2))]), "v")
        d3 = derived(select([item(col("c")), item(col("e")), item(col("a"))], [from_expr(table(n1 + "3"))]), "w")
        three = select([item(["star", []])], [from_expr(d1, [join(d2, eq(col("a", "u"), col("b", "v"))), join(d3, None, "cross join")])])
        add("star/three", [["ctas", ["tgt"], False, False, three, False]])
        inner = derived(select([item(["star", []])], [from_expr(d1, [join(d2, eq(col("a", "u"), col("b", "v")))])]), "dd")
        nested = select([item(["star", []])], [from_expr(table(n2 + "9", "s2", "k"), [join(inner, eq(col("a", "k"), col("a", "dd")))])])
        md = {f"s2.{n2}9": ["a", "z"]}
        add("star/nested", [["create_view", ["tgt"], False, None, nested]], md)
        mixed = select([item(col("a", "u"), "first"), item(["star", []]), item(col("b", "v"), "last")],
                       [from_expr(d1, [join(d2, None, "left join", ["e"])])])
        add("star/mixed-items", [["insert", "into", False, ["s1", "tgt"], None, mixed, False]])
        # session metadata: the shared column comes from tables created earlier in the script
        add("star/session", [
            ["ctas", [n1 + "_t"], False, False, select([item(col("a")), item(col("e"))], [from_expr(table(n1))]), False],
            ["ctas", [n2 + "_t"], False, False, select([item(col("b")), item(col("e"))], [from_expr(table(n2))]), False],
            ["insert", "into", False, ["tgt"], None,
             select([item(["star", []])], [from_expr(table(n1 + "_t")), from_expr(table(n2 + "_t"))]), False]],
            {"s9.unrelated": ["q"]})
    # D10 site: several rename pairs in one statement (mysql), chains and independent pairs; single pair and ALTER ... RENAME
    for (a, b, c) in [("a", "b", "c"), ("t1", "t2", "t3"), ("x", "y", "z"), ("old", "new", "tmp")]:
        pre = [["insert", "into", False, [b], None, select([item(col("k"))], [from_expr(table(c))]), False]]
        add("rename/chain2", pre + [["rename_table", [[[b], [a]], [[c], [b]]]]], dialect="mysql")
        add("rename/chain2-rev", pre + [["rename_table", [[[c], [b]], [[b], [a]]]]], dialect="mysql")
        add("rename/independent", pre + [["rename_table", [[[b], [b + "_n"]], [[c], [c + "_n"]]]]], dialect="mysql")
        add("rename/three", pre + [["rename_table", [[[a], [a + "0"]], [[b], [a]], [[c], [b]]]]], dialect="mysql")
        add("rename/single", pre + [["rename_table", [[[b], [a]]]]], dialect="mysql")
        add("rename/alter", pre + [["alter_rename", [b], [a]]])
        add("drop/several", pre + [["drop", False, False, [a]], ["drop", False, True, [b]], ["drop", False, False, [c]]])
    # several reads x one write, self loops, intermediate tables: product(read, write), tag setting
    for (a, b, c) in [("a", "b", "c"), ("t1", "t2", "t3"), ("alpha", "beta", "gamma")]:
        sel = select([item(col("k", a)), item(col("v", b))], [from_expr(table(a), [join(table(b), eq(col("k", a), col("k", b))),
                                                                                 join(table(c), eq(col("k", a), col("k", c)))])])
        add("rw/product", [["insert", "into", False, ["mid"], None, sel, False],
                           ["insert", "into", False, ["fin"], None, select([item(col("k")), item(col("v"))], [from_expr(table("mid"))]), False],
                           ["insert", "into", False, [a], None, select([item(col("k"))], [from_expr(table(a))]), False],
                           ["query", select([item(col("k"))], [from_expr(table(c)), from_expr(table("lonely"))]), False]])
    # several sources, intermediates and targets (the three sorted table lists)
    for names in (["a", "b", "c", "d", "e", "f", "g", "h", "i"], ["t1", "t2", "t3", "t4", "t5", "t6", "t7", "t8", "t9"],
                  ["north", "south", "east", "west", "up", "down", "left", "right", "mid"]):
        s1, s2, s3, m1, m2, m3, f1, f2, f3 = names
        one = lambda t: select([item(col("k"))], [from_expr(table(t))])
        add("roles/many", [["insert", "into", False, [m], None, one(s_), False] for s_, m in ((s1, m1), (s2, m2), (s3, m3))]
            + [["insert", "into", False, [f], None, one(m), False] for m, f in ((m1, f1), (m2, f2), (m3, f3))]
            + [["insert", "into", False, [m2], None, one(m1), False]])
    # several column paths with the same end points (order of the list `get_column_lineage` returns)
    for (a, b) in [("t1", "t9"), ("src", "dst"), ("x", "y")]:
        add("paths/diamond", [
            ["insert", "into", False, [a + "_l"], None, select([item(col("v"))], [from_expr(table(a))]), False],
            ["insert", "into", False, [a + "_r"], None, select([item(col("v"))], [from_expr(table(a))]), False],
            ["insert", "into", False, [b], None, setop((select([item(col("v"))], [from_expr(table(a + "_l"))]), False),
                                                        [("union all", (select([item(col("v"))], [from_expr(table(a + "_r"))]), False))]), False]])
        three = [derived(select([item(col("id")), item(col("v"))], [from_expr(table(a))], eq(col("f"), ["lit", str(i)])), f"j{i}") for i in (1, 2, 3)]
        add("paths/three-derived", [["insert", "into", False, [b], None,
                                     select([item(gensql.func("coalesce", [col("v", "j1"), col("v", "j2"), col("v", "j3")]), "v")],
                                            [from_expr(table(a), [join(d, eq(col("id", a), col("id", d[2])), "left join") for d in three])]), False]])
        # one subquery text under two aliases (owner naming in the column-level export)
        same = select([item(col("v"))], [from_expr(table(a))])
        add("export/same-subquery-two-aliases", [["insert", "into", False, [b], None,
                                                  select([item(col("v", "m"), "v1"), item(col("v", "n"), "v2")],
                                                         [from_expr(derived(same, "m"), [join(derived(copy.deepcopy(same), "n"), eq(col("v", "m"), col("v", "n")))])]), False]])
    # session metadata is positional: a table created in the script, then written again WITHOUT a column list — the select items are
    # wired to the registered columns by position, so the registered ORDER must not depend on the seed
    for (a, b) in [("stage", "feed"), ("t1", "t2"), ("north", "south")]:
        cols5 = ["alpha", "e", "k", "v", "w", "zeta"]
        add("session/positional", [
            ["ctas", [a], False, False, select([item(col(c)) for c in cols5], [from_expr(table(b))]), False],
            ["insert", "into", False, [a], None, select([item(col("p" + c)) for c in cols5], [from_expr(table(b + "_2"))]), False],
            ["insert", "into", False, ["fin"], None, select([item(["star", []])], [from_expr(table(a))]), False]],
            {"s9.unrelated": ["q"]})
    return out


def targeted_text_cases():
    """shapes outside the typed AST, as text: two datasets written by one statement (vertica: the target of the INSERT and the target
    of swap_partitions_between_tables).  The unchanged code refuses them with a library exception under every seed."""
    out = []
    for (a, b, x) in [("staging", "final", "x"), ("s1.a", "s1.b", "t"), ("p_old", "p_new", "log"), ("src", "dst", "audit"),
                      ("m", "n", "o"), ("alpha", "beta", "gamma")]:
        swap = f"insert into {x} select swap_partitions_between_tables('{a}', 1, 2, '{b}') as c1, k, v + 1 as w from feed_{x}"
        out.append({"kind": "targeted", "tag": "two-writes/single", "case": {"sql": swap, "dialect": "vertica"}})
        out.append({"kind": "targeted", "tag": "two-writes/session",
                    "case": {"sql": swap + f";\ninsert into y select * from {x};\ninsert into z select * from {b}", "dialect": "vertica",
                             "metadata": {"s9.unrelated": ["q"]}}})
    # UPDATE ... FROM two tables with the same bare name in different schemas: the table the qualifier denotes must not follow a
    # set's iteration order (D51, repaired: the later table wins in statement order)
    for (s1, s2, x) in [("s1", "s2", "x"), ("stg", "arch", "events"), ("a", "b", "t"), ("db1", "db2", "orders"), ("p", "q", "r"),
                        ("left1", "right1", "k"), ("m1", "m2", "n"), ("u1", "u2", "v")]:
        out.append({"kind": "targeted", "tag": "update-from/bare-name-clash",
                    "case": {"sql": f"update tgt set c = {x}.d from {s1}.{x}, {s2}.{x}", "dialect": "postgres"}})
    # an inner WITH that defines a CTE with the name of an outer one: the inner definition must win under every seed (D52, repaired)
    for (a, t1, t2) in [("a", "t1", "t2"), ("cte", "src1", "src2"), ("w", "p", "q"), ("tmp", "left_t", "right_t"), ("x1", "y1", "z1"),
                        ("recent", "orders", "orders_arch"), ("base", "m", "n"), ("c0", "d0", "e0")]:
        for d in ("ansi", "non-validating"):
            out.append({"kind": "targeted", "tag": "cte/shadow", "case": {
                "sql": f"insert into tgt with {a} as (select x from {t1}) select x from (with {a} as (select x from {t2}) select x from {a}) s",
                "dialect": d}})
    # tables that carry role TAGS (written by a statement that reads nothing, read by a statement that writes nothing, self loop)
    # next to ordinary lineage: the three role accessors are computed from shared per-tag sets
    for (a, b, c) in [("audit", "final", "src"), ("t1", "t2", "t3"), ("log", "dst", "feed")]:
        for d in ("ansi", "non-validating"):
            out.append({"kind": "targeted", "tag": "roles/tags", "case": {
                "sql": f"insert into {a} values (1, 'load started');\ninsert into {b} select x, y from {c};\nselect x from lonely_{c};\n"
                       f"create table made_{a} (x int);\ninsert into loop_{b} select x from loop_{b}", "dialect": d}})
    return out


def _walk_nodes(j, path=()):
    if isinstance(j, list):
        yield path, j
        for i, x in enumerate(j):
            yield from _walk_nodes(x, path + (i,))


def starify(stmt, rng, p=0.5):
    """make the select blocks with >= 2 relations in scope select `*` (with probability p each): star-heavy statements"""
    stmt = copy.deepcopy(stmt)
    for _, n in _walk_nodes(stmt):
        if n and n[0] == "select" and len(n) == 7 and isinstance(n[3], list):
            rels = sum(1 + len(fe[1]) for fe in n[3])
            if rels >= 2 and rng.random() < p:
                keep = [it for it in n[2] if rng.random() < 0.3]
                star = item(["star", []])
                n[2] = (keep[:1] + [star] + keep[1:2]) if rng.random() < 0.4 else [star]
    return stmt


def table_refs(stmts):
    out = []
    for _, n in _walk_nodes(stmts):
        if n and n[0] == "table" and len(n) == 4 and isinstance(n[1], list) and n[1] and n[1][-1] not in gensql.CTES:
            out.append(n)
    return out


def gen_script(R, rng, with_md):
    """2-4 statements; later statements read tables written earlier; DROP / RENAME in between; optional dict metadata"""
    n = rng.randrange(2, 5)
    stmts, written = [], []
    for i in range(n):
        r = rng.random()
        if written and r < 0.12:
            stmts.append(["drop", False, rng.random() < 0.5, rng.choice(written)])
            continue
        if written and r < 0.22:
            w = rng.choice(written)
            stmts.append(["alter_rename", w, w[:-1] + [w[-1] + "_r"]])
            continue
        s = R.stmt(rng.choice([1, 1, 2]))
        if rng.random() < 0.5:
            s = starify(s, rng, 0.6)
        if written:
            for ref in table_refs([s]):
                if rng.random() < 0.45:
                    ref[1] = list(rng.choice(written))
        if s[0] == "insert":
            written.append(list(s[3]))
        elif s[0] in ("ctas", "create_view"):
            written.append(list(s[1]))
        stmts.append(s)
    md = None
    if with_md:
        md = {}
        seen = []
        for ref in table_refs(stmts):
            key = (ref[1][0] if len(ref[1]) > 1 else "<default>") + "." + ref[1][-1]
            if key not in seen:
                seen.append(key)
        for key in seen:
            if rng.random() < 0.6:
                md[key] = rng.sample(gensql.COLS, rng.randrange(1, 4))
        if not md and seen:
            md[seen[0]] = ["a", "b"]
    return stmts, md


def generated_cases(chk):
    out = []
    thorough = chk.tier == "thorough"
    R = gensql.Rand(chk.rng, max_depth=3 if thorough else 2)
    n_stmt = 400 if thorough else 220
    for i in range(n_stmt):
        s = R.stmt(chk.rng.choice([1, 2, 2, 3]) if thorough else chk.rng.choice([1, 2, 2]))
        if i % 2:
            s = starify(s, chk.rng)
        out.append({"kind": "gen-stmt", "tag": "star-heavy" if i % 2 else "plain", "ast": [s], "metadata": None,
                    "dialect": GEN_DIALECTS[i % len(GEN_DIALECTS)]})
    n_script = 250 if thorough else 130
    for i in range(n_script):
        stmts, md = gen_script(R, chk.rng, with_md=(i % 2 == 1))
        out.append({"kind": "gen-script", "tag": "metadata" if md else "plain", "ast": stmts, "metadata": md,
                    "dialect": GEN_DIALECTS[(i // 2) % len(GEN_DIALECTS)]})
    return out


def build_inputs(chk, drv):
    inputs = []
    corpus, hstats = corpus11.harvest(common.REPO)
    for c in corpus:
        inputs.append({"kind": "corpus", "tag": c["origin"], "case": {k: v for k, v in c.items() if k != "origin"}})
    tp = corpus11.tpcds(common.REPO)
    tp = chk.rng.sample(tp, min(40 if chk.tier == "thorough" else 8, len(tp)))       # the long scripts: a seeded subset per run
    for c in tp:
        inputs.append({"kind": "tpcds", "tag": c["origin"], "case": {"sql": c["sql"], "dialect": c["dialect"]}})
    gen = targeted_cases(chk) + generated_cases(chk)
    if drv is not None:
        ans = drv.ask([{"cmd": "render", "stmts": g["ast"]} for g in gen])
    else:
        ans = [None] * len(gen)
    for g, a in zip(gen, ans):
        if a is None or "sql" not in a:
            continue
        case = {"sql": ";\n".join(a["sql"]), "dialect": g["dialect"]}
        if g["metadata"]:
            case["metadata"] = g["metadata"]
        g["case"] = case
        inputs.append(g)
    inputs += targeted_text_cases()
    for i, x in enumerate(inputs):
        x["id"] = i
    return inputs, hstats


# ------------------------------------------------------------------------------------------------ running workers
def worker_env(seed):
    env = dict(os.environ)
    env["PYTHONHASHSEED"] = str(seed)
    env["PYTHONPATH"] = common.HERE
    env["PYTHONDONTWRITEBYTECODE"] = "1"
    env["VERIF_REPO"] = common.REPO
    return env


def run_batches(tasks, timeout):
    """tasks: [(seed, batch_path, out_path)] -> runs them on a pool of subprocesses; raises Infra on failure"""
    def one(t):
        seed, bp, op = t
        try:
            r = subprocess.run([common.PY, WORKER, bp, op], env=worker_env(seed), capture_output=True, text=True, timeout=timeout)
        except subprocess.TimeoutExpired:
            return f"worker timed out (seed {seed}, {os.path.basename(bp)})"
        if r.returncode != 0 or not os.path.exists(op):
            return f"worker failed (seed {seed}, {os.path.basename(bp)}): {r.stderr[-400:]}"
        return None
    with cf.ThreadPoolExecutor(n_procs()) as ex:
        errs = [e for e in ex.map(one, tasks) if e]
    if errs:
        raise Infra(errs[0])


def split_batches(cases, n):
    """longest-processing-time-first on the length of the SQL text"""
    order = sorted(range(len(cases)), key=lambda i: -len(cases[i]["sql"]))
    loads = [0] * n
    bins = [[] for _ in range(n)]
    for i in order:
        k = loads.index(min(loads))
        bins[k].append(i)
        loads[k] += 200 + len(cases[i]["sql"])
    return [b for b in bins if b]


def sweep(cases, seeds, workdir, tag, timeout):
    """-> {seed: [dump per case]}"""
    n_b = max(1, min(len(cases), (2 * n_procs()) // max(1, min(len(seeds), n_procs())) or 1))
    if len(seeds) >= n_procs():
        n_b = 4
    bins = split_batches(cases, n_b)
    tasks = []
    for bi, idxs in enumerate(bins):
        bp = os.path.join(workdir, f"{tag}-b{bi}.json")
        with open(bp, "w", encoding="utf-8") as f:
            json.dump([cases[i] for i in idxs], f)
        for s in seeds:
            tasks.append((s, bp, os.path.join(workdir, f"{tag}-b{bi}-s{s}.json")))
    # biggest batches first
    run_batches(tasks, timeout)
    out = {s: [None] * len(cases) for s in seeds}
    for bi, idxs in enumerate(bins):
        for s in seeds:
            with open(os.path.join(workdir, f"{tag}-b{bi}-s{s}.json"), encoding="utf-8") as f:
                o = json.load(f)
            if str(o.get("hashseed")) != str(s):
                raise Infra(f"worker ran under hash seed {o.get('hashseed')} instead of {s}")
            for i, d in zip(idxs, o["dumps"]):
                out[s][i] = d
    return out


class Server:
    """a persistent worker under a given hash seed (line protocol) - used while shrinking"""

    def __init__(self, seed):
        self.p = subprocess.Popen([common.PY, WORKER, "--serve"], env=worker_env(seed), stdin=subprocess.PIPE, stdout=subprocess.PIPE,
                                  stderr=subprocess.DEVNULL, text=True)

    def dump(self, case):
        self.p.stdin.write(json.dumps(case) + "\n")
        self.p.stdin.flush()
        line = self.p.stdout.readline()
        if not line:
            raise Infra("shrink worker died")
        return json.loads(line)

    def close(self):
        try:
            self.p.stdin.close()
            self.p.wait(timeout=10)
        except Exception:
            self.p.kill()


# ------------------------------------------------------------------------------------------------ comparing / classifying
def strip(d):
    return {k: v for k, v in d.items() if not k.startswith("_")}


def diff_keys(a, b):
    a, b = strip(a), strip(b)
    return sorted(k for k in sorted(set(a) | set(b)) if a.get(k) != b.get(k))


def tie_normal(d):
    """the dump with every path list (and the printed column lineage) put in full lexicographic order: what remains equal when
    only the order among paths with the same end points differs"""
    d = dict(strip(d))
    for k in PATH_KEYS:
        if isinstance(d.get(k), list):
            d[k] = sorted(d[k])
    if isinstance(d.get("print_column"), str):
        d["print_column"] = "\n".join(sorted(d["print_column"].split("\n")))
    return d


def has_tied_paths(d):
    for k in PATH_KEYS:
        v = d.get(k)
        if isinstance(v, list):
            ends = [(p[0], p[-1]) for p in v if p]
            if len(ends) != len(set(ends)):
                return True
    return False


def owner_naming_only(a, b):
    """the column-level exports differ only in which name an owner (compound node) is shown under"""
    ca, cb = a.get("cyto_column"), b.get("cyto_column")
    if not (isinstance(ca, dict) and isinstance(cb, dict)) or ca.get("edges") != cb.get("edges"):
        return False

    def cols(c):
        out = []
        for n in c["nodes"]:
            o = json.loads(n)
            if "parent" in o:
                o.pop("parent")
                out.append(canon_json(o))
        return sorted(out)
    return cols(ca) == cols(cb)


def star_scope_syntactic(sql, dialect):
    """class test for corpus inputs, on the sqlfluff tree: an unqualified `*` in a SELECT whose FROM holds >= 2 relations"""
    try:
        from sqlfluff.core import Linter
        d = "ansi" if dialect == "non-validating" else dialect
        tree = Linter(dialect=d).parse_string(sql).tree
        if tree is None:
            return False
        for sel in tree.recursive_crawl("select_statement"):
            sc = sel.get_child("select_clause")
            fc = sel.get_child("from_clause")
            if sc is None or fc is None:
                continue
            stars = [w for w in sc.recursive_crawl("wildcard_expression", no_recursive_seg_type="select_statement") if "." not in w.raw]
            rels = list(fc.recursive_crawl("from_expression_element", no_recursive_seg_type="select_statement"))
            if stars and len(rels) >= 2:
                return True
    except Exception:
        pass
    return bool(re.search(r"select\s+(distinct\s+)?\*", sql, re.I) and re.search(r"\bjoin\b|from\s+[^()]*,", sql, re.I))


def model_outcomes(drv, inp, n=16):
    """the model's outcomes (tables + sorted paths) over iteration orders of the relations under an unqualified `*`"""
    if drv is None or "ast" not in inp:
        return None
    ks = [0, 1] + [(i * 2654435761 + i * i * 40503) % (10 ** 12) for i in range(2, n)]
    reqs = []
    for k in ks:
        r = {"cmd": "sql", "stmts": inp["ast"], "rev_star": k}
        if inp.get("metadata"):
            r["metadata"] = inp["metadata"]
        reqs.append(r)
    outs, seen = [], []
    for a in drv.ask(reqs):
        o = a.get("out")
        if o is None:
            return None
        if "error" in o:
            m = {"error": o["error"].split(":")[0]}
        else:
            m = {"tables": sqlcheck.tables_of(o["result"]), "paths": sorted(o["result"]["paths"])}
        k = canon_json(m)
        if k not in seen:
            seen.append(k)
            outs.append(m)
    return outs


def impl_view(d):
    """the part of a dump the model also computes"""
    if "failed" in d:
        return d["failed"]
    return {"tables": {"source": sorted(d["source"]), "target": sorted(d["target"]), "intermediate": sorted(d["intermediate"])},
            "paths": sorted(d["col_default"])}


def in_model_outcomes(view, outs):
    if view in outs:
        return True
    if "paths" not in view:
        return any("error" in o for o in outs) and "error" in view
    same_tables = [o for o in outs if o.get("tables") == view["tables"]]
    if not same_tables:
        return False
    return c02.agrees_modulo_order(view["paths"], [o["paths"] for o in same_tables])


class Classifier:
    def __init__(self, chk, drv):
        self.chk, self.drv = chk, drv
        self.stats = {}

    def bump(self, k, n=1):
        self.stats[k] = self.stats.get(k, 0) + n

    def classify(self, inp, a, b):
        """a, b: dumps of one input under two seeds, different.  -> (finding id | None, description)"""
        keys = diff_keys(a, b)
        meta = a.get("_meta") or b.get("_meta") or {}
        rp = max((a.get("_meta") or {}).get("rename_pairs", 0), (b.get("_meta") or {}).get("rename_pairs", 0))
        if rp > 1:
            return "D10", f"a statement with {rp} rename pairs: {keys}"
        if any(k in TABLE_KEYS for k in keys):
            return None, f"table-level / summary / error answers differ: {keys}"
        na, nb = tie_normal(a), tie_normal(b)
        if na == nb:
            if has_tied_paths(a):
                return "D26", f"order among column paths with the same end points: {keys}"
            return None, f"order of column paths differs without tied end points: {keys}"
        rest = sorted(k for k in sorted(set(na) | set(nb)) if na.get(k) != nb.get(k))
        if rest == ["cyto_column"] and owner_naming_only(a, b) and meta.get("multi_alias_owners", 0) > 0:
            return "D27", "column-level export names an owner after one of several aliases of the same subquery text"
        # D16: unqualified * over several expandable relations; only column-level answers may differ
        outs = model_outcomes(self.drv, inp) if inp["kind"] != "corpus" and inp["kind"] != "tpcds" else None
        if outs is not None:
            in_class = len(outs) > 1
        else:
            in_class = star_scope_syntactic(inp["case"]["sql"], inp["case"].get("dialect", "ansi"))
        if in_class:
            if outs is not None and not gensql.item_has_subq(inp["ast"]):
                for d in (a, b):
                    if not in_model_outcomes(impl_view(d), outs):
                        self.chk.stale.append({"kind": "seed-outcome-not-in-model", "sql": inp["case"]["sql"], "dialect": inp["case"]["dialect"],
                                               "metadata": inp["case"].get("metadata"), "impl": impl_view(d), "model_outcomes": outs[:4]})
                        break
            return "D16", f"unqualified * over several relations sharing a column name: {rest}"
        return None, f"column-level answers differ: {rest}"


def still_differs(sa, sb, case, want_keys):
    da, db = sa.dump(case), sb.dump(case)
    if "rejected" in str(da.get("failed", "")) and "rejected" in str(db.get("failed", "")):
        return False
    k = diff_keys(da, db)
    return bool(k) and (not want_keys or bool(set(k) & set(want_keys)))


def shrink_input(drv, inp, seed_a, seed_b, keys, budget=40):
    """smallest script (statements dropped; AST simplified for generated inputs) that still differs between the two seeds"""
    sa, sb = Server(seed_a), Server(seed_b)
    try:
        case = dict(inp["case"])
        if "ast" in inp and drv is not None:
            stmts = list(inp["ast"])

            def render(ss):
                a = drv.ask1({"cmd": "render", "stmts": ss})
                c = dict(case)
                c["sql"] = ";\n".join(a["sql"])
                return c
            used = 0
            i = 0
            while len(stmts) > 1 and i < len(stmts) and used < budget:
                cand = stmts[:i] + stmts[i + 1:]
                used += 1
                if still_differs(sa, sb, render(cand), keys):
                    stmts = cand
                else:
                    i += 1
            for si in range(len(stmts)):
                if stmts[si][0] in ("query", "insert", "ctas", "create_view"):
                    def pred(c, si=si):
                        return still_differs(sa, sb, render(stmts[:si] + [c] + stmts[si + 1:]), keys)
                    stmts[si] = sqlcheck.shrink(stmts[si], pred, budget=max(5, (budget - used) // len(stmts)))
            return render(stmts), stmts
        # text: drop statements of the script
        from sqllineage.utils.helpers import split
        try:
            parts = split(case["sql"].strip())
        except Exception:
            parts = [case["sql"]]
        i, used = 0, 0
        while len(parts) > 1 and i < len(parts) and used < budget:
            cand = dict(case)
            cand["sql"] = "\n".join(parts[:i] + parts[i + 1:])
            used += 1
            if still_differs(sa, sb, cand, keys):
                parts = parts[:i] + parts[i + 1:]
            else:
                i += 1
        case["sql"] = "\n".join(parts)
        return case, None
    finally:
        sa.close()
        sb.close()


# ------------------------------------------------------------------------------------------------ accessor orders
def accessor_orders(rng):
    base = list(W.DUMP_ORDER)
    orders = [base, list(reversed(base))]
    for _ in range(3):
        o = list(base)
        rng.shuffle(o)
        orders.append(o)
    orders.append([x for n in base for x in (n, n)])                      # every accessor twice in a row
    flags = ["col_FT", "col_TT", "col_FF", "col_TF", "col_default", "col_kw", "col_TF", "col_TT", "col_FT", "col_FF"]
    orders.append(flags + [n for n in base if not n.startswith("col_")])   # flag combinations back to back, first argument alternating last
    o = list(base)
    rng.shuffle(o)
    orders.append(o + list(reversed(o)))
    return orders


def check_orders(chk, inputs, dumps0, workdir, stats):
    """accessor-call permutations on a stratified sample (single hash seed: the property here is about call order)"""
    n = 240 if chk.tier == "thorough" else 56
    strata = {"flags-matter": [], "intermediate": [], "error": [], "metadata": [], "other": [], "tags": []}
    for inp, d in zip(inputs, dumps0):
        if inp.get("tag") == "roles/tags":
            strata["tags"].append(inp)
        elif "failed" in d:
            strata["error"].append(inp)
        elif inp["case"].get("metadata"):
            strata["metadata"].append(inp)
        elif len({canon_json(d.get(k)) for k in ("col_TF", "col_TT", "col_FF", "col_FT")}) > 1:
            strata["flags-matter"].append(inp)
        elif d.get("intermediate"):
            strata["intermediate"].append(inp)
        elif d.get("col_default") or d.get("source"):
            strata["other"].append(inp)
    sample = []
    quota = {"flags-matter": n * 3 // 10, "intermediate": n * 2 // 10, "error": n // 10, "metadata": n * 2 // 10, "other": n * 2 // 10,
             "tags": 6}
    for k in ("flags-matter", "intermediate", "error", "metadata", "other", "tags"):
        pool = [x for x in strata[k] if len(x["case"]["sql"]) < 3000]
        sample += chk.rng.sample(pool, min(quota[k], len(pool)))
        stats[f"orders_sample/{k}"] = min(quota[k], len(pool))
    return run_orders(chk, sample, accessor_orders(chk.rng), workdir, stats, "ord")


def run_orders(chk, sample, orders, workdir, stats, tag):
    """-> True when some runner evaluated its script more than once (every further accessor call then costs a whole analysis)"""
    reevaluates = False
    cases = []
    for inp in sample:
        c = dict(inp["case"])
        c["orders"] = orders
        cases.append(c)
    if not cases:
        return False
    bins = split_batches(cases, min(len(cases), n_procs()))
    tasks = []
    for bi, idxs in enumerate(bins):
        bp = os.path.join(workdir, f"{tag}-b{bi}.json")
        with open(bp, "w", encoding="utf-8") as f:
            json.dump([cases[i] for i in idxs], f)
        tasks.append((0, bp, os.path.join(workdir, f"{tag}-b{bi}-out.json")))
    run_batches(tasks, 1500)
    reported = set()
    for bi, idxs in enumerate(bins):
        with open(os.path.join(workdir, f"{tag}-b{bi}-out.json"), encoding="utf-8") as f:
            res = json.load(f)["dumps"]
        for i, r in zip(idxs, res):
            inp = sample[i]
            ref = r["single"]                 # each accessor as the only call on a fresh runner
            failed = isinstance(ref.get("source"), dict)
            chk.count("orders:" + canon_json(inp["case"]), not failed, n=len(orders) + 3 + len(ref))
            stats["accessor_calls"] = stats.get("accessor_calls", 0) + sum(len(o) for o in orders) * 1 + 3 * len(orders[0])
            bad = None
            for oi, fr in enumerate(r["fresh"]):
                for pos, (name, ans) in enumerate(fr["answers"]):
                    if ans != ref[name] and bad is None:
                        bad = ("fresh runner, order #%d, call %d" % (oi, pos), name, orders[oi][:pos + 1])
            seqs = [orders[0], orders[-1], orders[0]]
            for si, answers in enumerate(r["same"]):
                for pos, (name, ans) in enumerate(answers):
                    if ans != ref[name] and bad is None:
                        bad = ("same runner, round %d, call %d" % (si, pos), name, sum(seqs[:si], []) + seqs[si][:pos + 1])
            if not failed and max([fr["evals"] for fr in r["fresh"]] + [r.get("same_evals", 0), r.get("mutating_evals", 0)]) > 1:
                # not a failure of the property by itself (the answers decide that), but the model says `_eval` runs once
                if not reevaluates:
                    chk.stale.append({"kind": "evaluation-count", "case": inp["case"], "why": "a successful evaluation ran more than once "
                                      "on one runner (Lazy model: eval_at_most_once)", "evals": r.get("same_evals")})
                reevaluates = True
            if "mutating" in r and bad is None:
                first = dict((k, v) for k, v in r["mutating"][0])
                for pos, (name, ans) in enumerate(r["mutating"][1]):
                    if ans != first[name] and bad is None:
                        bad = ("same runner over a provider that changes between evaluations, second round, call %d" % pos, name,
                               orders[0] + orders[-1][:pos + 1])
            if bad is not None:
                sig = (bad[0].split(",")[0], bad[1])
                stats["accessor_order_failures"] = stats.get("accessor_order_failures", 0) + 1
                if sig not in reported and len(reported) < 4:
                    reported.add(sig)
                    chk.violation(f"accessor `{bad[1]}` answers differently depending on the calls made before it ({bad[0]})",
                                  {"kind": "accessor-order", "case": inp["case"], "calls": bad[2], "accessor": bad[1], "where": bad[0]})
    return reevaluates


# ------------------------------------------------------------------------------------------------ known findings
def replay_findings(chk, workdir, stats):
    """DESIGN 2.5 step 7: the stored witness of every listed finding is replayed first"""
    for e in chk.findings:
        if e.get("status") != "finding":
            continue
        w = e.get("witness") or {}
        if w.get("kind") != "seed-diff":
            continue
        case = {k: w[k] for k in ("sql", "dialect", "metadata", "config", "env") if w.get(k) is not None}
        a, b = w["seeds"]
        res = sweep([case], [a, b], workdir, "kf-" + e["id"], 600)
        if diff_keys(res[a][0], res[b][0]):
            chk.known(e["id"])
            stats[f"witness_replayed/{e['id']}"] = "still differs between seeds %d and %d" % (a, b)
        else:
            chk.stale.append({"kind": "known-finding-no-longer-fails", "id": e["id"], "witness": w})


# ------------------------------------------------------------------------------------------------ run
REPEAT_FAMILIES = [
    # (metadata, script B - repeated, script A - run in between on the SAME provider object)
    ({"staging.orders": ["order_id", "amount", "customer", "ts"]},
     "insert into mart.t2 select * from staging.orders",
     "create table staging.orders as select order_id, amount from raw.orders;\ninsert into mart.t3 select * from staging.orders"),
    ({"s.a": ["k", "v"], "s.b": ["k", "w"]},
     "insert into s.out1 select * from s.a join s.b on a.k = b.k",
     "create table s.a as select k from s.seed;\nselect * from s.a"),
    ({"db.x": ["c1", "c2", "c3"]},
     "insert into db.y select c1, c2 from db.x;\ninsert into db.z select * from db.y",
     "create view db.y as select c3 from db.x;\ninsert into db.w select * from db.y"),
]


def part_repeat_shared_provider(chk):
    """"identical ... in every repetition": the same script analysed again with the SAME provider object, with another script
    analysed in between, gives the same answer (seeded change C11-4: a lookup cache on the provider that outlives the session)"""
    import warnings
    from sqllineage.runner import LineageRunner
    from sqllineage.core.metadata.dummy import DummyMetaDataProvider

    def view(sql, d, prov):
        with warnings.catch_warnings():
            warnings.simplefilter("ignore")
            lr = LineageRunner(sql, dialect=d, metadata_provider=prov)
            return {"source": [str(t) for t in lr.source_tables], "target": [str(t) for t in lr.target_tables],
                    "paths": sorted([str(c) for c in p] for p in lr.get_column_lineage())}
    n = 0
    for md, b, a in REPEAT_FAMILIES:
        for d in ("ansi", "non-validating"):
            prov = DummyMetaDataProvider(dict(md))
            try:
                first = view(b, d, prov)
                view(a, d, prov)
                again = view(b, d, prov)
                fresh = view(b, d, DummyMetaDataProvider(dict(md)))
            except Exception as e:  # noqa
                chk.stale.append({"kind": "repeat-shared-provider", "error": type(e).__name__, "sql": b, "dialect": d})
                continue
            n += 1
            chk.count("repeat:" + canon_json([b, a, d]), bool(first["paths"]))
            if not (first == again == fresh):
                chk.violation("the same script gives a different answer when repeated on the same provider after another script",
                              {"kind": "repeat-shared-provider", "metadata": md, "sql": b, "between": a, "dialect": d,
                               "first": first, "again": again, "fresh": fresh})
                return n
    return n


def run(chk):
    drv = Driver() if chk.lean.driver_ok else None
    chk.coverage["repeat_shared_provider_runs"] = part_repeat_shared_provider(chk)
    if drv is None:
        chk.stale.append({"kind": "driver", "why": "model driver does not build"})
    seeds = seeds_for(chk)
    workdir = tempfile.mkdtemp(prefix="c11-")
    stats = {}
    t0 = time.time()
    try:
        inputs, hstats = build_inputs(chk, drv)
        stats["harvest"] = hstats
        kinds = {}
        for x in inputs:
            kinds[x["kind"]] = kinds.get(x["kind"], 0) + 1
        stats["inputs"] = kinds
        log(f"[c11] {len(inputs)} inputs {kinds}; seeds {seeds}; {n_procs()} processes")
        # accessor purity first, on a few small inputs with metadata: if accessor calls re-evaluate the script, the dump of every
        # input costs one analysis per accessor and the sweep cannot finish in its budget - the violation is reported without it
        pre = [x for x in inputs if x["kind"] == "targeted" and x["case"].get("metadata") and x["tag"].startswith("star/mdtable")][:6]
        if run_orders(chk, pre, [list(W.DUMP_ORDER), list(reversed(W.DUMP_ORDER))], workdir, stats, "pre") and chk.violations:
            stats["sweep"] = "skipped: accessor calls evaluate the script again (reported as a violation)"
            log("[c11] accessor calls re-evaluate the script: hash-seed sweep skipped")
            chk.coverage.update({"hash_seeds": seeds, "distribution": stats, "exhaustive": False})
            return finish(chk)
        replay_findings(chk, workdir, stats)
        cases = [x["case"] for x in inputs]
        res = sweep(cases, seeds, workdir, "sw", 1700 if chk.tier == "thorough" else 600)
        log(f"[c11] sweep done {time.time() - t0:.0f}s")
        cl = Classifier(chk, drv)
        listed = sorted(e["id"] for e in chk.findings if e.get("status") == "finding")
        shrunk = {}
        pending = []
        n_diff = 0
        raw_order = 0
        for inp in inputs:
            i = inp["id"]
            groups = {}
            for s in seeds:
                groups.setdefault(canon_json(strip(res[s][i])), []).append(s)
            d0 = res[seeds[0]][i]
            failed = "failed" in d0
            nontrivial = not failed and bool(d0.get("source") or d0.get("target") or d0.get("col_default"))
            chk.count(canon_json(inp["case"]), nontrivial, n=len(seeds))
            cl.bump("rejected" if failed and d0["failed"].get("rejected") else ("raises" if failed else "analysed"))
            if len({(res[s][i].get("_meta") or {}).get("raw_export") for s in seeds}) > 1:
                raw_order += 1
            if len(groups) == 1:
                continue
            n_diff += 1
            reps = sorted(v[0] for v in groups.values())
            a, b = reps[0], reps[1]
            fid, why = cl.classify(inp, res[a][i], res[b][i])
            cl.bump(f"differs/{fid or 'unclassified'}")
            if fid is not None and fid in listed:
                chk.known(fid)
                continue
            pending.append((len(inp["case"]["sql"]), i, inp, a, b, fid, why, groups))
        # report the smallest input of each kind of difference
        for _, i, inp, a, b, fid, why, groups in sorted(pending, key=lambda t: t[:2]):
            sig = fid or re.sub(r"\[.*", "", why)
            if sig in shrunk or len(shrunk) >= 5:
                continue
            keys = diff_keys(res[a][i], res[b][i])
            try:
                small, ast = shrink_input(drv, inp, a, b, keys)
            except Infra:
                small, ast = inp["case"], inp.get("ast")
            shrunk[sig] = True
            rec = {"kind": "seed-diff", "sql": small["sql"], "dialect": small.get("dialect", "ansi"), "metadata": small.get("metadata"),
                   "config": small.get("config"), "env": small.get("env"), "seeds": [a, b], "differing_accessors": keys,
                   "class": fid, "seed_groups": sorted(groups.values()), "origin": inp["tag"]}
            if ast is not None:
                rec["ast"] = ast
            what = (f"the same script gives different answers under PYTHONHASHSEED={a} and ={b}: {why}"
                    + (f" (class {fid}, not listed as a finding)" if fid else ""))
            chk.violation(what, rec)
        stats["inputs_differing_across_seeds"] = n_diff
        stats["export_element_order_differs_across_seeds"] = raw_order
        # correspondence with the model on generated inputs (seed-independent answers)
        if drv is not None:
            corr = correspondence(chk, drv, inputs, res, seeds, cl)
            stats["model"] = corr
        check_orders(chk, inputs, res[seeds[0]], workdir, stats)
        for inp in inputs[:: max(1, len(inputs) // 5)][:5]:
            chk.sample({"kind": inp["kind"], "tag": inp["tag"], "sql": inp["case"]["sql"][:300], "dialect": inp["case"].get("dialect"),
                        "metadata": inp["case"].get("metadata"), "seeds": seeds})
        stats["classification"] = cl.stats
    finally:
        shutil.rmtree(workdir, ignore_errors=True)
    chk.coverage.update({"hash_seeds": seeds, "distribution": stats, "exhaustive": False})
    return finish(chk)


def finish(chk):
    try:
        import resource
        ru = resource.getrusage(resource.RUSAGE_CHILDREN)
        chk.coverage["cpu_s_of_worker_processes"] = round(ru.ru_utime + ru.ru_stime, 1)     # wall time depends on the machine's load
    except Exception:
        pass
    if chk.tier == "thorough" and chk.lean is not None and chk.lean.build_ok:
        ok, out = leanchecker(["SqlLineage.Props.C11", "SqlLineage.Proofs.PermLemmas", "SqlLineage.Model.Lazy", "SqlLineage.Model.FoldOrd"])
        chk.coverage["leanchecker"] = "accepted" if ok else "REJECTED: " + out[-300:]
        if not ok:
            chk.lean.forbidden.append("leanchecker rejected SqlLineage.Props.C11: " + out[-300:])
    chk.assumptions += [
        "CPython: the iteration order of a set of str-hashed objects is a function of PYTHONHASHSEED (modelled as an arbitrary permutation)",
        "the element ORDER of the list `to_cytoscape` returns and its positional edge ids `e<i>` are not compared: they follow networkx "
        "subgraph-view iteration, which is hash ordered for almost every multi-table statement (counted in "
        "distribution.export_element_order_differs_across_seeds); the export is compared as the set of its nodes (all attributes) and edges",
        "the order that generated `subquery_<hash>` names induce in sorted results is covered by the property's exemption of those names",
        "sqlfluff / sqlparse parsing is assumed deterministic and is exercised, not modelled",
    ]
    return chk.finish(
        level="proof",
        rule="corpus (every statically evaluable LineageRunner input of the repository's tests with its dialects, both analysers, metadata "
             "and environment; TPC-DS) + seeded generated statements (half star-heavy) + generated 2-4 statement scripts (half with a dict "
             "metadata provider; DROP/RENAME mixed in) + targeted shapes per order-sensitive site; each evaluated once per hash seed in a "
             "fresh subprocess; evaluations = inputs x seeds (+ accessor-call sequences); non-trivial = analysis succeeds and reports at "
             "least one table or column path; distinct by (SQL text, dialect, metadata, configuration)",
        trusted_base=["Lean 4.33 kernel", "axioms: propext, Classical.choice, Quot.sound", "harness/c11.py + c11_worker.py + corpus11.py",
                      "CPython set iteration order determined by PYTHONHASHSEED"])


def correspondence(chk, drv, inputs, res, seeds, cl):
    """generated inputs: every seed's answer is one of the model's outcomes"""
    out = {"compared": 0, "agree": 0, "skipped_item_subquery": 0, "skipped_rejected": 0, "skipped_multi_rename": 0,
           "skipped_sqlparse_analyzer": 0, "order_sensitive_in_model": 0, "equal_to_model_order_0": 0, "disagree_established": 0, "disagree_other": 0}
    gen = [x for x in inputs if "ast" in x]
    d16_open = chk.finding("D16") is not None
    out["requirement"] = "member of the model's outcome set over iteration orders" if d16_open else "equal to the model's order 0"
    reqs = []
    for x in gen:
        for k in (0, 1):
            r = {"cmd": "sql", "stmts": x["ast"], "rev_star": k}
            if x.get("metadata"):
                r["metadata"] = x["metadata"]
            reqs.append(r)
    ans = drv.ask(reqs)
    examples = []
    for gi, x in enumerate(gen):
        views = []
        for s in seeds:
            v = impl_view(res[s][x["id"]])
            if v not in views:
                views.append(v)
        if any(v.get("rejected") for v in views):
            out["skipped_rejected"] += 1
            continue
        if gensql.item_has_subq(x["ast"]):
            out["skipped_item_subquery"] += 1
            continue
        if x["case"]["dialect"] == "non-validating":
            out["skipped_sqlparse_analyzer"] += 1      # the model is a model of the sqlfluff extractors
            continue
        if max((res[s][x["id"]].get("_meta") or {}).get("rename_pairs", 0) for s in seeds) > 1:
            # since the repair of D10 the pairs are applied in statement order: an ordinary case (counted for the record)
            out["multi_rename_compared"] = out.get("multi_rename_compared", 0) + 1
        outs = []
        for a in ans[2 * gi: 2 * gi + 2]:
            o = a.get("out") or {}
            m = {"error": o["error"].split(":")[0]} if "error" in o else {"tables": sqlcheck.tables_of(o["result"]), "paths": sorted(o["result"]["paths"])}
            if m not in outs:
                outs.append(m)
        if len(outs) > 1:
            out["order_sensitive_in_model"] += 1
        out["compared"] += 1
        # the repaired code (D16) iterates the alias mapping in dict order = the model's order 0
        if len(views) == 1 and (views[0] == outs[0] or ("error" in views[0] and "error" in outs[0])):
            out["equal_to_model_order_0"] += 1
        if d16_open:
            ok = all(in_model_outcomes(v, outs) for v in views)
            if not ok:
                more = model_outcomes(drv, x, 24) or outs
                ok = all(in_model_outcomes(v, more) for v in views)
        else:
            # D16 repaired: the code iterates the alias mapping in dict order = the model's order 0; every seed must give exactly that
            ok = all(v == outs[0] or ("error" in v and "error" in outs[0]) for v in views)
        if ok:
            out["agree"] += 1
            continue
        established = x["kind"] == "gen-stmt" and not x.get("metadata")
        out["disagree_established" if established else "disagree_other"] += 1
        if len(examples) < 3:
            examples.append({"sql": x["case"]["sql"][:400], "dialect": x["case"]["dialect"], "metadata": x.get("metadata"),
                             "impl": views[0], "model": outs[0]})
        if established and len(views) == 1:
            # seed-independent answer that is not the model's on the fragment where C02 establishes agreement
            chk.stale.append({"kind": "sql-model", "sql": x["case"]["sql"], "dialect": x["case"]["dialect"], "impl": views[0], "model": outs[0]})
    if examples:
        out["disagreement_examples"] = examples
    return out


def replay(chk, obj):
    r = obj["replay"]
    if r.get("kind") == "repeat-shared-provider":
        n0 = len(chk.violations)
        part_repeat_shared_provider(chk)
        return 1 if len(chk.violations) > n0 else 0
    if r.get("kind") == "seed-diff":
        case = {k: r[k] for k in ("sql", "dialect", "metadata", "config", "env") if r.get(k) is not None}
        a, b = r["seeds"]
        wd = tempfile.mkdtemp(prefix="c11-replay-")
        try:
            res = sweep([case], [a, b], wd, "rp", 600)
        finally:
            shutil.rmtree(wd, ignore_errors=True)
        keys = diff_keys(res[a][0], res[b][0])
        print(json.dumps({"sql": case["sql"], "dialect": case.get("dialect"), "metadata": case.get("metadata"), "seeds": [a, b],
                          "differing_accessors": keys,
                          "under_seed_a": {k: strip(res[a][0]).get(k) for k in keys[:3]},
                          "under_seed_b": {k: strip(res[b][0]).get(k) for k in keys[:3]}}, indent=1)[:4000])
        return 1 if keys else 0
    if r.get("kind") == "accessor-order":
        case = dict(r["case"])
        calls = r["calls"]
        case["orders"] = [[calls[-1]], calls]
        wd = tempfile.mkdtemp(prefix="c11-replay-")
        try:
            bp, op = os.path.join(wd, "b.json"), os.path.join(wd, "o.json")
            with open(bp, "w") as f:
                json.dump([case], f)
            run_batches([(0, bp, op)], 600)
            with open(op) as f:
                res = json.load(f)["dumps"][0]
        finally:
            shutil.rmtree(wd, ignore_errors=True)
        fresh = res["fresh"][0]["answers"][0][1]
        seq = res["fresh"][1]["answers"]
        after = seq[-1][1]
        mut = res.get("mutating")
        differs = fresh != after or res["fresh"][1]["evals"] > 1
        if mut is not None:
            first = dict((k, v) for k, v in mut[0])
            differs = differs or any(n in first and first[n] != a for n, a in mut[1])
        print(json.dumps({"accessor": calls[-1], "calls_before": calls[:-1], "fresh_answer": fresh, "answer_after_calls": after,
                          "evaluations": res["fresh"][1]["evals"]}, indent=1, default=str)[:3000])
        return 1 if differs else 0
    print("replay file names no concrete input:", json.dumps(r)[:600])
    return 1
