"""C11 worker: evaluates (sql, dialect, metadata, config) cases with the REAL LineageRunner in THIS process (whose string-hash seed
was chosen by the parent through PYTHONHASHSEED) and prints one canonical dump of ALL public accessors per case.

  c11_worker.py <batch.json> <out.json>      batch mode (a JSON list of cases in, a JSON list of dumps out)
  c11_worker.py --serve                      line mode (one case per stdin line, one dump per stdout line) - used for shrinking

The dump keeps every order the public API itself promises (the three table lists, the list `get_column_lineage` returns, the
`parent_candidates` lists of the column export) and sorts only what is a collection without promised order (the element list of
`to_cytoscape`: nodes and (source, target) pairs; the positional edge ids `e<i>` are dropped).  Anonymous subquery names
`subquery_<hash>` are masked (the property exempts them).  Keys starting with `_` are diagnostics, not part of the comparison.
"""
import contextlib
import hashlib
import io
import json
import os
import re
import sys
import warnings

import common  # noqa: F401   puts VERIF_REPO (default /repo) first on sys.path

_SUBQ = re.compile(r"subquery_-?\d+")
FLAGS = [(True, False), (True, True), (False, False), (False, True)]     # (exclude_path_ending_in_subquery, exclude_subquery_columns)


def mask(s):
    return _SUBQ.sub("subquery_?", s)


def _cj(o):
    return json.dumps(o, sort_keys=True, separators=(",", ":"), default=str)


def canon_cyto(elems):
    nodes, edges = [], []
    for e in elems:
        d = e["data"]
        if "source" in d:
            edges.append([mask(d["source"]), mask(d["target"])])
        else:
            dd = {}
            for k, v in d.items():
                if k == "parent_candidates":
                    dd[k] = [[mask(str(p.get("name"))), p.get("type")] for p in v]     # order as returned (sorted by the code)
                else:
                    dd[k] = mask(str(v))
            nodes.append(_cj(dd))
    return {"nodes": sorted(nodes), "edges": sorted(edges)}


def _paths(ps):
    """paths in the order the API returned them.  The API sorts by printed names; when generated `subquery_<hash>` names
    take part, the order they induce is part of what the property exempts, so such a list is put in the order of the MASKED names"""
    out = [[mask(str(c)) for c in p] for p in ps]
    if any("subquery_?" in c for p in out for c in p):
        out.sort()
    return out


def _level_column():
    from sqllineage.utils.constant import LineageLevel
    return LineageLevel.COLUMN


# name -> function of a runner; every PUBLIC result accessor of LineageRunner (draw() starts a web server and is not a result)
ACCESSORS = {
    "source": lambda lr: [mask(str(t)) for t in lr.source_tables],
    "target": lambda lr: [mask(str(t)) for t in lr.target_tables],
    "intermediate": lambda lr: [mask(str(t)) for t in lr.intermediate_tables],
    "col_default": lambda lr: _paths(lr.get_column_lineage()),
    "col_TF": lambda lr: _paths(lr.get_column_lineage(True, False)),
    "col_TT": lambda lr: _paths(lr.get_column_lineage(True, True)),
    "col_FF": lambda lr: _paths(lr.get_column_lineage(False, False)),
    "col_FT": lambda lr: _paths(lr.get_column_lineage(False, True)),
    "col_kw": lambda lr: _paths(lr.get_column_lineage(exclude_subquery_columns=True)),
    "cyto_table": lambda lr: canon_cyto(lr.to_cytoscape()),
    "cyto_column": lambda lr: canon_cyto(lr.to_cytoscape(_level_column())),
    "str": lambda lr: mask(str(lr)),
    "statements": lambda lr: list(lr.statements()),
    "print_table": lambda lr: _printed(lr.print_table_lineage),
    "print_column": lambda lr: _printed(lr.print_column_lineage),
}
DUMP_ORDER = ["source", "target", "intermediate", "col_default", "col_TF", "col_TT", "col_FF", "col_FT", "col_kw", "cyto_table",
              "cyto_column", "str", "statements", "print_table", "print_column"]


def _printed(f):
    buf = io.StringIO()
    with contextlib.redirect_stdout(buf):
        f()
    out = mask(buf.getvalue())
    if "subquery_?" in out:
        out = "\n".join(sorted(out.split("\n")))
    return out


def classify_exception(e):
    from sqllineage import exceptions as X
    import traceback
    if isinstance(e, X.InvalidSyntaxException):
        return {"rejected": True}
    for cls, name in ((X.UnsupportedStatementException, "unsupported"), (X.ConfigException, "config"),
                      (X.MetaDataProviderException, "provider"), (X.SQLLineageException, "lineage")):
        if isinstance(e, cls):
            return {"error": name}
    site = None
    for fr in reversed(traceback.extract_tb(e.__traceback__)):
        fn = fr.filename.replace("\\", "/")
        if "/sqllineage/" in fn or "/sqlfluff/" in fn or "/networkx/" in fn or "/sqlparse/" in fn:
            site = f"{os.path.basename(fn)}:{fr.name}"
            break
    return {"error": "internal", "etype": type(e).__name__, "site": site}


@contextlib.contextmanager
def configured(case):
    """the case's configuration: environment variables (as the test-suite patches them) and/or a config scope"""
    from sqllineage.config import SQLLineageConfig
    env = case.get("env") or {}
    old = {k: os.environ.get(k) for k in env}
    os.environ.update(env)
    try:
        cfg = dict(case.get("config") or {})
        if case.get("default_schema"):
            cfg["DEFAULT_SCHEMA"] = case["default_schema"]
        if cfg:
            with SQLLineageConfig(**cfg):
                yield
        else:
            yield
    finally:
        for k, v in old.items():
            if v is None:
                os.environ.pop(k, None)
            else:
                os.environ[k] = v


def make_runner(case, provider=None):
    from sqllineage.runner import LineageRunner
    from sqllineage.core.metadata.dummy import DummyMetaDataProvider
    kw = {}
    if provider is not None:
        kw["metadata_provider"] = provider
    elif case.get("metadata") is not None:
        kw["metadata_provider"] = DummyMetaDataProvider(case["metadata"])
    if case.get("silent"):
        kw["silent_mode"] = True
    sql = case["sql"]
    if isinstance(sql, list):
        sql = ";\n".join(sql)
    return LineageRunner(sql, dialect=case.get("dialect", "ansi"), verbose=True, **kw)


def call_accessors(lr, order):
    """answers of the accessors called in `order` on ONE runner: list of (name, canonical answer | exception class)"""
    out = []
    for name in order:
        try:
            out.append((name, ACCESSORS[name](lr)))
        except BaseException as e:   # noqa
            if isinstance(e, (KeyboardInterrupt, SystemExit)):
                raise
            out.append((name, classify_exception(e)))
    return out


def dump_case(case):
    """canonical dump of all public accessors of a fresh runner (accessors called in DUMP_ORDER)"""
    with warnings.catch_warnings():
        warnings.simplefilter("ignore")
        with configured(case):
            lr = make_runner(case)
            ans = call_accessors(lr, DUMP_ORDER)
            d = dict(ans)
            first = ans[0][1]
            if isinstance(first, dict) and ("error" in first or "rejected" in first):
                # evaluation failed: every accessor re-raises; keep one record
                d = {"failed": first} if all(v == first for _, v in ans) else d
            # diagnostics (not compared): raw element order of the exports, rename-set sizes per statement holder
            meta = {}
            try:
                meta["rename_pairs"] = max([len(h.rename) for h in getattr(lr, "_stmt_holders", [])] or [0])
                meta["writes"] = max([len(h.write) for h in getattr(lr, "_stmt_holders", [])] or [0])
            except Exception:
                pass
            try:
                from sqllineage.core.models import Column, SubQuery
                names = {}
                for n in lr._sql_holder.graph.nodes:
                    if isinstance(n, Column):
                        for p in n._parent:
                            if isinstance(p, SubQuery):
                                names.setdefault(p, set()).add(mask(str(p)))
                # subquery texts that own columns under more than one alias (class predicate of D27), a count
                meta["multi_alias_owners"] = sum(1 for v in names.values() if len(v) > 1)
            except BaseException:   # noqa
                pass
            try:
                raw = [lr.to_cytoscape(), lr.to_cytoscape(_level_column())]
                meta["raw_export"] = hashlib.sha1(mask(_cj(raw)).encode()).hexdigest()[:12]
            except BaseException:   # noqa
                pass
            d["_meta"] = meta
            return d


def mutating_provider(md):
    """a dict provider whose answers change from one evaluation (session) to the next: every `session()` starts a new epoch and
    every table gains a column named after the epoch.  Within one evaluation its answers are constant."""
    from sqllineage.core.metadata.dummy import DummyMetaDataProvider

    class Mutating(DummyMetaDataProvider):
        def __init__(self, metadata):
            super().__init__(metadata)
            self.epoch = 0

        def session(self):
            self.epoch += 1
            return super().session()

        def _get_table_columns(self, schema, table, **kwargs):
            cols = super()._get_table_columns(schema, table, **kwargs)
            return list(cols) + [f"epoch{self.epoch}"] if cols else cols

    return Mutating(md)


def orders_case(case, orders):
    """accessor-order part: answers of the accessors called in each of `orders` on FRESH runners; then on ONE runner the first
    order, the last order and the first again; with metadata also on one runner backed by a provider that changes between
    evaluations.  `_eval` is counted by a wrapper placed on the class from here (no change to the repository)."""
    from sqllineage.runner import LineageRunner
    orig = LineageRunner._eval

    def counted(self):
        self.__dict__["_c11_evals"] = self.__dict__.get("_c11_evals", 0) + 1      # on the instance: ids are reused
        return orig(self)

    def evals(lr):
        return lr.__dict__.get("_c11_evals", 0)

    LineageRunner._eval = counted
    try:
        with warnings.catch_warnings():
            warnings.simplefilter("ignore")
            with configured(case):
                # the reference: every accessor as the ONLY call on a runner of its own
                single = {}
                for name in DUMP_ORDER:
                    single[name] = call_accessors(make_runner(case), [name])[0][1]
                fresh = []
                for o in orders:
                    lr = make_runner(case)
                    fresh.append({"answers": call_accessors(lr, o), "evals": evals(lr)})
                lr = make_runner(case)
                same = [call_accessors(lr, orders[0]), call_accessors(lr, orders[-1]), call_accessors(lr, orders[0])]
                out = {"single": single, "fresh": fresh, "same": same, "same_evals": evals(lr)}
                if case.get("metadata"):
                    lr = make_runner(case, provider=mutating_provider(case["metadata"]))
                    out["mutating"] = [call_accessors(lr, orders[0]), call_accessors(lr, orders[-1])]
                    out["mutating_evals"] = evals(lr)
                return out
    finally:
        LineageRunner._eval = orig


def main(argv):
    if argv and argv[0] == "--serve":
        for line in sys.stdin:
            line = line.strip()
            if not line:
                continue
            sys.stdout.write(_cj(dump_case(json.loads(line))) + "\n")
            sys.stdout.flush()
        return 0
    with open(argv[0], encoding="utf-8") as f:
        cases = json.load(f)
    out = [orders_case(c, c["orders"]) if "orders" in c else dump_case(c) for c in cases]
    with open(argv[1], "w", encoding="utf-8") as f:
        json.dump({"hashseed": os.environ.get("PYTHONHASHSEED"), "dumps": out}, f)
    return 0


if __name__ == "__main__":
    sys.exit(main(sys.argv[1:]))
