"""C09 — core-SQL statements written as TEXT (constructs the typed AST of `Model/Ast.lean` does not have: NATURAL / OUTER / parenthesised
joins, UPDATE in its spellings, MERGE, DELETE, INSERT ... VALUES, CREATE TABLE LIKE, window frames, set operations with ORDER BY ...).

Every text runs under EVERY installed sqlfluff dialect and under the legacy analyzer, in both tiers.  Oracle (implementation vs
implementation, no model): all analyzers that accept a text report the same tables, all sqlfluff dialects the same end-to-end column
pairs.  The reference is the answer under ansi when ansi accepts the text, otherwise the most frequent answer.  A disagreement is
identified by (text id, analyzer, "tables" | "columns"); the ones the unchanged tree shows are listed in known_findings.json (property
C09, witness kind "text-family"), any other one is a VIOLATION with (text, analyzer, reference) as replay.
"""
import collections

LEGACY = "non-validating"

TEXTS = [
    # ---- joins
    ("join-inner", "insert into tgt select x.a, y.b from t1 x inner join t2 y on x.k = y.k"),
    ("join-left-outer", "insert into tgt select x.a, y.b from t1 x left outer join t2 y on x.k = y.k"),
    ("join-right", "insert into tgt select x.a, y.b from t1 x right join t2 y on x.k = y.k"),
    ("join-full-outer", "insert into tgt select x.a, y.b from t1 x full outer join t2 y on x.k = y.k"),
    ("join-cross", "insert into tgt select x.a, y.b from t1 x cross join t2 y"),
    ("join-natural", "insert into tgt select x.a, y.b from t1 x natural join t2 y"),
    ("join-natural-left", "insert into tgt select x.a from t1 x natural left join t2 y"),
    ("join-paren", "insert into tgt select x.a, y.b from (t1 x join t2 y on x.k = y.k)"),
    ("join-paren-nested", "insert into tgt select x.a, z.c from (t1 x join t2 y on x.k = y.k) join t3 z on z.k = x.k"),
    ("join-three", "insert into tgt select x.a, y.b, z.c from t1 x join t2 y on x.k = y.k left join t3 z on z.k = y.k"),
    ("join-using", "insert into tgt select x.a, y.b from t1 x join t2 y using (k)"),
    ("join-comma", "insert into tgt select x.a, y.b from t1 x, t2 y where x.k = y.k"),
    ("join-derived", "insert into tgt select x.a, q.b from t1 x join (select b, k from t2) q on x.k = q.k"),
    ("join-self", "insert into tgt select l.a, r.a as ra from t1 l join t1 r on l.k = r.p"),
    # ---- select shapes
    ("select-distinct", "insert into tgt select distinct a, b from t1"),
    ("select-group", "insert into tgt select a, sum(b) as sb from t1 group by a having sum(b) > 1"),
    ("select-order-limit", "insert into tgt select a, b from t1 order by a"),
    ("select-case", "insert into tgt select case when a > 1 then b else c end as f from t1"),
    ("select-cast", "insert into tgt select cast(a as int) as f, b from t1"),
    ("select-arith", "insert into tgt select a + b * 2 as f, c from t1"),
    ("select-window", "insert into tgt select a, row_number() over (partition by b order by c) as rn from t1"),
    ("select-window-frame", "insert into tgt select sum(a) over (partition by b order by c rows between 1 preceding and current row) as f from t1"),
    ("select-in-list", "insert into tgt select a from t1 where b in (1, 2, 3)"),
    ("select-between", "insert into tgt select a from t1 where b between 1 and 2 and c is not null"),
    ("select-like", "insert into tgt select a from t1 where b like 'x' or not c = 1"),
    ("select-exists", "insert into tgt select a from t1 where exists (select 1 from t2 where t2.k = t1.k)"),
    ("select-in-subq", "insert into tgt select a from t1 where k in (select k from t2)"),
    ("select-scalar-cmp", "insert into tgt select a from t1 where b > (select max(b) from t2)"),
    ("select-star", "insert into tgt select * from t1"),
    ("select-qual-star", "insert into tgt select x.* from t1 x join t2 y on x.k = y.k"),
    ("select-coalesce", "insert into tgt select coalesce(a, b, 0) as f from t1"),
    ("select-nested-fn", "insert into tgt select max(coalesce(a, b)) as f from t1"),
    ("select-schema", "insert into s1.tgt select x.a from s2.t1 x join s3.t2 y on x.k = y.k"),
    ("select-derived-2", "insert into tgt select q.a from (select p.a from (select a from t1) p) q"),
    # ---- set operations / CTE
    ("union", "insert into tgt select a from t1 union select a from t2"),
    ("union-all-3", "insert into tgt select a from t1 union all select b from t2 union all select c from t3"),
    ("intersect", "insert into tgt select a from t1 intersect select a from t2"),
    ("except", "insert into tgt select a from t1 except select a from t2"),
    ("union-paren", "insert into tgt (select a from t1) union (select a from t2)"),
    ("cte", "insert into tgt with c as (select a, k from t1) select c.a from c join t2 on c.k = t2.k"),
    ("cte-two", "insert into tgt with c as (select a from t1), d as (select a from c) select a from d"),
    ("cte-before-insert", "with c as (select a from t1) insert into tgt select a from c"),
    ("cte-union", "insert into tgt with c as (select a from t1 union all select a from t2) select a from c"),
    # ---- statement kinds
    ("ctas", "create table tgt as select a, b from t1"),
    ("ctas-paren", "create table tgt as (select a, b from t1)"),
    ("view", "create view tgt as select a, b from t1"),
    ("view-cols", "create view tgt (x, y) as select a, b from t1"),
    ("insert-cols", "insert into tgt (x, y) select a, b from t1"),
    ("insert-values", "insert into tgt values (1, 2)"),
    ("insert-values-cols", "insert into tgt (x, y) values (1, 2)"),
    ("insert-paren-query", "insert into tgt (select a from t1)"),
    ("create-table", "create table tgt (x int, y int)"),
    ("create-like", "create table tgt like t1"),
    ("select-only", "select a, b from t1 x join t2 y on x.k = y.k"),
    ("drop", "drop table t1"),
    ("drop-if-exists", "drop table if exists t1"),
    ("alter-rename", "alter table t1 rename to t2"),
    ("delete", "delete from t1 where a = 1"),
    ("truncate", "truncate table t1"),
    # ---- UPDATE / MERGE
    ("update-plain", "update tgt set a = 1 where b = 2"),
    ("update-alias", "update tgt x set a = 1 where x.b = 2"),
    ("update-as-alias", "update tgt as x set a = 1"),
    ("update-subq", "update tgt set a = 1 where b in (select b from t1)"),
    ("update-from", "update tgt set a = y.a from t1 y where tgt.k = y.k"),
    ("update-join", "update tgt x join t1 y on x.k = y.k set x.a = y.a"),
    ("merge", "merge into tgt x using t1 y on x.k = y.k when matched then update set a = y.a when not matched then insert (k, a) values (y.k, y.a)"),
    ("merge-subq", "merge into tgt x using (select k, a from t1) y on x.k = y.k when matched then update set a = y.a"),
    ("merge-two-inserts", "merge into tgt x using t1 y on x.k = y.k when not matched and y.f = 1 then insert (a, b) values (y.p, y.q) "
                          "when not matched then insert (b, a) values (y.p, y.q)"),
    ("update-from-subq", "update tgt set a = q.b from (select b, k from t1) q where tgt.k = q.k"),
    ("update-from-subq-const", "update tgt set a = 1 from (select k from t1) q where tgt.k = q.k"),
    ("update-join-alias", "update tgt x join t1 y on x.k = y.k join t2 z on z.k = y.k set x.a = y.a"),
    ("update-comma", "update tgt x, t1 y set x.a = y.a where x.k = y.k"),
    ("cmp-two-subq", "insert into tgt select a from t1 where (select max(b) from t2) > (select min(b) from t3)"),
    ("case-two-subq", "insert into tgt select case when (select max(b) from t2) > (select min(b) from t3) then a end as f from t1"),
    ("copy-from", "copy tgt from '/tmp/f.csv'"),
    ("copy-from-local", "copy tgt from local '/tmp/f.csv'"),
    ("insert-overwrite", "insert overwrite table tgt select a from t1"),
    ("from-alias-cols", "insert into tgt select s.k from t1 as s (k, v)"),
    ("merge-self-ref", "merge into tgt x using t1 y on x.k = y.k when matched then update set x.p = x.q"),
]

# what the property's reading of core SQL says the TABLES are (source, target), for the texts C01 also runs under every dialect
EXPECTED_TABLES = {
    "join-inner": (["t1", "t2"], ["tgt"]), "join-left-outer": (["t1", "t2"], ["tgt"]), "join-right": (["t1", "t2"], ["tgt"]),
    "join-full-outer": (["t1", "t2"], ["tgt"]), "join-cross": (["t1", "t2"], ["tgt"]), "join-natural": (["t1", "t2"], ["tgt"]),
    "join-natural-left": (["t1", "t2"], ["tgt"]), "join-paren": (["t1", "t2"], ["tgt"]), "join-paren-nested": (["t1", "t2", "t3"], ["tgt"]),
    "join-three": (["t1", "t2", "t3"], ["tgt"]), "join-using": (["t1", "t2"], ["tgt"]), "join-comma": (["t1", "t2"], ["tgt"]),
    "join-derived": (["t1", "t2"], ["tgt"]), "join-self": (["t1"], ["tgt"]),
    "select-exists": (["t1", "t2"], ["tgt"]), "select-in-subq": (["t1", "t2"], ["tgt"]), "select-scalar-cmp": (["t1", "t2"], ["tgt"]),
    "union": (["t1", "t2"], ["tgt"]), "union-all-3": (["t1", "t2", "t3"], ["tgt"]), "intersect": (["t1", "t2"], ["tgt"]),
    "except": (["t1", "t2"], ["tgt"]), "union-paren": (["t1", "t2"], ["tgt"]),
    "cte": (["t1", "t2"], ["tgt"]), "cte-two": (["t1"], ["tgt"]), "cte-before-insert": (["t1"], ["tgt"]), "cte-union": (["t1", "t2"], ["tgt"]),
    "ctas": (["t1"], ["tgt"]), "ctas-paren": (["t1"], ["tgt"]), "view": (["t1"], ["tgt"]), "view-cols": (["t1"], ["tgt"]),
    "insert-cols": (["t1"], ["tgt"]), "insert-values": ([], ["tgt"]), "insert-paren-query": (["t1"], ["tgt"]),
    "create-table": ([], ["tgt"]), "create-like": (["t1"], ["tgt"]),
    "update-plain": ([], ["tgt"]), "update-alias": ([], ["tgt"]), "update-as-alias": ([], ["tgt"]),
    "update-from": (["t1"], ["tgt"]), "update-join": (["t1"], ["tgt"]), "update-join-alias": (["t1", "t2"], ["tgt"]),
    "update-comma": (["t1"], ["tgt"]), "update-from-subq": (["t1"], ["tgt"]), "update-from-subq-const": (["t1"], ["tgt"]),
    "merge": (["t1"], ["tgt"]), "merge-subq": (["t1"], ["tgt"]), "merge-two-inserts": (["t1"], ["tgt"]), "merge-self-ref": (["t1"], ["tgt"]),
    "cmp-two-subq": (["t1", "t2", "t3"], ["tgt"]), "insert-overwrite": (["t1"], ["tgt"]), "from-alias-cols": (["t1"], ["tgt"]),
    "copy-from": (["/tmp/f.csv"], ["tgt"]), "copy-from-local": (["/tmp/f.csv"], ["tgt"]),
}


def outcome_of(r, tables_only):
    if "rejected" in r:
        return None
    if "result" in r:
        o = {"tables": {k: r["result"][k] for k in ("source", "target", "intermediate")}}
        if not tables_only and "paths" in r["result"]:
            o["pairs"] = sorted({(p[0], p[-1]) for p in map(tuple, r["result"]["paths"])})
        return o
    return {"error": r["error"]}


def evaluate(run_jobs, analyzers, texts=None):
    """-> (disagreements [(id, analyzer, what, reference analyzer, reference outcome, outcome)], stats)"""
    texts = TEXTS if texts is None else texts
    jobs = [(ti, d) for ti in range(len(texts)) for d in analyzers]
    res = run_jobs([{"sql": texts[ti][1], "dialect": d, "want": ("tables",) if d == LEGACY else ("tables", "columns")} for ti, d in jobs])
    by = collections.defaultdict(dict)
    for (ti, d), r in zip(jobs, res):
        by[ti][d] = outcome_of(r, d == LEGACY)
    dis, stats = [], collections.Counter()
    for ti, (tid, sql) in enumerate(texts):
        outs = {d: o for d, o in by[ti].items() if o is not None}
        stats["accepted"] += len(outs)
        stats["rejected"] += len(by[ti]) - len(outs)
        if len(outs) < 2:
            continue
        for what in ("tables", "pairs"):
            vals = {d: (o.get(what) if "error" not in o else {"error": o["error"]}) for d, o in outs.items()
                    if what == "tables" or d != LEGACY}
            if not vals:
                continue
            if "ansi" in vals:
                ref_d = "ansi"
            else:
                cnt = collections.Counter(repr(v) for v in vals.values())
                top = cnt.most_common(1)[0][0]
                ref_d = sorted(d for d, v in vals.items() if repr(v) == top)[0]
            ref = vals[ref_d]
            for d, v in sorted(vals.items()):
                stats["compared:" + what] += 1
                if v != ref:
                    dis.append((tid, d, "tables" if what == "tables" else "columns", ref_d, ref, v))
    return dis, dict(stats)
