"""Corpus for C14: the SQL scripts the repository's own test-suite analyses (harvested from <repo>/tests with `ast`, nothing is
imported or executed), and a CONSERVATIVE token-level rewriter that writes every unqualified base-table name as S.name.

The rewriter refuses (returns None, the caller counts the script as skipped) whenever it is not sure what an identifier in a
table position denotes.  It never guesses: a script it does rewrite has
  * every identifier that directly follows FROM / JOIN / INTO / UPDATE / TABLE / VIEW / LIKE / OVERWRITE (in a table position)
    and is not a CTE name of the script, not followed by `(` (table function) and not a keyword, prefixed with `S.`;
  * nothing else touched (aliases, column references, strings, comments stay as they are).
Comma-separated FROM lists, table functions, VALUES-only sources, vendor clauses the lexer does not know, quoted identifiers in
table positions and names that are also CTE names are refused.
"""
import ast
import os
import re

import common

TEST_HELPERS = {"assert_table_lineage_equal", "assert_column_lineage_equal", "assert_lr_graphs_match", "LineageRunner"}


def harvest(repo=None):
    """[(origin, sql, [dialect candidates])] — every string constant passed as the first argument (or `sql=`) to a test helper,
    or assigned to a local variable `sql` that is passed on; dialects from literal `dialect=` keywords and parametrize lists"""
    repo = repo or common.REPO
    out = []
    root = os.path.join(repo, "tests")
    for dp, _, files in sorted(os.walk(root)):
        for f in sorted(files):
            if not f.endswith(".py"):
                continue
            p = os.path.join(dp, f)
            try:
                tree = ast.parse(open(p, encoding="utf-8").read())
            except SyntaxError:
                continue
            for fn in ast.walk(tree):
                if not isinstance(fn, ast.FunctionDef):
                    continue
                dialects = []
                for dec in fn.decorator_list:
                    if isinstance(dec, ast.Call) and dec.args and isinstance(dec.args[0], ast.Constant) \
                            and dec.args[0].value == "dialect" and len(dec.args) > 1 and isinstance(dec.args[1], (ast.List, ast.Tuple)):
                        dialects += [e.value for e in dec.args[1].elts if isinstance(e, ast.Constant) and isinstance(e.value, str)]
                local_sql = {}
                for node in ast.walk(fn):
                    if isinstance(node, ast.Assign) and len(node.targets) == 1 and isinstance(node.targets[0], ast.Name) \
                            and isinstance(node.value, ast.Constant) and isinstance(node.value.value, str):
                        local_sql[node.targets[0].id] = node.value.value
                for node in ast.walk(fn):
                    if not isinstance(node, ast.Call):
                        continue
                    name = node.func.id if isinstance(node.func, ast.Name) else (node.func.attr if isinstance(node.func, ast.Attribute) else None)
                    if name not in TEST_HELPERS:
                        continue
                    arg = None
                    if node.args:
                        arg = node.args[0]
                    for kw in node.keywords:
                        if kw.arg == "sql":
                            arg = kw.value
                    sql = None
                    if isinstance(arg, ast.Constant) and isinstance(arg.value, str):
                        sql = arg.value
                    elif isinstance(arg, ast.Name) and arg.id in local_sql:
                        sql = local_sql[arg.id]
                    if not sql or not sql.strip():
                        continue
                    ds = list(dialects)
                    for kw in node.keywords:
                        if kw.arg == "dialect" and isinstance(kw.value, ast.Constant) and isinstance(kw.value.value, str):
                            ds.insert(0, kw.value.value)
                    out.append((f"{os.path.relpath(p, repo)}::{fn.name}", sql, ds))
    seen, uniq = set(), []
    for o, s, d in out:
        k = (s, tuple(d))
        if k not in seen:
            seen.add(k); uniq.append((o, s, d))
    return uniq


# ------------------------------------------------------------------------------------------------ lexer
_TOKEN = re.compile(r"""
    (?P<ws>\s+)
  | (?P<lc>--[^\n]*|\#[^\n]*)
  | (?P<bc>/\*.*?\*/)
  | (?P<str>'(?:[^']|'')*')
  | (?P<qid>"(?:[^"]|"")*"|`[^`]*`|\[[^\]]*\])
  | (?P<word>[A-Za-z_][A-Za-z0-9_$]*)
  | (?P<num>\d+(?:\.\d+)?)
  | (?P<op>::|<>|!=|>=|<=|\|\||[-+*/%=<>(),.;:@{}\[\]?!&|^~$\\])
""", re.X | re.S)


def lex(sql):
    toks, i = [], 0
    while i < len(sql):
        m = _TOKEN.match(sql, i)
        if not m:
            return None
        toks.append((m.lastgroup, m.group()))
        i = m.end()
    return toks


TABLE_KW = {"from", "join", "into", "update", "table", "view", "like", "overwrite"}
# words that may follow a table keyword without being a table name
NOT_A_NAME = {"select", "values", "set", "if", "not", "exists", "only", "lateral", "unnest", "table", "local", "directory", "inpath",
              "as", "on", "where", "group", "order", "with", "temporary", "temp", "external", "or", "replace", "view", "function",
              "partition", "using", "when", "then", "and", "the", "each", "outer", "inner", "left", "right", "full", "cross", "natural",
              "data", "stream", "current", "first", "last", "next", "prior", "into", "overwrite", "from", "join", "update", "like"}
REFUSE_WORDS = {"merge", "copy", "lateral", "unnest", "pivot", "unpivot", "tablesample", "flatten", "generator", "swap_partitions_between_tables",
                "clone", "stage", "inpath", "directory", "location", "declare", "begin", "call", "execute", "exec", "grant", "revoke", "use",
                "rename", "exchange", "refresh", "cache", "uncache", "analyze", "optimize", "vacuum", "delete", "truncate", "trim", "extract",
                "substring", "position", "overlay", "cast", "try_cast", "interval", "returning", "output", "top"}


def qualify_text(sql, S):
    """-> rewritten text, or None when the rewriter is not sure"""
    toks = lex(sql)
    if toks is None:
        return None
    code = [(i, k, t) for i, (k, t) in enumerate(toks) if k not in ("ws", "lc", "bc")]
    words = [t.lower() for _, k, t in code if k == "word"]
    if any(w in REFUSE_WORDS for w in words):
        return None
    if any(t in ("{", "}", "@", "$", "?", "\\", ":") for _, k, t in code if k == "op"):
        return None
    # CTE names: WITH [RECURSIVE] name [ (cols) ] [AS] (   and   , name [ (cols) ] AS (   and   , name ( SELECT
    ctes = set()
    for j, (i, k, t) in enumerate(code):
        if k != "word":
            continue
        prev = code[j - 1][2].lower() if j > 0 else ""
        nxt = code[j + 1][2].lower() if j + 1 < len(code) else ""
        nxt2 = code[j + 2][2].lower() if j + 2 < len(code) else ""
        if prev in ("with", "recursive") and (nxt == "(" or nxt == "as"):
            ctes.add(t.lower())
        elif prev == "," and nxt == "as" and nxt2 == "(":
            ctes.add(t.lower())
        elif prev == "," and nxt == "(" and nxt2 in ("select", "with"):
            ctes.add(t.lower())
    if "recursive" in words:
        return None
    edits = []   # token indices to prefix
    depth_from = []   # paren depth stack is not tracked: comma inside a FROM list is refused below
    j = 0
    n = len(code)
    while j < n:
        i, k, t = code[j]
        if k == "word" and t.lower() in TABLE_KW:
            kw = t.lower()
            # FROM inside a function call like extract(x from y) was refused above through REFUSE_WORDS
            if j + 1 >= n:
                return None
            i2, k2, t2 = code[j + 1]
            if kw in ("table", "view", "into", "overwrite", "like", "update") and k2 == "word" and t2.lower() in ("if", "table", "only", "or"):
                j += 1
                continue
            if kw == "like" and k2 != "word":
                j += 1   # a LIKE predicate
                continue
            if kw == "like":
                # `x LIKE pattern` vs `CREATE TABLE a LIKE b`: only the DDL form has the previous token a name preceded by TABLE
                prevs = [c[2].lower() for c in code[max(0, j - 4):j]]
                if "table" not in prevs:
                    j += 1
                    continue
            if t2 == "(":
                j += 1      # derived table / subquery / column list
                continue
            if k2 == "qid":
                return None
            if k2 != "word":
                return None
            w = t2.lower()
            if w in NOT_A_NAME:
                if w in ("select", "values", "if", "table", "only", "or", "exists", "not"):
                    j += 1
                    continue
                return None
            # the full dotted name
            e = j + 1
            parts = 1
            while e + 2 < n and code[e + 1][2] == "." and code[e + 2][1] in ("word", "qid"):
                e += 2; parts += 1
            after = code[e + 1][2] if e + 1 < n else ""
            if after == "(":
                return None      # table function
            if parts == 1:
                if w in ctes:
                    pass
                else:
                    edits.append(i2)
            # a comma right after the name (or after its alias) inside a FROM clause = SQL-89 list: refuse
            if kw in ("from", "join"):
                f = e + 1
                if f < n and code[f][1] == "word" and code[f][2].lower() == "as":
                    f += 1
                if f < n and code[f][1] == "word" and code[f][2].lower() not in NOT_A_NAME and code[f][2].lower() not in TABLE_KW \
                        and code[f][2].lower() not in ("union", "intersect", "except", "limit", "having", "window", "qualify"):
                    f += 1
                if f < n and code[f][2] == ",":
                    return None
            j = e + 1
            continue
        j += 1
    # a name that is both a CTE and, elsewhere, qualified by hand is fine; a CTE name used as a base table before its definition is not
    out = []
    es = set(edits)
    for i, (k, t) in enumerate(toks):
        out.append((S + "." + t) if i in es else t)
    return "".join(out)


def used_qualifiers(sql):
    toks = lex(sql) or []
    code = [(k, t) for k, t in toks if k not in ("ws", "lc", "bc")]
    qs = []
    for j in range(len(code) - 2):
        if code[j][0] == "word" and code[j + 1][1] == "." and code[j + 2][0] == "word":
            if j == 0 or code[j - 1][1] != ".":
                qs.append(code[j][1].lower())
    return qs


def text_item_has_subq(sql):
    """a `( select` opened inside a select list (between a SELECT and the FROM of the same nesting level): the shape whose source
    columns travel through `_get_column_from_subquery` (finding D45-subquery-schema-lost)"""
    toks = lex(sql)
    if toks is None:
        return True      # cannot tell: treat as possibly of that shape
    code = [(k, t) for k, t in toks if k not in ("ws", "lc", "bc")]
    depth = 0
    in_list = {0: False}
    for j, (k, t) in enumerate(code):
        if t == "(":
            if in_list.get(depth) and j + 1 < len(code) and code[j + 1][0] == "word" and code[j + 1][1].lower() == "select":
                return True
            depth += 1
            in_list[depth] = False
        elif t == ")":
            in_list.pop(depth, None)
            depth = max(0, depth - 1)
        elif k == "word":
            w = t.lower()
            if w == "select":
                in_list[depth] = True
            elif w == "from":
                in_list[depth] = False
            elif w in ("union", "intersect", "except") or t == ";":
                in_list[depth] = False
        elif t == ";":
            in_list[depth] = False
    return False
