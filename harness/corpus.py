"""Harvested corpus for C06 (and anyone else): every (sql, dialect, metadata) the repository's own test-suite passes to the
analyser, plus the bundled TPC-DS queries.  Harvested AT RUN TIME from `common.REPO` by reading the test sources with `ast`
(nothing is imported or executed from the tests, nothing is committed under corpus/):

  * calls `assert_table_lineage_equal(sql, …, dialect=…)`, `assert_column_lineage_equal(sql, …, dialect=…, metadata_provider=…)`,
    `LineageRunner(sql, dialect=…, metadata_provider=…)`; the sql / dialect arguments are resolved through string constants,
    local `sql = "…"` assignments and `@pytest.mark.parametrize` value lists (every combination);
    `metadata_provider=provider` resolves to the dict literal given to `generate_metadata_providers({...})` /
    `DummyMetaDataProvider({...})` in the same module;
  * the helpers run the sqlparse analyser (`non-validating`) next to the sqlfluff dialect unless `test_sqlparse=False` /
    `test_sqlfluff=False` — both are harvested;
  * fallback: any other string constant in a test file that starts with a data-moving SQL keyword (dialect of the enclosing
    parametrisation, else ansi);
  * `sqllineage/data/tpcds/*.sql` (dialect ansi).

`load_corpus()` -> list of dict(sql, dialect, metadata (dict | None), origin).  Duplicates (same sql, dialect, metadata) are dropped.
"""
import ast
import glob
import itertools
import json
import os

import common

SQLPARSE_DIALECT = "non-validating"
HELPERS = {"assert_table_lineage_equal", "assert_column_lineage_equal", "assert_lr_graphs_match"}
SQL_START = ("select", "insert", "create", "with", "update", "merge", "delete", "drop", "alter", "copy", "cache", "refresh", "rename",
             "truncate", "use", "analyze", "show", "declare", "(select", "(with", "from", "load", "msck", "optimize", "unload", "begin",
             "replace", "swap", "set", "grant", "explain", "describe", "vacuum")


def _lit(node, env):
    """value of an expression node: constant, local/param name, simple concatenation; raises KeyError/ValueError otherwise"""
    if isinstance(node, ast.Constant):
        return node.value
    if isinstance(node, ast.Name):
        if node.id in env:
            return env[node.id]
        raise KeyError(node.id)
    if isinstance(node, ast.BinOp) and isinstance(node.op, ast.Add):
        return _lit(node.left, env) + _lit(node.right, env)
    if isinstance(node, ast.JoinedStr):
        out = ""
        for v in node.values:
            if isinstance(v, ast.Constant):
                out += v.value
            elif isinstance(v, ast.FormattedValue) and v.format_spec is None and v.conversion == -1:
                out += str(_lit(v.value, env))
            else:
                raise ValueError("format")
        return out
    return ast.literal_eval(node)


def _parametrize(fn):
    """[(names tuple, [value tuple…])] from @pytest.mark.parametrize decorators with literal values"""
    out = []
    for d in fn.decorator_list:
        if not (isinstance(d, ast.Call) and isinstance(d.func, ast.Attribute) and d.func.attr == "parametrize" and len(d.args) >= 2):
            continue
        try:
            names = ast.literal_eval(d.args[0])
        except Exception:  # noqa
            continue
        if isinstance(names, str):
            names = tuple(n.strip() for n in names.split(","))
        else:
            names = tuple(names)
        try:
            vals = ast.literal_eval(d.args[1])
        except Exception:  # noqa
            if isinstance(d.args[1], ast.Name) and d.args[1].id == "providers" and len(names) == 1:
                out.append((names, [("<module-metadata>",)]))
            continue
        rows = []
        for v in vals:
            rows.append((v,) if len(names) == 1 else tuple(v))
        out.append((names, rows))
    return out


def _module_metadata(tree):
    """dict literals given to generate_metadata_providers(...) / DummyMetaDataProvider(...) at module level, by assigned name"""
    md = {}
    first = None
    for node in ast.walk(tree):
        if isinstance(node, ast.Call) and isinstance(node.func, ast.Name) and node.func.id in ("generate_metadata_providers", "DummyMetaDataProvider"):
            if node.args:
                try:
                    v = ast.literal_eval(node.args[0])
                except Exception:  # noqa
                    continue
                if isinstance(v, dict):
                    first = first or v
    for node in tree.body:
        if isinstance(node, ast.Assign) and isinstance(node.value, ast.Call) and isinstance(node.value.func, ast.Name) and \
                node.value.func.id in ("generate_metadata_providers", "DummyMetaDataProvider") and node.value.args:
            try:
                v = ast.literal_eval(node.value.args[0])
            except Exception:  # noqa
                continue
            for t in node.targets:
                if isinstance(t, ast.Name):
                    md[t.id] = v
    return md, first


def _looks_like_sql(s):
    if not isinstance(s, str) or len(s) < 12 or " " not in s.strip():
        return False
    head = s.strip().lower()
    if not head.startswith(SQL_START):
        return False
    w = head.split(None, 1)[0].strip("(")
    return w in {k.strip("(") for k in SQL_START} and len(head.split()) >= 3 and "\t%" not in head and "{" not in head[:3]


def _harvest_function(fn, module_md, default_md, origin, out):
    params = _parametrize(fn)
    combos = [dict()]
    for names, rows in params:
        combos = [dict(c, **dict(zip(names, r))) for c in combos for r in rows]
    if len(combos) > 400:
        combos = combos[:400]
    used_consts = set()
    for combo in combos:
        env = dict(combo)
        # local straight-line assignments of literals (in source order)
        for node in ast.walk(fn):
            if isinstance(node, ast.Assign) and len(node.targets) == 1 and isinstance(node.targets[0], ast.Name):
                try:
                    env[node.targets[0].id] = _lit(node.value, env)
                except Exception:  # noqa
                    pass
        for node in ast.walk(fn):
            if not isinstance(node, ast.Call):
                continue
            name = node.func.id if isinstance(node.func, ast.Name) else (node.func.attr if isinstance(node.func, ast.Attribute) else None)
            if name not in HELPERS and name != "LineageRunner":
                continue
            kw = {k.arg: k.value for k in node.keywords if k.arg}
            sql_node = node.args[0] if node.args else kw.get("sql")
            if sql_node is None:
                continue
            try:
                sql = _lit(sql_node, env)
            except Exception:  # noqa
                continue
            if not isinstance(sql, str) or not sql.strip():
                continue
            if isinstance(sql_node, ast.Constant):
                used_consts.add(id(sql_node))
            dialect = "ansi"
            dn = kw.get("dialect")
            if dn is None and name == "LineageRunner" and len(node.args) >= 2:
                dn = node.args[1]
            if dn is not None:
                try:
                    dialect = _lit(dn, env)
                except Exception:  # noqa
                    if isinstance(dn, ast.Name) and dn.id == "SQLPARSE_DIALECT":
                        dialect = SQLPARSE_DIALECT
                    else:
                        continue
            md = None
            mn = kw.get("metadata_provider")
            if mn is not None:
                if isinstance(mn, ast.Name):
                    v = env.get(mn.id)
                    md = default_md if v == "<module-metadata>" or v is None else None
                    if mn.id in module_md:
                        md = module_md[mn.id]
                elif isinstance(mn, ast.Call) and mn.args:
                    try:
                        md = ast.literal_eval(mn.args[0])
                    except Exception:  # noqa
                        md = default_md
            flags = {}
            for f in ("test_sqlfluff", "test_sqlparse"):
                try:
                    flags[f] = bool(_lit(kw[f], env)) if f in kw else True
                except Exception:  # noqa
                    flags[f] = True
            dialects = []
            if name in HELPERS:
                if flags["test_sqlfluff"]:
                    dialects.append(dialect)
                if flags["test_sqlparse"]:
                    dialects.append(SQLPARSE_DIALECT)
            else:
                dialects.append(dialect)
            for d in dialects:
                if isinstance(d, str):
                    out.append({"sql": sql, "dialect": d, "metadata": md, "origin": origin + "::" + fn.name})
    # fallback: remaining SQL-looking constants
    dial = sorted({c["dialect"] for c in combos if isinstance(c.get("dialect"), str)}) or ["ansi"]
    for node in ast.walk(fn):
        if isinstance(node, ast.Constant) and id(node) not in used_consts and _looks_like_sql(node.value):
            for d in dial:
                out.append({"sql": node.value, "dialect": d, "metadata": None, "origin": origin + "::" + fn.name + "#literal"})


def harvest_tests(repo=None):
    repo = repo or common.REPO
    out = []
    files = sorted(glob.glob(os.path.join(repo, "tests", "**", "*.py"), recursive=True))
    for path in files:
        try:
            with open(path, encoding="utf-8") as f:
                tree = ast.parse(f.read())
        except (OSError, SyntaxError):
            continue
        module_md, default_md = _module_metadata(tree)
        origin = os.path.relpath(path, repo)
        for node in ast.walk(tree):
            if isinstance(node, (ast.FunctionDef, ast.AsyncFunctionDef)):
                _harvest_function(node, module_md, default_md, origin, out)
    return out


def harvest_tpcds(repo=None):
    repo = repo or common.REPO
    out = []
    for path in sorted(glob.glob(os.path.join(repo, "sqllineage", "data", "tpcds", "*.sql"))):
        with open(path, encoding="utf-8") as f:
            out.append({"sql": f.read(), "dialect": "ansi", "metadata": None, "origin": os.path.relpath(path, repo)})
    return out


def load_corpus(repo=None):
    seen, out = set(), []
    for c in harvest_tests(repo) + harvest_tpcds(repo):
        k = json.dumps([c["sql"], c["dialect"], c["metadata"]], sort_keys=True)
        if k not in seen:
            seen.add(k)
            out.append(c)
    return out


if __name__ == "__main__":
    import collections
    cs = load_corpus()
    print(len(cs), "cases;", len({c["sql"] for c in cs}), "distinct SQL texts")
    print(sorted(collections.Counter(c["dialect"] for c in cs).items()))
    print(sum(1 for c in cs if c["metadata"]), "with metadata;", sum(1 for c in cs if c["origin"].endswith("#literal")), "from the literal fallback")
