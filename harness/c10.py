"""C10 — total error contract; silent mode skips unsupported statements.

Proof side: `lean/SqlLineage/Props/C10.lean` (totality of the modelled core: holder operations, statement walk, assembler;
neutrality of a skipped statement).  Totality of the third-party parser is outside any model, so the part of the property
that quantifies over *arbitrary text* is covered by the SEARCH implemented here (it is a search, not a proof):

  A. class of the escaping exception.  Texts: every (sql, dialect) the repository's tests use + data/tpcds (corpus10.harvest),
     each under its own and under foreign dialects (thorough: ALL listed dialects); token-level mutants of them (deletion,
     duplication, adjacent swap, insertion/replacement from a pool of brackets, separators, quoting / templating / comment
     metacharacters, non-ASCII, NUL; cross-over of two statements; bracket nesting to depth 30, balanced and not; very long
     identifier / IN / select lists); Lean-rendered generated statements (gensql) with one token damaged; hand-written statements
     of the kinds the extractors special-case (MERGE insert arities, vertica swap_partitions_between_tables with 0..5 arguments,
     UPDATE SET oddities, COPY, INSERT OVERWRITE DIRECTORY, CREATE TABLE LIKE/CLONE, ALTER TABLE RENAME/SWAP/EXCHANGE,
     RENAME TABLE with odd/even numbers of names) under every dialect.
     For each (text, dialect, silent in {False, True}) a worker builds `LineageRunner(text, dialect=d, silent_mode=s,
     verbose=True)` and touches every accessor.  ORACLE (no model involved): the class of the escaping exception.  Anything
     that is not a `SQLLineageException` is a failing input, identified by its CALL SITE = (exception type, innermost
     sqllineage/sqlfluff/networkx/sqlparse function).  Sites listed in known_findings.json (status finding) are counted as
     KNOWN-FINDING; any other site is a VIOLATION whose replay is the delta-debugged (ddmin over tokens) minimal text.
     Second oracle ("text the parser cannot parse is reported as invalid syntax"): a harness-side tap on the `Linter` the
     analyser uses records sqlfluff's own verdict for the last statement parsed; if sqlfluff reported lexing/parsing
     violations (or produced no tree at all) the outcome must be InvalidSyntaxException.
  B. silent mode.  Scripts of 1-4 generated supported statements with a statement of an unsupported type (verified per
     dialect: alone and non-silent it raises UnsupportedStatementException) inserted at every position: the silent result
     (tables, column paths, both cytoscape exports) equals the result of the script without it (implementation vs
     implementation), a warning naming the statement is emitted, non-silent raises UnsupportedStatementException; the Lean
     model is evaluated on the same scripts (`"silent": true`, `["unsupported", sql]`): model(with) = model(without)
     (an executed instance of `silent_skip_neutral`) and model = implementation on the table summary.

Hangs.  Every run has a per-case time limit (SIGALRM inside the worker; 20 s quick / 45 s thorough).  A case that hits it is
re-run once alone with three times the limit; whatever the outcome, time-outs are *counted and listed in the evidence*
(`timeouts`) and are not violations: the property constrains which exception may escape, not the running time.  If the pool
itself stops answering (a worker stuck in C code for > 10 minutes) the check exits 2.
"""
import collections
import json
import os
import re
import signal
import sys
import time
import traceback
import warnings

import common
import corpus10
import gensql
import sqlcheck
import sqlimpl
from common import Driver, Infra, canon_json, log

NEED_DRIVER = True

# ------------------------------------------------------------------------------------------------------------ tokens
TOKEN_RE = re.compile(r"""
      (?P<ws>\s+)
    | --[^\n]*
    | /\*.*?\*/
    | '(?:[^'\\]|\\.|'')*'
    | "(?:[^"\\]|\\.)*"
    | `[^`]*`
    | \$\$.*?\$\$
    | \{\{ | \}\} | \{% | %\} | \{\# | \#\}
    | [A-Za-z_@\#$][\w$@\#]*
    | \d+(?:\.\d+)?(?:[eE][+-]?\d+)?
    | <> | <= | >= | != | \|\| | :: | ->> | -> | := | =>
    | .
""", re.X | re.S)


def tokenize(text):
    """-> [(token, space_before)]; whitespace is not a token"""
    out, sp = [], False
    for m in TOKEN_RE.finditer(text):
        if m.lastgroup == "ws":
            sp = True
            continue
        out.append((m.group(0), sp))
        sp = False
    return out


def untokenize(toks):
    parts = []
    for i, (t, sp) in enumerate(toks):
        if sp and i:
            parts.append(" ")
        parts.append(t)
        if t.startswith("--") and not t.endswith("\n"):
            parts.append("\n")
    return "".join(parts)


POOL = ["(", ")", ",", ";", "'", '"', "`", "{{", "}}", "{%", "%}", "{#", "#}", "--", "/*", "*/", "$$", "\\", ".", "*", "=",
        "[", "]", "{", "}", ":", "::", "@", "#", "$", "?", "%", "&", "|", "!", "<", ">", "+", "-", "/", "~", "^",
        "é", "中文", "İ", "\U0001F600", "\u200b", "\x00", "\t", "\x0c", "\ufeff",
        "select", "from", "where", "join", "on", "as", "insert", "into", "values", "update", "set", "merge", "using", "when",
        "matched", "then", "not", "union", "all", "with", "create", "table", "view", "drop", "alter", "rename", "to", "like",
        "case", "end", "else", "over", "partition", "by", "group", "order", "having", "limit", "lateral", "unnest", "exists",
        "in", "is", "null", "and", "or", "distinct", "cast", "swap", "exchange", "copy", "overwrite", "directory", "clone",
        "a", "t", "x.y", "1", "1.5e3", "''", "'x'", '"q"', "`b`", "[b]", "t.*", "a.b.c.d", "@v", ":p", "$1", "%s", "?"]


def _span(rng, n, maxlen=3):
    i = rng.randrange(n)
    j = min(n, i + rng.choice([1, 1, 1, 2, maxlen]))
    return i, j


def mutate(rng, toks, other=None):
    """one mutation step; returns (operator name, new token list)"""
    n = len(toks)
    ops = ["delete", "dup", "swap", "insert", "replace", "nest", "unbalance", "long"]
    if other:
        ops.append("cross")
    if n == 0:
        return "insert", [(rng.choice(POOL), False)]
    op = rng.choice(ops)
    t = list(toks)
    if op == "delete":
        i, j = _span(rng, n)
        return op, t[:i] + t[j:]
    if op == "dup":
        i, j = _span(rng, n)
        return op, t[:j] + t[i:j] + t[j:]
    if op == "swap":
        if n < 2:
            return op, t
        i = rng.randrange(n - 1)
        t[i], t[i + 1] = t[i + 1], t[i]
        return op, t
    if op == "insert":
        i = rng.randrange(n + 1)
        return op, t[:i] + [(rng.choice(POOL), rng.random() < 0.7)] + t[i:]
    if op == "replace":
        i = rng.randrange(n)
        return op, t[:i] + [(rng.choice(POOL), t[i][1])] + t[i + 1:]
    if op == "nest":
        # wrap a balanced span (a bracket group, a single token, or the tail from a SELECT) in k pairs of brackets
        k = rng.choice([1, 2, 3, 5, 10, 20, 30])
        opens = [i for i, (x, _) in enumerate(t) if x == "("]
        sel = [i for i, (x, _) in enumerate(t) if x.lower() == "select"]
        mode = rng.random()
        if opens and mode < 0.4:
            i = rng.choice(opens)
            depth, j = 0, i
            for j in range(i, n):
                if t[j][0] == "(":
                    depth += 1
                elif t[j][0] == ")":
                    depth -= 1
                    if depth == 0:
                        break
            j += 1
        elif sel and mode < 0.7:
            i, j = rng.choice(sel), n
            if t[-1][0] == ";":
                j = n - 1
        else:
            i = rng.randrange(n)
            j = i + 1
        return op, t[:i] + [("(", True)] * k + t[i:j] + [(")", False)] * k + t[j:]
    if op == "unbalance":
        k = rng.choice([1, 2, 5, 30])
        i = rng.randrange(n + 1)
        return op, t[:i] + [(rng.choice(["(", ")", "[", "]"]), True)] * k + t[i:]
    if op == "long":
        i = rng.randrange(n)
        kind = rng.randrange(4)
        m = rng.choice([50, 150, 300])
        if kind == 0:
            new = [("x" * (m * 3), True)]
        elif kind == 1:
            new = [("(", True)] + [z for k_ in range(m) for z in ((str(k_), False), (",", False))][:-1] + [(")", False)]
        elif kind == 2:
            new = [z for k_ in range(m) for z in ((f"c{k_}", True), (",", False))][:-1]
        else:
            new = [z for k_ in range(m // 3) for z in ((f"q{k_}", False), (".", False))][:-1]
        return op, t[:i] + new + t[i + 1:]
    # cross-over
    i = rng.randrange(n + 1)
    j = rng.randrange(len(other) + 1)
    return "cross", t[:i] + list(other[j:])


# ----------------------------------------------------------------------------------------------------- special statements
def special_statements():
    """statement kinds the extractors special-case, with the arities they index by; (name, sql)"""
    S = []
    # MERGE: insert column list vs VALUES arity (merge.py insert_columns[j]; sqlparse analyzer has the same loop)
    for nc in range(0, 4):
        for nv in range(0, 5):
            cols = "(" + ", ".join(f"c{i}" for i in range(nc)) + ")" if nc else ""
            vals = "(" + ", ".join(f"s.v{i}" for i in range(nv)) + ")"
            S.append((f"merge-insert-{nc}-{nv}",
                      f"merge into t using s on t.k = s.k when not matched then insert {cols} values {vals}"))
    S += [
        ("merge-update-odd", "merge into t using s on t.k = s.k when matched then update set t.a = s.a + s.b, t.c = 1, t.d = s.d"),
        ("merge-subquery-noalias", "merge into t using (select k, v from s) on t.k = k when matched then update set v = 1"),
        ("merge-subquery-last", "merge into t using (select k from s)"),
        ("merge-using-bracket-end", "merge into t using (select 1)"),
        ("merge-no-target", "merge into using s on a = b when matched then delete"),
        ("merge-delete", "merge into t using s on t.k = s.k when matched then delete"),
        ("merge-cte", "merge into t using (with c as (select * from s) select * from c) x on t.k = x.k when matched then update set t.v = x.v"),
        ("merge-values-literal", "merge into t using s on t.k = s.k when not matched then insert (a, b) values (1, 'x', s.c)"),
        ("merge-insert-star", "merge into t using s on t.k = s.k when not matched then insert *"),
        ("merge-insert-row", "merge into t using s on t.k = s.k when not matched then insert row"),
    ]
    # vertica swap_partitions_between_tables with 0..5 arguments (select.py expressions[0], expressions[3])
    for k in range(0, 6):
        args = ", ".join(["'stg'", "1", "2", "'tgt'", "true"][:k])
        S.append((f"swap-partitions-{k}", f"select swap_partitions_between_tables({args})"))
    S += [
        ("swap-partitions-nested", "select swap_partitions_between_tables((select 1), 2)"),
        ("swap-partitions-star", "select swap_partitions_between_tables(*)"),
        ("swap-partitions-expr", "select swap_partitions_between_tables(a || b, 1, 2, c.d) from t"),
    ]
    # UPDATE with odd SET clauses (update.py len(column_references) == 2; list(holder.write)[0])
    S += [
        ("update-plain", "update t set a = 1"),
        ("update-col", "update t set a = b"),
        ("update-3cols", "update t set a = b + c"),
        ("update-tuple", "update t set (a, b) = (select x, y from s)"),
        ("update-from", "update t set a = s.a from s where t.k = s.k"),
        ("update-from-subq", "update t set a = q.a from (select a, k from s) q where t.k = q.k"),
        ("update-join", "update t join s on t.k = s.k set t.a = s.a"),
        ("update-join3", "update t a join s b on a.k = b.k join u c on c.k = b.k set a.x = c.x, a.y = b.y"),
        ("update-alias", "update t as x set x.a = x.b"),
        ("update-no-target", "update set a = b"),
        ("update-only-subq", "update (select * from t) set a = b"),
        ("update-cte", "with c as (select * from s) update t set a = c.a from c"),
        ("update-default", "update t set a = default, b = null"),
        ("update-qualified3", "update d.s.t set d.s.t.a = d.s.u.b from d.s.u"),
        ("update-qualified4", "update a.b.c.d set x = 1"),
        ("update-where-subq", "update t set a = 1 where k in (select k from s)"),
    ]
    # COPY forms (copy.py)
    S += [
        ("copy-pg-from", "copy t from '/tmp/f.csv'"),
        ("copy-pg-to", "copy t to '/tmp/f.csv'"),
        ("copy-pg-query", "copy (select * from t) to '/tmp/f.csv'"),
        ("copy-pg-cols", "copy t (a, b) from stdin"),
        ("copy-into-sf", "copy into t from @stage/file.csv"),
        ("copy-into-sf-q", "copy into t from (select $1 from @stage)"),
        ("copy-into-loc", "copy into 's3://b/p' from t"),
        ("copy-into-dbx", "copy into t from 's3://b/p' fileformat = csv"),
        ("copy-redshift", "copy t from 's3://b/p' iam_role 'r'"),
        ("copy-bare", "copy"), ("copy-into-bare", "copy into"), ("copy-from-bare", "copy t from"),
    ]
    # INSERT OVERWRITE DIRECTORY / odd INSERT forms (create_insert.py)
    S += [
        ("iod-hive", "insert overwrite directory '/tmp/d' select * from t"),
        ("iod-local", "insert overwrite local directory '/tmp/d' select a from t"),
        ("iod-using", "insert overwrite directory '/tmp/d' using parquet select * from t"),
        ("iod-nopath", "insert overwrite directory using parquet options (path '/x') select * from t"),
        ("iod-num", "insert overwrite directory 123 select * from t"),
        ("insert-overwrite", "insert overwrite table t partition (d = '1') select * from s"),
        ("insert-bracket-cte", "insert into t (with c as (select 1 a) select a from c)"),
        ("insert-values-subq", "insert into t values ((select max(a) from s), 1)"),
        ("insert-cols-values", "insert into t (a, b) values (1, 2), (3, 4)"),
        ("insert-default", "insert into t default values"),
        ("insert-no-target", "insert into select 1"),
        ("insert-into-fn", "insert into f(x) select 1"),
        ("insert-cols-mismatch", "insert into t (a, b, c) select x from s"),
        ("insert-qualified4", "insert into a.b.c.d select 1"),
        ("insert-two-targets", "insert into t1 t2 select * from s"),
    ]
    # CREATE TABLE LIKE / CLONE / odd CREATE forms
    S += [
        ("ctl", "create table t like s"),
        ("ctl-paren", "create table t (like s)"),
        ("ctl-ine", "create table if not exists t like s"),
        ("clone", "create table t clone s"),
        ("clone-or", "create or replace table t clone s at (timestamp => 1)"),
        ("ctl-bare", "create table t like"), ("clone-bare", "create table clone"),
        ("ctas-bracket", "create table t as (select * from s)"),
        ("ctas-cte", "create table t as with c as (select * from s) select * from c"),
        ("ctas-values", "create table t as values (1, 2)"),
        ("create-cols", "create table t (a int, b varchar(10), primary key (a))"),
        ("create-bucket", "create table t (a int) clustered by (a) into 4 buckets"),
        ("create-location", "create table t (a int) location '/tmp/x'"),
        ("create-using", "create table t using parquet location '/tmp/x' as select 1 a"),
        ("create-view-cols", "create view v (a, b) as select x, y, z from s"),
        ("create-mv", "create materialized view v as select * from s"),
        ("create-temp", "create temporary table t as select * from s"),
        ("create-ext", "create external table t (a int) stored as parquet location 's3://x'"),
        ("create-qualified4", "create table a.b.c.d as select 1"),
        ("create-no-name", "create table as select 1"),
    ]
    # ALTER TABLE ... RENAME / SWAP / EXCHANGE with 1-3 table references; RENAME TABLE with odd numbers of names (rename.py)
    S += [
        ("alter-rename", "alter table t rename to u"),
        ("alter-rename-q", "alter table s.t rename to s.u"),
        ("alter-rename-self", "alter table t rename to t"),
        ("alter-rename-col", "alter table t rename column a to b"),
        ("alter-rename-bare", "alter table t rename"), ("alter-rename-to", "alter table t rename to"),
        ("alter-swap", "alter table t swap with u"),
        ("alter-swap-bare", "alter table t swap with"),
        ("alter-exchange", "alter table t exchange partition (d = '1') with table u"),
        ("alter-exchange-bare", "alter table t exchange partition (d = '1') with table"),
        ("alter-exchange3", "alter table t exchange partition (d = '1') with table u, v"),
        ("alter-add", "alter table t add column c int"),
        ("alter-bare", "alter table"), ("alter-only", "alter table t"),
        ("rename-1", "rename table a"), ("rename-2", "rename table a to b"), ("rename-3", "rename table a to b, c"),
        ("rename-4", "rename table a to b, c to d"), ("rename-5", "rename table a to b, c to d, e"),
        ("rename-chain", "rename table a to b, b to c"), ("rename-chain-rev", "rename table b to a, c to b"),
        ("rename-cycle", "rename table a to b, b to a"), ("rename-self", "rename table a to a"),
        ("rename-same-target", "rename table a to c, b to c"), ("rename-same-source", "rename table a to b, a to c"),
        ("rename-td", "rename table a to b"), ("rename-td-as", "rename table a as b"),
        ("rename-then-use", "rename table a to b; insert into c select * from b"),
        ("alter-rename-then-drop", "insert into b select * from a; alter table b rename to c; drop table c"),
    ]
    # select shapes the helpers index into (first element of FROM, alias segments, LATERAL, VALUES, table functions, INTO)
    S += [
        ("from-values", "select * from (values (1, 2)) as v (a, b)"),
        ("from-values-noalias", "select * from (values (1))"),
        ("from-fn", "select * from unnest(array[1, 2]) as x"),
        ("from-fn-join", "select * from t, lateral flatten(input => t.a) f"),
        ("from-lateral", "select * from t cross join lateral (select * from s where s.k = t.k) x"),
        ("from-lateral-view", "select a from t lateral view explode(b) x as c"),
        ("from-bracket-table", "select * from (t)"), ("from-bracket2-table", "select * from ((t)) x"),
        ("from-bracket-join", "select * from (t join s on t.k = s.k)"),
        ("from-alias-cols", "select * from t as x (a, b)"),
        ("from-empty-bracket", "select * from ()"), ("from-only-alias", "select * from as x"),
        ("from-file", "select * from parquet.`/tmp/x`"), ("from-file2", "select * from csv.`s3://b/k` x"),
        ("from-pivot", "select * from t pivot (sum(a) for b in ('x', 'y'))"),
        ("from-tablesample", "select * from t tablesample (10 percent)"),
        ("select-into", "select a into u from t"), ("select-into-temp", "select a into temp table u from t"),
        ("select-into-var", "select a into @v from t"), ("select-into-bare", "select a into from t"),
        ("cte-no-body", "with c as (select 1)"), ("cte-insert", "with c as (select * from s) insert into t select * from c"),
        ("cte-cols", "with c (a, b) as (select 1, 2) select * from c"),
        ("cte-recursive", "with recursive c as (select 1 a union all select a + 1 from c) select * from c"),
        ("cte-empty", "with c as () select * from c"), ("cte-dup", "with c as (select 1), c as (select 2) select * from c"),
        ("set-bracket", "(select a from t) union (select a from s)"),
        ("set-bracket-nested", "((select a from t) union (select a from s)) union all select a from u"),
        ("set-arity", "insert into w (x) select a, b from t union select c from s"),
        ("cast-pg", "insert into w select a::int, b::varchar(3) from t"),
        ("case-subq", "select case when (select max(a) from s) > 1 then (select b from u) else (select c from v) end x from t"),
        ("fn-subq", "select coalesce((select a from s), (select b from u)) from t"),
        ("item-subq", "insert into w select (select max(a) from s) m from t"),
        ("item-subq-bad", "insert into w select (select from) m from t"),
        ("item-subq-nested", "insert into w select (select (select a from u) from s) from t"),
        ("star-qual", "insert into w select t.*, s.* from t, s"), ("star-count", "select count(*), count(t.*) from t"),
        ("window", "select sum(a) over (partition by b order by c rows between 1 preceding and current row) from t"),
        ("qualified5", "select a.b.c.d.e from a.b.c.d"), ("table-4parts", "select * from a.b.c.d"),
        ("dotted-quotes", 'select "a.b"."c.d" from "s.t"."u.v"'), ("empty-quotes", 'select "" from ""'),
        ("backtick-dot", "select * from `a.b.c`"), ("backtick-4", "select * from `a.b.c.d`"), ("bracket-id", "select [a] from [s].[t]"),
        ("drop-many", "drop table a, b, c"), ("drop-if", "drop table if exists a"), ("drop-view", "drop view if exists v"),
        ("drop-bare", "drop table"), ("drop-if-bare", "drop table if exists"),
        ("only-semicolons", ";;;"), ("only-comment", "-- nothing"), ("only-block-comment", "/* nothing */"),
        ("comment-unterminated", "select 1 /* open"), ("string-unterminated", "select 'open from t"),
        ("dollar", "select $$ a $$ from t"), ("dollar-open", "select $$ a from t"),
        ("jinja-var", "select {{ a }} from t"), ("jinja-open", "select {{ a from t"), ("jinja-in-string", "select '{{' from t"),
        ("jinja-block-open", "select {% if x %} a from t"), ("jinja-comment-open", "select {# a from t"),
        ("jinja-close-only", "select a }} from t"), ("jinja-block", "select {% if true %} a {% endif %} from t"),
        ("jinja-for", "select {% for i in [1,2] %} a{{ i }}, {% endfor %} 1 from t"), ("jinja-bad-expr", "select {{ 1 + }} from t"),
        ("jinja-call", "select {{ x.y() }} from {{ ref('t') }}"), ("jinja-raw", "select {% raw %} {{ {% endraw %} from t"),
        ("jinja-macro-open", "{% macro m() %} select 1"), ("jinja-set", "{% set x = 1 %} select {{ x }}"),
        ("jinja-div0", "select {{ 1 / 0 }}"), ("jinja-include", "select {% include 'x' %}"), ("jinja-extends", "{% extends 'x' %}"),
        ("sqlfluff-directive", "-- sqlfluff:dialect:bogus\nselect 1"), ("sqlfluff-directive2", "-- sqlfluff:templater:bogus\nselect 1"),
        ("sqlfluff-directive3", "-- sqlfluff:max_line_length:x\nselect 1"), ("noqa", "select 1 -- noqa: disable=all"),
        ("nul", "select \x00 from t"), ("bom", "\ufeffselect 1"), ("non-ascii-id", "select é from té"),
        ("emoji-string", "select '\U0001F600' from t"), ("turkish-i", "select İ from İ"),
        ("backslash", "select '\\' from t"), ("backslash-end", "select a from t \\"),
        ("very-long-id", "select " + "x" * 3000 + " from t"), ("very-long-string", "select '" + "y" * 5000 + "' from t"),
    ]
    # dialect-specific shapes of aliases / table functions / select-list extensions (the extractors read alias segments,
    # function arguments and wildcard modifiers positionally); run under EVERY dialect like the rest
    S += [
        ("multi-alias-explode", "select explode(m) as (k, v) from t"), ("multi-alias-posexplode", "select posexplode(a) as (p, v) from t"),
        ("multi-alias-stack", "select stack(2, a, b) as (x, y) from t"), ("multi-alias-inline", "insert into w select inline(arr) as (a, b) from t"),
        ("lateral-view-multi", "select k, v from t lateral view explode(m) x as k, v"),
        ("lateral-view-outer", "insert into w select x.k from t lateral view outer explode(m) x as k"),
        ("tsql-alias-eq", "select a = b, c = (select max(d) from s) from t"), ("tsql-alias-eq-insert", "insert into w select x = a + 1 from t"),
        ("table-alias-cols", "select s.k from generate_series(1, 3) as s (k)"), ("values-alias-cols", "select v.a from (values (1, 2)) as v (a, b)"),
        ("derived-alias-cols", "insert into w select q.x from (select a, b from t) as q (x, y)"),
        ("unnest-ordinality", "select u.x from t, unnest(t.arr) with ordinality as u (x, n)"),
        ("unnest-offset", "select x, o from t, unnest(t.arr) as x with offset as o"),
        ("star-except", "insert into w select * except (a) from t"), ("star-replace", "insert into w select * replace (a + 1 as a) from t"),
        ("star-exclude", "insert into w select * exclude (a) from t"), ("star-rename", "insert into w select * rename (a as b) from t"),
        ("flatten", "select f.value from t, lateral flatten(input => t.x) f"), ("table-fn", "select * from table(f(1)) x"),
        ("stage", "select $1, $2 from @st"), ("pivot", "select * from t pivot (sum(a) for b in ('x', 'y')) as p"),
        ("unpivot", "select * from t unpivot (v for k in (a, b)) as u"), ("tablesample", "select a from t tablesample (10 percent) x"),
        ("struct-field", "insert into w select t.s.f, t.arr[0].g from t"), ("json-arrow", "insert into w select j -> 'a' ->> 'b' from t"),
        ("colon-path", "insert into w select v:a.b::string from t"), ("named-args", "select f(a => 1, b => t.c) from t"),
        ("alias-string", "select a as 'x', b \"y\" from t"), ("alias-only-as", "select a as from t"), ("alias-paren-empty", "select f(a) as () from t"),
        ("qualify", "select a from t qualify row_number() over (partition by b order by c) = 1"),
        ("window-named", "select sum(a) over w from t window w as (partition by b)"),
        ("interval", "select a + interval '1' day from t"), ("array-lit", "insert into w select array[a, b] from t"),
        ("insert-select-alias-list", "insert into w (x, y) select a, b from t as q (a, b)"),
    ]
    # UPDATE / MERGE / CREATE ... LIKE spellings around the places where the extractors take "the first write table" or "the table
    # after the keyword" (update.py, merge.py, sqlparse handlers/target.py)
    S += [
        ("update-only", "update only t set a = s.b from s"), ("update-only-star", "update only t * set a = 1"),
        ("update-no-target", "update set a = b"), ("update-subq-target", "update (select a from t) x set a = 1"),
        ("update-join-mysql", "update t1 a join t2 b on a.k = b.k set a.x = b.y"), ("update-comma-mysql", "update t1 a, t2 b set a.x = b.y where a.k = b.k"),
        ("update-set-tuple", "update t set (a, b) = (select x, y from s)"), ("update-from-subq", "update t set a = q.b from (select b, k from s) q where t.k = q.k"),
        ("merge-into-literal", "merge into 1 using s on x when matched then update set a = s.b"),
        ("merge-no-using", "merge into t when matched then update set a = 1"),
        ("merge-two-inserts", "merge into t using s on t.k = s.k when not matched and s.f = 1 then insert (a, b) values (s.x, s.y) "
                              "when not matched then insert (b, a) values (s.x, s.y)"),
        ("merge-delete", "merge into t using s on t.k = s.k when matched then delete"),
        ("create-like-literal", "create table tab1 like 1"), ("create-like-string", "create table tab1 like 'tab2'"),
        ("insert-eq", "insert into tab1 = 1"), ("create-clone-literal", "create table tab1 clone 1"),
        ("copy-local", "copy t from local '/tmp/f.csv' delimiter ','"), ("copy-stdin", "copy t from stdin"),
        ("insert-overwrite-dir", "insert overwrite directory '/tmp/out' select a from t"),
    ]
    # statements of an unsupported type (the message of UnsupportedStatementException / of the silent-mode warning is built from
    # the statement text: formatting metacharacters in it must not matter)
    S += [(f"unsupported-{i}", u) for i, u in enumerate(UNSUPPORTED_CANDIDATES)]
    return S


UNSUPPORTED_CANDIDATES = [
    "vacuum t1", "grant select on t1 to u1", "create index i1 on t1 (a)", "create schema s9", "create database d9",
    "drop schema s9", "drop index i1", "create role r1", "explain select 1", "commit", "rollback", "begin",
    "create sequence q1", "call p1()", "drop database d9", "revoke select on t1 from u1",
    # the same kinds with %-, {}- and backslash metacharacters in their text
    "explain select * from t1 where c like 'x%'", "explain select a % 2 from t1", "explain select '%s %d %(x)s' from t1",
    "explain select '{0} {} {x}' from t1", "comment on table t1 is '100% sure'", "grant select on t1 to u1 /* 100% */",
    "call p1('%', '{}')", "explain select '%' from t1",
]


# ------------------------------------------------------------------------------------------------------------- worker
class _Timeout(BaseException):
    pass


def _on_alarm(signum, frame):
    raise _Timeout()


_TAP = {"installed": False, "last": None, "memo": {}}


def _verdict(parsed):
    from sqlfluff.core import SQLLexError, SQLParseError
    try:
        bad = [v for v in parsed.violations if isinstance(v, (SQLLexError, SQLParseError))]
        notree = not parsed.parsed_variants or parsed.parsed_variants[0].tree is None
        return "unparsable" if (bad or notree) else "parsed"
    except Exception:   # noqa
        return "unknown"


def _install_tap():
    """record sqlfluff's own verdict on every text the analyser hands to the parser (harness-side; /repo untouched).
    The tap also memoises `parse_string` per (dialect, text) for the duration of ONE case, so that the silent and the
    non-silent run of the same text share the parse (the analyser under test receives the same ParsedString, or the same
    exception, it would get from a second parse)."""
    if _TAP["installed"]:
        return
    import sqllineage.core.parser.sqlfluff.analyzer as A
    base = A.Linter

    class TapLinter(base):
        def parse_string(self, in_str, *a, **k):
            key = (self.config.get("dialect"), in_str) if not a and not k else None
            memo = _TAP["memo"]
            if key is not None and key in memo:
                kind, val, verdict = memo[key]
                _TAP["last"] = verdict
                if kind == "exc":
                    raise val
                return val
            _TAP["last"] = "raised"
            try:
                parsed = base.parse_string(self, in_str, *a, **k)
            except Exception as e:   # noqa
                if key is not None:
                    memo[key] = ("exc", e, "raised")
                raise
            _TAP["last"] = _verdict(parsed)
            if key is not None:
                memo[key] = ("ok", parsed, _TAP["last"])
            return parsed

    A.Linter = TapLinter
    _TAP["installed"] = True


def valid_sql(sql, dialects=("ansi",)):
    """harness-side oracle for the class of D36: does sqlfluff accept every statement of the text under one of `dialects`?"""
    try:
        from sqlfluff.core import FluffConfig, Linter
        from sqllineage.utils.helpers import split
        stmts = split(sql.strip())
        for d in dialects:
            ok = True
            for st in stmts:
                try:
                    if _verdict(Linter(config=FluffConfig(overrides={"dialect": d})).parse_string(st)) != "parsed":
                        ok = False
                        break
                except Exception:   # noqa
                    ok = False
                    break
            if ok:
                return True
        return False
    except Exception:   # noqa
        return False


def touch(lr, want_result=False):
    from sqllineage.utils.constant import LineageLevel
    if want_result:
        res = sqlimpl.result_of(lr)
    else:
        res = None
        _ = (lr.source_tables, lr.target_tables, lr.intermediate_tables)
        lr.get_column_lineage()
        lr.to_cytoscape()
        lr.to_cytoscape(LineageLevel.COLUMN)
    lr.get_column_lineage(exclude_path_ending_in_subquery=False, exclude_subquery_columns=True)
    str(lr)
    n = len(lr.statements())
    return res, n


def run_one(sql, dialect, silent, limit=20.0, want_result=False):
    """-> {"k": "ok"|"invalidSyntax"|"unsupported"|"lineage"|"config"|"provider"|"internal"|"timeout", ...}"""
    from sqllineage.runner import LineageRunner
    _install_tap()
    _TAP["last"] = None
    old = signal.signal(signal.SIGALRM, _on_alarm)
    signal.setitimer(signal.ITIMER_REAL, limit)
    out = None
    try:
        with warnings.catch_warnings(record=True) as w:
            warnings.simplefilter("always")
            try:
                lr = LineageRunner(sql, dialect=dialect, silent_mode=silent, verbose=True)
                res, n = touch(lr, want_result)
                out = {"k": "ok", "n": n}
                if want_result:
                    out["result"] = res
            except _Timeout:
                raise
            except BaseException as e:   # noqa
                if isinstance(e, (KeyboardInterrupt, SystemExit)):
                    raise
                c = sqlimpl.classify_exception(e)
                out = {"k": c["error"]}
                if c["error"] == "internal":
                    out.update(etype=c["etype"], site=c["site"], msg=c["msg"])
                    if c["etype"] == "NetworkXError":
                        out["max_rename_pairs"] = _max_rename_pairs(sql, dialect)
                    if dialect == "non-validating":
                        signal.setitimer(signal.ITIMER_REAL, 0)
                        out["valid_sql"] = valid_sql(sql)
            signal.setitimer(signal.ITIMER_REAL, 0)
            out["warn"] = sorted({f"{x.category.__name__}:{str(x.message)[:60]}" for x in w
                                  if "doesn't support analyzing statement type" in str(x.message)})
    except _Timeout:
        out = {"k": "timeout"}
    finally:
        signal.setitimer(signal.ITIMER_REAL, 0)
        signal.signal(signal.SIGALRM, old)
    out["parse"] = _TAP["last"]
    return out


HISTORY_TEXTS = ["select from from", "insert into t select a from", "create table t as select (a from s", "update t set", "select a from t where",
                 "select * from t;; select from", "with c as (select 1) select", "merge into t using s on",
                 # valid T-SQL (so the tsql run parses and caches them), not parsable under the other dialects
                 "INSERT INTO tgt SELECT TOP 10 a FROM [dbo].[src]", "CREATE PROCEDURE p AS SELECT 1", "select top 5 a from t with (nolock)",
                 "insert into tgt select a from [s].[t] option (recompile)"]


def work_history(case):
    """process-wide state must not change the outcome class: the same text analysed first under tsql with TSQL_NO_SEMICOLON (the only
    configuration that fills the analyzer's split cache), then under another dialect IN THE SAME PROCESS, against that dialect alone"""
    from sqllineage.config import SQLLineageConfig
    sql, d = case["sql"], case["dialect"]
    alone = run_one(sql, d, False, case.get("limit", 20.0))
    with SQLLineageConfig(TSQL_NO_SEMICOLON=True):
        first = run_one(sql, "tsql", False, case.get("limit", 20.0))
    after = run_one(sql, d, False, case.get("limit", 20.0))
    after_silent = run_one(sql, d, True, case.get("limit", 20.0))
    return {"alone": alone, "tsql_first": first, "after": after, "after_silent": after_silent}


def part_history(chk, dialects):
    use = [d for d in ("ansi", "mysql", "postgres", "sparksql", "bigquery") if d in dialects]
    cases = [{"sql": t, "dialect": d} for t in HISTORY_TEXTS for d in use]
    res = sqlimpl.pool().map(work_history, cases, chunksize=2)
    bad = 0
    for c, r in zip(cases, res):
        chk.count(canon_json(["history", c["sql"], c["dialect"]]), True)
        if r["alone"]["k"] != r["after"]["k"] or (r["alone"]["k"] == "invalidSyntax" and r["after_silent"]["k"] != "invalidSyntax"):
            bad += 1
            if bad == 1:
                chk.violation("the outcome class of an analysis depends on what the process analysed before (tsql with TSQL_NO_SEMICOLON, then "
                              f"{c['dialect']}): {r['alone']['k']} alone, {r['after']['k']} afterwards, {r['after_silent']['k']} in silent mode",
                              {"kind": "history", "sql": c["sql"], "dialect": c["dialect"], "outcomes": {k: _brief(v) for k, v in r.items()}})
    return {"cases": len(cases), "failures": bad}


def _max_rename_pairs(sql, dialect):
    """class test for D10 on the implementation alone: the largest number of rename pairs one statement holder carries"""
    try:
        from sqllineage.core.metadata.dummy import DummyMetaDataProvider
        from sqllineage.core.parser.sqlfluff.analyzer import SqlFluffLineageAnalyzer
        from sqllineage.core.parser.sqlparse.analyzer import SqlParseLineageAnalyzer
        from sqllineage.utils.helpers import split
        an = SqlParseLineageAnalyzer() if dialect == "non-validating" else SqlFluffLineageAnalyzer(".", dialect, True)
        m = 0
        with warnings.catch_warnings():
            warnings.simplefilter("ignore")
            for s in split(sql.strip()):
                try:
                    m = max(m, len(an.analyze(s, DummyMetaDataProvider()).rename))
                except Exception:   # noqa
                    pass
        return m
    except Exception:   # noqa
        return -1


def work(case):
    """pool task: both silent settings for one (text, dialect)"""
    limit = case.get("limit", 20.0)
    t0 = time.time()
    _TAP["memo"].clear()
    r = {"i": case["i"]}
    for silent in (False, True):
        r["silent" if silent else "loud"] = run_one(case["sql"], case["dialect"], silent, limit, case.get("want_result", False))
    r["t"] = round(time.time() - t0, 3)
    _TAP["memo"].clear()
    return r


def run_pool(cases, procs=16, stall=600):
    """imap_unordered with a stall watchdog; returns results indexed like `cases`"""
    import multiprocessing as mp
    for i, c in enumerate(cases):
        c["i"] = i
    res = [None] * len(cases)
    if not cases:
        return res
    ctx = mp.get_context("fork")
    pool = ctx.Pool(min(procs, os.cpu_count() or 4), maxtasksperchild=400)
    try:
        it = pool.imap_unordered(work, cases, chunksize=1)
        for _ in range(len(cases)):
            try:
                r = it.next(timeout=stall)
            except mp.TimeoutError:
                raise Infra(f"worker pool did not answer for {stall} s (a worker is stuck outside the Python interpreter loop)")
            res[r["i"]] = r
    finally:
        pool.terminate()
        pool.join()
    return res


# ---------------------------------------------------------------------------------------------------- classification
def site_of(o):
    return (o["etype"], o["site"])


def known_site(chk, o, dialect=None):
    """finding id when the failing outcome belongs to a listed finding (status finding), else None.
    An entry lists call sites `sites: [[exception type, site], ...]` (optionally `requires: {min_rename_pairs: n}`,
    `dialects: [...]`), or a class `class_rule: {"dialect": d, "valid_sql": false}` = every escape under dialect d on text
    that sqlfluff's ansi parser rejects."""
    for e in chk.findings:
        if e.get("status") != "finding":
            continue
        rule = e.get("class_rule")
        if rule is not None:
            if dialect == rule.get("dialect") and o.get("valid_sql") is rule.get("valid_sql"):
                return e["id"]
            continue
        if e.get("dialects") and dialect is not None and dialect not in e["dialects"]:
            continue
        for et, st in e.get("sites", []):
            if o.get("etype") == et and o.get("site") == st:
                need = e.get("requires", {})
                if "min_rename_pairs" in need and o.get("max_rename_pairs", 0) < need["min_rename_pairs"]:
                    continue
                return e["id"]
    return None


def failure_of(o):
    """None when the outcome satisfies the property, else a short failure kind"""
    if o["k"] == "internal":
        return "escape"
    if o["k"] == "timeout":
        return None
    if o.get("parse") == "unparsable" and o["k"] != "invalidSyntax":
        return "unparsable-not-invalid-syntax"
    return None


def same_failure(o, ref):
    f = failure_of(o)
    if f != failure_of(ref):
        return False
    if f == "escape":
        return site_of(o) == site_of(ref)
    return f is not None and o["k"] == ref["k"]


def ddmin(toks, pred, budget=350):
    """classic delta debugging over the token list; pred(list) -> bool (True = still failing)"""
    n = 2
    evals = 0
    cur = list(toks)
    while len(cur) >= 2 and evals < budget:
        chunk = max(1, len(cur) // n)
        subsets = [cur[i:i + chunk] for i in range(0, len(cur), chunk)]
        reduced = False
        for i in range(len(subsets)):
            comp = [x for j, s in enumerate(subsets) if j != i for x in s]
            evals += 1
            if comp and pred(comp):
                cur = comp
                n = max(n - 1, 2)
                reduced = True
                break
            if evals >= budget:
                break
        if not reduced:
            if n >= len(cur):
                break
            n = min(len(cur), n * 2)
    return cur


def minimise(chk, sql, dialect, silent, ref, limit):
    toks = tokenize(sql)
    if len(toks) > 600:
        return sql

    def pred(ts):
        o = run_one(untokenize(ts), dialect, silent, limit)
        # still the same failure, and still not an instance of a listed finding
        return same_failure(o, ref) and (failure_of(o) != "escape" or known_site(chk, o, dialect) is None)
    if not pred(toks):
        return sql       # tokenisation round trip changed the behaviour: keep the original text
    return untokenize(ddmin(toks, pred))


# ----------------------------------------------------------------------------------------------------------- generation
def gen_fuzz_cases(chk, drv, dialects, corpus):
    rng = chk.rng
    thorough = chk.tier == "thorough"
    cases = []

    def add(sql, d, origin):
        cases.append({"sql": sql, "dialect": d, "origin": origin})

    fluff = [d for d in dialects if d != "non-validating"]
    small = [c for c in corpus if len(c["sql"]) <= 1500]
    big = [c for c in corpus if len(c["sql"]) > 1500]
    # 1. corpus as is: own dialects + foreign dialects (thorough: all of them)
    for c in small:
        own = [d for d in c["dialects"] if d in dialects] or ["ansi"]
        others = [d for d in dialects if d not in own]
        extra = others if thorough else rng.sample(others, 2)
        for d in own + extra:
            add(c["sql"], d, "corpus")
    for c in (big if thorough else rng.sample(big, min(6, len(big)))):
        ds = ["ansi"] + (rng.sample([d for d in dialects if d != "ansi"], 5 if thorough else 1))
        for d in ds:
            add(c["sql"], d, "corpus-big")
    # 2. special statements under every dialect (quick: a rotating third of the dialects + vertica/mysql/ansi/non-validating)
    spec = special_statements()
    for name, sql in spec:
        if thorough:
            ds = dialects
        else:
            must = [d for d in ("ansi", "vertica", "mysql", "sparksql", "snowflake", "postgres", "tsql", "non-validating") if d in dialects]
            ds = must + rng.sample([d for d in dialects if d not in must], 3)
        for d in ds:
            add(sql, d, "special")
    # 3. mutants of corpus statements and special statements
    n_mut = 34000 if thorough else 2000
    seeds = [(c["sql"], c["dialects"]) for c in small] + [(s, ["ansi"]) for _, s in spec if len(s) < 400]
    seeds_tok = [(tokenize(s), ds) for s, ds in seeds]
    seeds_tok = [(t, ds) for t, ds in seeds_tok if 0 < len(t) <= 400]
    for k in range(n_mut):
        toks, ds = rng.choice(seeds_tok)
        other, _ = rng.choice(seeds_tok)
        steps = rng.choice([1, 1, 1, 2, 3])
        ops = []
        for _ in range(steps):
            op, toks = mutate(rng, toks, other)
            ops.append(op)
        if len(toks) > 900:
            toks = toks[:900]
        own = [d for d in ds if d in dialects] or ["ansi"]
        d = rng.choice(own) if rng.random() < 0.5 else rng.choice(dialects)
        add(untokenize(toks), d, "mut:" + "+".join(ops))
    # 4. generated near-valid SQL (Lean-rendered typed AST) with one token damaged
    n_gen = 6000 if thorough else 500
    R = gensql.Rand(rng, max_depth=3 if thorough else 2)
    asts = [R.stmt(rng.choice([1, 2, 2, 3] if thorough else [1, 2])) for _ in range(n_gen // 2)]
    asts += [R.spark_stmt(rng.choice([1, 2])) for _ in range(n_gen // 20)]
    rendered = []
    if drv is not None and asts:
        for a in drv.ask([{"cmd": "render", "stmts": [s]} for s in asts]):
            if "sql" in a:
                rendered.append(a["sql"][0])
    for sql in rendered:
        toks = tokenize(sql)
        for _ in range(2):
            op, t2 = mutate(rng, toks, rng.choice(seeds_tok)[0])
            add(untokenize(t2), rng.choice(fluff if rng.random() < 0.85 else dialects), "gen:" + op)
    # 5. bracket nesting to depth 30 and metacharacter sweeps on a few fixed carriers
    carriers = ["select a from t", "insert into w select a, b from t join s on t.k = s.k where a in (select x from u)",
                "create table w as select * from (select a from t) q", "merge into t using s on t.k = s.k when matched then update set t.a = s.a"]
    for base in carriers:
        bt = tokenize(base)
        for depth in (1, 2, 5, 10, 20, 30):
            for pos in range(len(bt)):
                if rng.random() < (0.5 if thorough else 0.12):
                    t2 = bt[:pos] + [("(", True)] * depth + bt[pos:pos + 1] + [(")", False)] * depth + bt[pos + 1:]
                    add(untokenize(t2), rng.choice(fluff), f"nest:{depth}")
        for meta in ["{{", "}}", "{%", "%}", "{#", "#}", "'", '"', "`", "$$", "\\", "--", "/*", "\x00", "é", ";", "(", ")"]:
            for pos in range(len(bt) + 1):
                if rng.random() < (0.6 if thorough else 0.15):
                    t2 = bt[:pos] + [(meta, rng.random() < 0.5)] + bt[pos:]
                    add(untokenize(t2), rng.choice(dialects), "meta")
            # inside a string literal
            add(base + " where z = '" + meta.replace("'", "''") + "'", rng.choice(dialects), "meta-in-string")
    return cases


# ------------------------------------------------------------------------------------------------------------- part A
def part_a(chk, drv, dialects, corpus, limit):
    cases = gen_fuzz_cases(chk, drv, dialects, corpus)
    for c in cases:
        c["limit"] = limit
    # distinct (text, dialect) only
    seen, uniq = set(), []
    for c in cases:
        k = (c["sql"], c["dialect"])
        if k not in seen:
            seen.add(k)
            uniq.append(c)
    cases = uniq
    log(f"[C10] part A: {len(cases)} distinct (text, dialect) cases, {len({c['sql'] for c in cases})} distinct texts")
    t0 = time.time()
    res = run_pool(cases)
    log(f"[C10] part A evaluated in {time.time() - t0:.1f}s")
    dist = collections.Counter()
    cpu_s = round(sum(r["t"] for r in res), 1)
    slowest = sorted(((r["t"], c["origin"], c["dialect"], c["sql"][:80]) for c, r in zip(cases, res)), reverse=True)[:5]
    by_origin = collections.Counter()
    by_dialect = collections.Counter()
    timeouts = []
    failures = collections.OrderedDict()       # failure key -> list of (case, silent, outcome)
    known = collections.Counter()
    for c, r in zip(cases, res):
        okind = c["origin"].split(":")[0]
        for silent, key in ((False, "loud"), (True, "silent")):
            o = r[key]
            dist[o["k"]] += 1
            by_origin[okind + "/" + o["k"]] += 1
            by_dialect[c["dialect"] + "/" + ("accepted" if o["k"] == "ok" else o["k"])] += 1
            # non-trivial: the text got past the parser (a result, or an error raised behind the parser)
            chk.count(canon_json([c["sql"], c["dialect"], silent]), o["k"] in ("ok", "unsupported", "lineage", "internal"))
            if o["k"] == "timeout":
                timeouts.append({"sql": c["sql"][:300], "dialect": c["dialect"], "silent": silent, "origin": c["origin"]})
                continue
            f = failure_of(o)
            if f is None:
                continue
            if f == "escape":
                fid = known_site(chk, o, c["dialect"])
                if fid is not None:
                    known[fid] += 1
                    continue
                fk = ("escape",) + site_of(o)
            else:
                fk = (f, o["k"], "")
            failures.setdefault(fk, []).append((c, silent, o))
        if len(chk.samples) < 6 and r["loud"]["k"] in ("ok", "internal", "unsupported") and chk.rng.random() < 0.01:
            chk.sample({"sql": c["sql"][:200], "dialect": c["dialect"], "origin": c["origin"], "loud": r["loud"]["k"],
                        "silent": r["silent"]["k"]})
    # time-outs: one more attempt alone with three times the limit
    reproducible_hangs = []
    for tmo in timeouts[:8]:
        full = next(c for c in cases if c["sql"][:300] == tmo["sql"] and c["dialect"] == tmo["dialect"])
        o = run_one(full["sql"], full["dialect"], tmo["silent"], limit * 3)
        tmo["rerun"] = o["k"]
        if o["k"] == "timeout":
            reproducible_hangs.append(tmo)
    for fid, n in known.items():
        chk.known(fid, n)
    # violations: one replay per failure key, shortest instance first, delta-debugged
    for n_site, (fk, inst) in enumerate(failures.items()):
        inst.sort(key=lambda x: len(x[0]["sql"]))
        c, silent, o = inst[0]
        sql = c["sql"]
        if n_site < 6:
            try:
                sql = minimise(chk, c["sql"], c["dialect"], silent, o, limit)
            except Exception as e:   # noqa
                log("[C10] minimisation failed:", e)
        o2 = run_one(sql, c["dialect"], silent, limit)
        if not same_failure(o2, o):
            sql, o2 = c["sql"], o
        if fk[0] == "escape":
            what = (f"analysis escaped with an internal error: {o2['etype']} at {o2['site']} ({o2.get('msg', '')[:80]}) — "
                    f"{len(inst)} input(s) on this run")
        else:
            what = (f"text the parser reports as unparsable was not reported as invalid syntax (outcome: {o2['k']}) — "
                    f"{len(inst)} input(s) on this run")
        chk.violation(what, {"kind": "text", "sql": sql, "dialect": c["dialect"], "silent": silent,
                             "failure": list(fk), "origin": c["origin"], "original_sql": c["sql"][:2000],
                             "outcome": {k: v for k, v in o2.items() if k != "result"}})
    return {"cases": len(cases), "distinct_texts": len({c['sql'] for c in cases}), "outcomes": dict(dist),
            "worker_seconds_total": cpu_s, "slowest_cases": slowest,
            "by_origin": dict(sorted(by_origin.items())), "by_dialect": dict(sorted(by_dialect.items())),
            "timeouts": timeouts[:20], "n_timeouts": len(timeouts), "reproducible_hangs": reproducible_hangs,
            "failure_sites": {"|".join(map(str, k)): len(v) for k, v in failures.items()},
            "known_sites_hit": dict(known)}


# ------------------------------------------------------------------------------------------------------------- part B
def part_b(chk, drv, dialects, limit):
    rng = chk.rng
    thorough = chk.tier == "thorough"
    fluff = [d for d in dialects if d != "non-validating"]
    use = fluff if thorough else [d for d in ("ansi", "sparksql", "postgres", "mysql", "snowflake", "tsql", "bigquery") if d in fluff]
    # which candidate statements are "unsupported" (not "invalid syntax", not supported) under which dialect
    probe = [{"sql": u, "dialect": d, "limit": limit} for d in use for u in UNSUPPORTED_CANDIDATES]
    pres = run_pool(probe)
    unsupported = collections.defaultdict(list)
    for c, r in zip(probe, pres):
        if r["loud"]["k"] == "unsupported" and r["silent"]["k"] == "ok":
            unsupported[c["dialect"]].append(c["sql"])
        elif r["loud"]["k"] == "unsupported" and r["silent"]["k"] != "ok":
            # handled by the general classification below through a one-statement script
            unsupported[c["dialect"]].append(c["sql"])
    n_scripts = 260 if thorough else 45
    R = gensql.Rand(rng, max_depth=2, allow={"subq_item": False})
    scripts = []
    for _ in range(n_scripts):
        k = rng.choice([1, 2, 2, 3, 4])
        scripts.append([R.stmt(rng.choice([1, 2])) for _ in range(k)])
    rendered = [a["sql"] for a in drv.ask([{"cmd": "render", "stmts": s} for s in scripts])] if drv is not None else []
    jobs = []      # (script index, dialect, position | None, unsupported text | None)
    cases = []
    for si, (asts, sqls) in enumerate(zip(scripts, rendered)):
        ds = rng.sample(use, min(len(use), 3 if not thorough else 4))
        for d in ds:
            if not unsupported.get(d):
                continue
            u = rng.choice(unsupported[d])
            jobs.append((si, d, None, None))
            cases.append({"sql": ";\n".join(sqls), "dialect": d, "limit": limit, "want_result": True})
            for pos in range(len(sqls) + 1):
                withu = sqls[:pos] + [u] + sqls[pos:]
                jobs.append((si, d, pos, u))
                cases.append({"sql": ";\n".join(withu), "dialect": d, "limit": limit, "want_result": True})
    log(f"[C10] part B: {len(cases)} scripts ({len(scripts)} base scripts), unsupported statements per dialect: "
        f"{ {d: len(v) for d, v in unsupported.items()} }")
    res = run_pool(cases)
    base = {}
    stats = collections.Counter()
    reported = set()
    model_reqs, model_keys = [], []
    for (si, d, pos, u), c, r in zip(jobs, cases, res):
        if pos is None:
            base[(si, d)] = r
    for (si, d, pos, u), c, r in zip(jobs, cases, res):
        if pos is None:
            continue
        b = base[(si, d)]
        chk.count(canon_json(["silent", c["sql"], d]), b["silent"]["k"] == "ok" and bool(
            b["silent"].get("result", {}).get("source") or b["silent"].get("result", {}).get("target")))
        if b["silent"]["k"] != "ok" or b["loud"]["k"] != "ok":
            stats["base-not-ok:" + b["loud"]["k"]] += 1     # the dialect rejects a generated statement: nothing to compare
            continue
        s, l = r["silent"], r["loud"]
        fail = None
        if s["k"] != "ok":
            fail = f"silent mode did not skip the unsupported statement: outcome {s['k']} {s.get('etype', '')} {s.get('site', '')}"
        elif s["result"] != b["silent"]["result"]:
            fail = "silent-mode result differs from the result of the script without the unsupported statement"
        elif not s["warn"]:
            fail = "silent mode skipped the unsupported statement without a warning"
        elif l["k"] != "unsupported":
            fail = f"non-silent mode did not raise UnsupportedStatementException for the script (outcome {l['k']})"
        stats["compared"] += 1
        if fail:
            stats["FAIL"] += 1
            key = fail[:40]
            if key not in reported and len(reported) < 4:
                reported.add(key)
                chk.violation(fail, {"kind": "silent", "dialect": d, "script_without": rendered[si], "unsupported": u, "position": pos,
                                     "with": {"silent": _brief(s), "loud": _brief(l)}, "without": {"silent": _brief(b["silent"])}})
        else:
            stats["agree"] += 1
        if pos == 0 or thorough:
            asts = scripts[si]
            model_reqs.append({"cmd": "sql", "stmts": asts[:pos] + [["unsupported", u]] + asts[pos:], "silent": True})
            model_keys.append((si, d, pos, "with"))
            model_reqs.append({"cmd": "sql", "stmts": asts, "silent": True})
            model_keys.append((si, d, pos, "without"))
    # the model on the same scripts
    if drv is not None and model_reqs:
        ans = drv.ask(model_reqs)
        for i in range(0, len(ans), 2):
            aw, ao = ans[i], ans[i + 1]
            si, d, pos, _ = model_keys[i]
            if "out" not in aw or "out" not in ao:
                raise Infra("model driver error: " + str(aw)[:200])
            stats["model-pairs"] += 1
            mw = aw["out"].get("result"); mo = ao["out"].get("result")
            if mw != mo or "error" in aw["out"]:
                stats["model-neutrality-broken"] += 1
                chk.stale.append({"kind": "model", "why": "model(with unsupported, silent) != model(without)",
                                  "script": rendered[si], "position": pos})
                continue
            b = base[(si, d)]["silent"]
            if b["k"] == "ok" and mo is not None:
                it = sqlcheck.tables_of(b["result"])
                mt = sqlcheck.tables_of(mo)
                if it == mt:
                    stats["model=impl(tables)"] += 1
                else:
                    stats["model!=impl(tables) on the base script (not a C10 matter; see C01/C03)"] += 1
    if len(chk.samples) < 8 and cases:
        j = next((k for k, jb in enumerate(jobs) if jb[2] is not None), None)
        if j is not None:
            chk.sample({"script": cases[j]["sql"][:300], "dialect": cases[j]["dialect"], "silent": _brief(res[j]["silent"]),
                        "loud": _brief(res[j]["loud"])})
    return {"scripts": len(cases), "unsupported_by_dialect": {d: v for d, v in unsupported.items()}, "stats": dict(stats)}


def _brief(o):
    return {k: v for k, v in o.items() if k in ("k", "etype", "site", "msg", "warn", "result", "parse")}


# ---------------------------------------------------------------------------------------------------------------- run
def listed_dialects():
    from sqllineage.runner import LineageRunner
    out = []
    for _, ds in LineageRunner.supported_dialects().items():
        out.extend(ds)
    return out


def run(chk):
    drv = None
    if chk.lean.driver_ok:
        drv = Driver()
    else:
        chk.stale.append({"kind": "driver", "why": "model driver does not build"})
    thorough = chk.tier == "thorough"
    limit = 45.0 if thorough else 20.0
    dialects = listed_dialects()
    corpus = corpus10.harvest(common.REPO)
    if len(corpus) < 100:
        raise Infra(f"corpus harvest from {common.REPO}/tests found only {len(corpus)} texts")
    # stored witnesses of the listed findings are replayed first (DESIGN 2.5 step 7)
    for e in chk.findings:
        if e.get("status") != "finding" or "witness" not in e:
            continue
        w = e["witness"]
        o = run_one(w["sql"], w["dialect"], bool(w.get("silent", False)), limit)
        if failure_of(o) == "escape" and known_site(chk, o, w["dialect"]) == e["id"]:
            chk.known(e["id"])
        elif e.get("order_sensitive") and failure_of(o) is None:
            pass        # the outcome of this finding depends on set iteration order (hash seed): not failing is also as recorded
        else:
            chk.stale.append({"kind": "finding", "id": e["id"], "why": "the recorded witness no longer fails as recorded",
                              "witness": w, "now": _brief(o)})
    a = part_a(chk, drv, dialects, corpus, limit)
    b = part_b(chk, drv, dialects, limit) if drv is not None else {}
    h = part_history(chk, dialects)
    sqlimpl.close_pool()
    chk.coverage.update({"part_a": a, "part_b": b, "part_history": h, "dialects": dialects, "corpus_texts": len(corpus),
                         "corpus_calls_skipped": corpus10.harvest.skipped, "per_case_limit_s": limit, "exhaustive": False})
    chk.assumptions += [
        "totality of sqlfluff/sqlparse/networkx themselves is outside any model: the text-level part of the property is covered by "
        "this seeded search, not by proof",
        "a run that exceeds the per-case time limit is counted and listed (timeouts), not reported as a violation",
        "UPDATE / MERGE / COPY / SELECT INTO and the vertica handler are not in the typed AST: their totality is covered only by the search",
    ]
    return chk.finish(
        level="proof",
        rule="seeded search over texts: harvested corpus (tests + tpcds) under own and foreign dialects, token-level mutants "
             "(delete/dup/swap/insert/replace/nest/unbalance/long/cross-over, 1-3 steps), Lean-rendered generated statements with one "
             "token damaged, hand-written special-case statements under every dialect, bracket nesting to 30, metacharacter sweeps; "
             "each (text, dialect) under silent in {False, True}, all accessors touched; plus silent-mode scripts x insertion position. "
             "distinct = distinct (text, dialect, silent); non-trivial = the text got past the parser (result, unsupported, lineage "
             "error or internal error) — for silent scripts: the base script has a non-empty table summary",
        trusted_base=["Lean 4.33 kernel", "axioms: propext, Classical.choice, Quot.sound", "tools/translate.py (Gen/Dispatch.lean)",
                      "harness/c10.py + sqlimpl.classify_exception (exception class, call site)",
                      "sqlfluff / sqlparse / networkx: exercised, not modelled"])


def replay(chk, obj):
    r = obj["replay"]
    if r.get("kind") == "text":
        o = run_one(r["sql"], r["dialect"], bool(r.get("silent")), 60.0)
        print(json.dumps({"sql": r["sql"], "dialect": r["dialect"], "silent": bool(r.get("silent")), "outcome": _brief(o)}, indent=1))
        f = failure_of(o)
        if f == "escape":
            chk.findings = [e for e in common.load_known_findings() if e.get("property") == "C10"]
            return 0 if known_site(chk, o, r["dialect"]) else 1
        return 1 if f else 0
    if r.get("kind") == "history":
        o = work_history({"sql": r["sql"], "dialect": r["dialect"]})
        print(json.dumps({k: _brief(v) for k, v in o.items()}, indent=1))
        return 1 if (o["alone"]["k"] != o["after"]["k"] or (o["alone"]["k"] == "invalidSyntax" and o["after_silent"]["k"] != "invalidSyntax")) else 0
    if r.get("kind") == "silent":
        d, u, pos = r["dialect"], r["unsupported"], r["position"]
        sqls = list(r["script_without"])
        w = run_one(";\n".join(sqls[:pos] + [u] + sqls[pos:]), d, True, 60.0, want_result=True)
        wl = run_one(";\n".join(sqls[:pos] + [u] + sqls[pos:]), d, False, 60.0)
        b = run_one(";\n".join(sqls), d, True, 60.0, want_result=True)
        bad = (w["k"] != "ok" or b["k"] != "ok" or w.get("result") != b.get("result") or not w["warn"] or wl["k"] != "unsupported")
        print(json.dumps({"with": _brief(w), "with_non_silent": _brief(wl), "without": _brief(b), "fails": bad}, indent=1)[:3000])
        return 1 if bad else 0
    print("replay file names no concrete input:", json.dumps(r)[:1500])
    return 1
