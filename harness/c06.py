"""C06 — column lineage is well-formed and consistent with table lineage.

The invariant monitor (`harness/monitor.py`, implementation only, no model) is evaluated on every analysis result produced from
  (a) the harvested corpus (`harness/corpus.py`: every (sql, dialect, metadata) of the repository's test-suite — 21 dialects incl. the
      sqlparse analyser — and the 99 bundled TPC-DS queries),
  (b) the single-statement generators of C01/C02 (`gensql.enumerate_shapes`, `gensql.Rand`) rendered by Lean, under several dialects,
  (c) the chained 2-4 statement scripts of C04 (`c04.gen_cases`), with and without a metadata provider;
for (b) and (c) the reported paths are also compared with the Lean model (`Paths.columnLineage` of the model graph), about which
`Props/C06.lean` proves the path clauses for every graph.

Classification: a monitor failure is a failing input by itself.  It is counted under a recorded finding only when BOTH its failure
class and a shape predicate on the input match the finding (known_findings.json, property C06: D2, D11, D32, D33); anything else is a
VIOLATION with the SQL as replay.  impl != model with a clean monitor is a stale correspondence (`no-failing-input-found`).
"""
import collections
import json
import os
import re

import c02
import c04
import corpus
import gensql
import monitor
import sqlcheck
import sqlimpl
from common import Check, Driver, Infra, canon_json, log

NOT_IN_LINEAGE = "first column's table is not in table lineage as source or intermediate"
NOT_CONNECTED = "table graph does not connect the first column's table to the last column's table"
LAST_NOT_TARGET = "last column's table is neither target nor intermediate"
OWNER_EDGE = "HAS_COLUMN edge from a node that is not the column's owner"
HOLDER_NOT_PROJ = monitor.HOLDER_NOT_PROJ   # the statement-level form of NOT_IN_LINEAGE (hypothesis HolderOK of Props.C06.fold_projects)

RE_RENAME = re.compile(r"(?is)\balter\s+table\s+([^\s;]+)\s+rename\s+to\s+([^\s;]+)|\brename\s+table\s+([^\s;]+)\s+to\s+([^\s;,]+)")
RE_LATERAL = re.compile(r"(?is)\blateral\s+view\s+(?:outer\s+)?[\w.]+\s*\(.*?\)\s*(\w+)\s+as\b")
# a parenthesised SELECT between a SELECT keyword and its FROM (text-level stand-in for `gensql.item_has_subq` on corpus SQL)
RE_ITEM_SUBQ = re.compile(r"(?is)\bselect\b(?:(?!\bfrom\b).)*?\(\s*select\b")


def _raw(table_printed):
    return table_printed.rsplit(".", 1)[-1].strip('`"[]').lower()


def _tables_of(f):
    d = f["detail"]
    out = []
    for k in ("table", "parent"):
        if isinstance(d.get(k), str):
            out.append(d[k])
    out += [t for t in d.get("tables", []) if isinstance(t, str)]
    out += [t for t in d.get("owners", []) if isinstance(t, str)]
    return out


def mixes_comma_and_join(stmt):
    """a FROM list with >= 2 comma-separated from-expressions one of which has a join clause (the D1 class of C01)"""
    for n in gensql._walk(stmt):
        if isinstance(n, list) and n and n[0] == "select" and len(n) == 7:
            if len(n[3]) > 1 and any(fe[1] for fe in n[3]):
                return True
    return False


def classify(f, sql_text, ast=None, d11_names=None, dialect=None):
    """finding id (property C06) a monitor failure belongs to, or None"""
    cls = f["class"]
    tabs = [_raw(t) for t in _tables_of(f)]
    # D33: a table renamed after column lineage was recorded keeps its columns under the old name
    if cls in (NOT_IN_LINEAGE, NOT_CONNECTED, LAST_NOT_TARGET, OWNER_EDGE):
        names = set()
        for m in RE_RENAME.finditer(sql_text):
            for g in m.groups():
                if g:
                    names.add(_raw(g))
        if names and any(t in names for t in tabs):
            return "D33"
    # D32: a qualifier that names no table of the statement (LATERAL VIEW alias): `Table(qualifier)` fallback
    if cls in (NOT_IN_LINEAGE, HOLDER_NOT_PROJ):
        aliases = {m.group(1).lower() for m in RE_LATERAL.finditer(sql_text)}
        if aliases and any(t in aliases for t in tabs):
            return "D32"
    # D1p: the sqlparse analyser still loses the relations after a comma that follows an explicit JOIN (D1, repaired for sqlfluff only)
    if cls in (NOT_IN_LINEAGE, NOT_CONNECTED, HOLDER_NOT_PROJ) and dialect == "non-validating" and ast is not None and any(mixes_comma_and_join(s) for s in ast):
        return "D1p"
    # D2: subquery inside a select item: its columns are column sources but its tables are not in table lineage
    if cls in (NOT_IN_LINEAGE, NOT_CONNECTED, HOLDER_NOT_PROJ):
        if (ast is not None and any(gensql.item_has_subq(s) for s in ast)) or (ast is None and RE_ITEM_SUBQ.search(sql_text)):
            return "D2"
    # D11: unresolved same-named columns of different statements are one node
    if cls in c04.PROJECTION_CLASSES and d11_names:
        p = f["detail"].get("path")
        if p and p[0].rsplit(".", 1)[-1] in d11_names:
            return "D11"
    return None


def d11_names_of(sql_list, dialect):
    """names of unresolved columns that clash between statements (each statement analysed alone, no provider)"""
    if len(sql_list) < 2:
        return []
    runs = c04.run_scripts([{"sql": [s], "dialect": dialect, "metadata": None} for s in sql_list])
    un = collections.defaultdict(set)
    for k, a in enumerate(runs):
        if "result" in a:
            for name, cands in a["result"]["unresolved"]:
                un[name].add((k, tuple(cands)))
    return sorted(nm for nm, v in un.items() if len({c for _, c in v}) > 1 and len({k for k, _ in v}) > 1)


def split_statements(sql, dialect):
    try:
        from sqllineage.utils.helpers import split
        return [s for s in split(sql.strip()) if s.strip()]
    except Exception:  # noqa
        return [sql]


def handle_fails(chk, st, fails, rec, ast=None):
    """classify the monitor failures of one result; returns False when a violation was recorded"""
    if not fails:
        return True
    sql_text = rec["sql"] if isinstance(rec["sql"], str) else ";\n".join(rec["sql"])
    listed = {e["id"] for e in chk.findings if e.get("status") == "finding"}
    d11 = None
    unknown = []
    hit = collections.Counter()
    for f in fails:
        fid = classify(f, sql_text, ast, None, rec["dialect"])
        if fid is None and f["class"] in c04.PROJECTION_CLASSES:
            if d11 is None:
                stmts = rec["sql"] if isinstance(rec["sql"], list) else split_statements(rec["sql"], rec["dialect"])
                d11 = d11_names_of(stmts, rec["dialect"])
            fid = classify(f, sql_text, ast, d11, rec["dialect"])
        if fid is not None and fid in listed:
            hit[fid] += 1
        else:
            unknown.append(f)
    for fid in hit:
        chk.known(fid)
        st.c["known:" + fid] += 1
    if unknown:
        chk.violation("an analysis result is not well-formed / not consistent with table lineage: " + unknown[0]["class"],
                      dict(rec, kind="monitor", failures=unknown[:8]))
        return False
    return True


class Enumeration:
    """direct correspondence of the path enumeration: `Paths.columnLineage` (Lean, about which Props/C06 proves the path clauses for
    every graph) run on the IMPLEMENTATION's own combined graph must return exactly the paths `get_column_lineage` returned
    (default arguments and exclude_subquery_columns=True).  Independent of the extractor model."""

    def __init__(self, chk, drv, st):
        self.chk, self.drv, self.st = chk, drv, st
        self.pending = []

    def add(self, rec, export):
        self.pending.append((rec, export))
        if len(self.pending) >= 400:
            self.flush()

    def flush(self):
        if not self.pending:
            return
        reqs = []
        for _, ex in self.pending:
            reqs.append({"cmd": "chainpaths", "nodes": ex["nodes"], "edges": ex["edges"]})
            reqs.append({"cmd": "chainpaths", "nodes": ex["nodes"], "edges": ex["edges"], "excl_sub": True})
        ans = self.drv.ask(reqs)
        for k, (rec, ex) in enumerate(self.pending):
            a, b = ans[2 * k], ans[2 * k + 1]
            if "error" in a or "error" in b:
                raise Infra("model driver error (chainpaths): " + str(a.get("error") or b.get("error")))
            self.st.c["enum:compared"] += 1
            if a["dup"]:
                # two distinct implementation nodes with one model key: the immutable model cannot hold this graph
                self.st.c["enum:nodes-collide-in-model"] += 1
                if len(self.chk.stale) < 10:
                    self.chk.stale.append(dict(rec, kind="enumeration", why="two implementation nodes map to the same model node"))
                continue
            if sorted(a["paths"]) != ex["paths"] or sorted(b["paths"]) != ex["paths_excl_sub"]:
                self.st.c["enum:impl!=model"] += 1
                if len(self.chk.stale) < 10:
                    self.chk.stale.append(dict(rec, kind="enumeration", impl_paths=ex["paths"][:20], model_paths=sorted(a["paths"])[:20],
                                               impl_paths_excl_sub=ex["paths_excl_sub"][:20], model_paths_excl_sub=sorted(b["paths"])[:20],
                                               nodes=ex["nodes"] if len(ex["nodes"]) < 40 else "(large)"))
            else:
                self.st.c["enum:agree"] += 1
        self.pending = []


# ------------------------------------------------------------------------------------------------ parts
def part_corpus(chk, st, enum):
    cs = corpus.load_corpus()
    if chk.tier == "quick":
        # the sqlparse analyser and the sqlfluff dialect produce the same graph shapes on most texts: keep every sqlfluff case and
        # every case with metadata, and a seeded half of the sqlparse duplicates
        cs = [c for c in cs if c["dialect"] != corpus.SQLPARSE_DIALECT or c["metadata"] or chk.rng.random() < 0.5]
    res = monitor.run_cases([{"sql": c["sql"], "dialect": c["dialect"], "metadata": c["metadata"], "export": True} for c in cs])
    n = 0
    for c, r in zip(cs, res):
        if "rejected" in r:
            st.reject[c["dialect"]] += 1
            continue
        if "error" in r:
            st.c["corpus:" + r["error"]] += 1
            continue
        n += 1
        st.accept[c["dialect"]] += 1
        chk.count("corpus:" + canon_json([c["sql"], c["dialect"], c["metadata"]]), bool(r["paths"]))
        if n % 150 == 1 and r["paths"]:
            chk.sample({"origin": c["origin"], "dialect": c["dialect"], "paths": r["paths"][:3], "graph_nodes": r["n_nodes"]})
        rec = {"sql": c["sql"], "dialect": c["dialect"], "metadata": c["metadata"], "origin": c["origin"]}
        if not handle_fails(chk, st, r["fails"], rec):
            return False
        enum.add(rec, r["export"])
    st.c["corpus-results"] = n
    return True


def has_using(stmt):
    """a JOIN … USING (…) somewhere in the statement"""
    for n in gensql._walk(stmt):
        if isinstance(n, list) and len(n) == 4 and isinstance(n[0], str) and n[0].endswith("join") and isinstance(n[3], list) and n[3]:
            return True
    return False


def gen_statements(chk):
    cases = []
    depth = 2 if chk.tier == "thorough" else 1
    for name, s in gensql.enumerate_shapes(depth):
        cases.append((name, s))
    n_rand = 1500 if chk.tier == "thorough" else 220
    R = gensql.Rand(chk.rng, max_depth=3 if chk.tier == "thorough" else 2)
    for i in range(n_rand):
        d = chk.rng.choice([1, 2, 2, 3, 4]) if chk.tier == "thorough" else chk.rng.choice([1, 2, 2])
        cases.append((f"rand-{i}", R.stmt(d)))
    return cases


THOROUGH_RANDOM_DIALECTS = ["ansi", "sparksql", "tsql", "bigquery", "postgres", "snowflake", "mysql", "hive", "redshift", "non-validating"]


PROJECTION_FAIL_CLASSES = (NOT_IN_LINEAGE, NOT_CONNECTED, LAST_NOT_TARGET, HOLDER_NOT_PROJ)


def stmtok_flags(asts):
    """which statements satisfy the hypothesis `StmtOK` of the Lean projection theorems (Props.C06.stmtOKb, evaluated by
    lean/StmtOk.lean in ONE interpreter run); None when the evaluator is not available - then the tie is reported as not run"""
    import subprocess
    lean_dir = os.path.join(os.path.dirname(os.path.dirname(os.path.abspath(__file__))), "lean")
    try:
        p = subprocess.run(["lake", "env", "lean", "--run", "StmtOk.lean"], cwd=lean_dir, input="\n".join(json.dumps(a) for a in asts) + "\n",
                           capture_output=True, text=True, timeout=600)
        lines = p.stdout.split()
        if p.returncode != 0 or len(lines) != len(asts):
            log(f"[c06] StmtOk evaluator unavailable (rc={p.returncode}, {len(lines)}/{len(asts)} answers): {p.stderr[-300:]}")
            return None
        return [x == "1" for x in lines]
    except Exception as e:  # noqa
        log(f"[c06] StmtOk evaluator unavailable: {type(e).__name__}")
        return None


def part_statements(chk, drv, st, dialects, enum):
    cases = gen_statements(chk)
    flags = stmtok_flags([s for _, s in cases])
    st.c["theorem-fragment:evaluator"] = "ran" if flags is not None else "not run"
    if flags is not None:
        st.c["theorem-fragment:statements"] = sum(flags)
    ans1 = sqlcheck.model_eval(drv, [[s] for _, s in cases])
    ans2 = sqlcheck.model_eval(drv, [[s] for _, s in cases], rev_star=1)
    if chk.tier == "thorough":
        # budget (<= ~20 min): the 5 954 enumerated depth-2 shapes under ansi + sqlparse, the random statements under 10 dialects
        jobs = [(ci, d) for ci in range(len(cases))
                for d in (THOROUGH_RANDOM_DIALECTS if cases[ci][0].startswith("rand-") else ["ansi", "non-validating"])]
    else:
        jobs = [(ci, d) for ci in range(len(cases)) for d in dialects]
    res = monitor.run_cases([{"sql": ans1[ci]["sql"][0], "dialect": d, "export": True} for ci, d in jobs], chunksize=16)
    outcome_cache = {}
    for (ci, d), r in zip(jobs, res):
        name, s = cases[ci]
        sql = ans1[ci]["sql"][0]
        if "rejected" in r:
            st.reject[d] += 1
            continue
        if d == "tsql" and has_using(s):
            # T-SQL has no JOIN … USING: sqlfluff's tsql grammar accepts the text but reads USING as the alias of the joined relation,
            # so qualifiers naming that relation fall back to Table(qualifier).  Not SQL of that dialect: counted like a rejection.
            st.c["stmt:not-in-dialect(tsql JOIN USING)"] += 1
            continue
        st.accept[d] += 1
        if "error" in r:
            st.c["stmt:" + r["error"]] += 1
            continue
        chk.count("stmt:" + canon_json([sql, d]), bool(r["paths"]))
        if flags is not None and flags[ci] and d != "non-validating":
            # inside the fragment of Props.C06.script_path_roles_flat_partial the model projects: the implementation must too, and no
            # known-finding class may be invoked - a projection failure here means the model no longer describes the code
            st.c["theorem-fragment:cases"] += 1
            bad = [f for f in r["fails"] if f["class"] in PROJECTION_FAIL_CLASSES]
            if bad:
                st.c["theorem-fragment:projection-failures"] += 1
                if len(chk.stale) < 10:
                    chk.stale.append({"kind": "theorem-fragment", "theorem": "Props.C06.script_path_roles_flat_partial / stmtOK_holder",
                                      "sql": sql, "dialect": d, "ast": s, "failures": bad[:4]})
        if not handle_fails(chk, st, r["fails"], {"sql": sql, "dialect": d, "ast": s}, ast=[s]):
            return False
        enum.add({"sql": sql, "dialect": d}, r["export"])
        # extractor-level comparison (C02's subject; here only counted: C06's theorems are about the enumeration on ANY graph, which
        # `Enumeration` ties to the code directly)
        if d == "non-validating" or gensql.item_has_subq(s):
            st.c["stmt:walk-model-skipped"] += 1
            continue
        ip = r["paths"]
        m1, m2 = c02.model_paths(ans1[ci]), c02.model_paths(ans2[ci])
        if ip != m1 and ip != m2:
            if ci not in outcome_cache:
                outcome_cache[ci] = c02.star_outcomes(drv, s)[0]
            if c02.agrees_modulo_order(ip, outcome_cache[ci]):
                m2 = ip
        if ip == m1 or ip == m2:
            st.c["stmt:walk-model-agrees"] += 1
        elif name.startswith("rand-"):
            st.c["stmt:walk-model-differs(random statement, C02 territory)"] += 1
        else:
            st.c["stmt:walk-model-differs"] += 1
            if len(chk.stale) < 10:
                chk.stale.append({"kind": "statement", "sql": sql, "dialect": d, "ast": s, "impl_paths": ip, "model_paths": m1})
    st.c["statements"] = len(cases)
    return True


def part_chains(chk, drv, st, dialects, enum):
    cases = c04.gen_cases(chk)
    if chk.tier == "quick":
        cases = [c for i, c in enumerate(cases) if i % 2 == chk.seed % 2 or c["name"].startswith("two_joins")]
    a0 = c04.model_chain(drv, cases, 0)
    a1 = c04.model_chain(drv, cases, 1)
    jobs = [(ci, d) for ci in range(len(cases)) for d in dialects]
    res = c04.run_scripts([{"sql": a0[ci]["sql"], "dialect": d, "metadata": cases[ci]["metadata"], "export": True} for ci, d in jobs])
    for (ci, d), r in zip(jobs, res):
        case = cases[ci]
        if "rejected" in r:
            st.reject[d] += 1
            continue
        st.accept[d] += 1
        if "result" not in r:
            st.c["chain:" + r.get("error", "?")] += 1
            continue
        chk.count("chain:" + canon_json([a0[ci]["sql"], d, case["metadata"]]), any(len(p) > 2 for p in r["result"]["paths"]))
        rec = {"sql": a0[ci]["sql"], "dialect": d, "metadata": case["metadata"], "name": case["name"]}
        if not handle_fails(chk, st, r["result"]["monitor"], rec, ast=case["stmts"]):
            return False
        enum.add(rec, r["result"]["export"])
        if d == "non-validating":
            # the walk model is a model of the sqlfluff extractors; the sqlparse analyser is only monitored
            st.c["chain:walk-model-skipped(sqlparse)"] += 1
            continue
        dis = c04.compare_with_model(drv, case, a0[ci], a1[ci], r)
        if dis is None:
            st.c["chain:agree"] += 1
        else:
            st.c["chain:impl!=model"] += 1
            if len(chk.stale) < 10:
                chk.stale.append(dict(rec, kind="chain", disagreement=dis))
    st.c["chains"] = len(cases)
    return True


HISTORY_STATEMENTS = [
    "insert into m select a, b from s",
    "insert into f select a from m",
    "create table f2 as select b as x from m",
    "select a from m",                                   # a plain SELECT of what other statements write / read
    "select a, b from s",
    "insert into t (a, b) values (1, 2)",               # write-only statements that record columns
    "update t set a = b",
    "create table t (a int, b int)",
    "insert into m (a, b) values (1, 2)",
    "drop table s", "drop table m", "drop table f", "drop table t",
]


def part_histories(chk, st, dialects, enum):
    """every script of <= 3 (thorough: <= 4) statements over HISTORY_STATEMENTS — chained writes, plain SELECTs of the
    intermediate, write-only statements that record columns, DROP of a table in every role — under the monitor (the projection
    clauses relate column paths to the roles the SCRIPT gives the tables, so they need histories, not single statements)"""
    import itertools
    n = 4 if chk.tier == "thorough" else 3
    scripts = [list(c) for k in range(2, n + 1) for c in itertools.product(HISTORY_STATEMENTS, repeat=k)
               if any(x.startswith(("insert into m select", "insert into f", "create table f2", "update", "insert into t", "create table t"))
                      for x in c)]
    if chk.tier == "thorough":
        # length 4: a seeded sample (13^4 = 28 561 scripts x dialects is beyond the budget), every shorter script
        short = [c for c in scripts if len(c) < 4]
        long_ = [c for c in scripts if len(c) == 4]
        chk.rng.shuffle(long_)
        scripts = short + long_[:6000]
    jobs = [(si, d) for si in range(len(scripts)) for d in dialects]
    res = monitor.run_cases([{"sql": scripts[si], "dialect": d, "metadata": None, "export": True} for si, d in jobs], chunksize=16)
    for (si, d), r in zip(jobs, res):
        if "rejected" in r:
            st.reject[d] += 1
            continue
        if "error" in r:
            st.c["history:" + r["error"]] += 1
            continue
        st.accept[d] += 1
        chk.count("history:" + canon_json([scripts[si], d]), bool(r["paths"]))
        rec = {"sql": scripts[si], "dialect": d, "metadata": None, "name": "history"}
        if not handle_fails(chk, st, r["fails"], rec):
            return False
        enum.add(rec, r["export"])
    st.c["histories"] = len(scripts)
    return True


# text id -> finding whose consequence for the projection clause is listed under C06
TEXT_FINDINGS = {"join-paren-nested": "K6"}


def part_texts(chk, st, enum):
    """the text family of C09 (constructs outside the typed AST: join spellings, alias column lists, UPDATE / MERGE / COPY spellings)
    under the monitor, a handful of dialects"""
    import c09_texts
    dialects = ["ansi", "postgres", "sparksql", "tsql", "mysql", "snowflake", "non-validating"]
    jobs = [(tid, sql, d) for tid, sql in c09_texts.TEXTS for d in dialects]
    res = monitor.run_cases([{"sql": sql, "dialect": d, "metadata": None, "export": True} for _, sql, d in jobs], chunksize=16)
    for (tid, sql, d), r in zip(jobs, res):
        if "rejected" in r:
            st.reject[d] += 1
            continue
        if "error" in r:
            st.c["texts:" + r["error"]] += 1
            continue
        st.accept[d] += 1
        chk.count("text:" + canon_json([sql, d]), bool(r["paths"]))
        rec = {"sql": sql, "dialect": d, "metadata": None, "name": "text/" + tid}
        fails = r["fails"]
        fid = TEXT_FINDINGS.get(tid)
        if fid and chk.finding(fid) and fails and all(f["class"] in (NOT_IN_LINEAGE, NOT_CONNECTED, HOLDER_NOT_PROJ) for f in fails):
            chk.known(fid)
            st.c["known:" + fid] += 1
            fails = []
        if not handle_fails(chk, st, fails, rec):
            return False
        enum.add(rec, r["export"])
    st.c["texts"] = len(c09_texts.TEXTS)
    return True


def replay_known(chk, st):
    """the stored witness of every recorded finding is replayed first (DESIGN §2.5 step 7)"""
    for e in chk.findings:
        if e.get("status") != "finding":
            continue
        w = e["witness"]
        r = monitor.run_case({"sql": w["sql"], "dialect": w.get("dialect", "ansi"), "metadata": w.get("metadata")})
        chk.count("witness:" + e["id"], True)
        fails = r.get("fails", [])
        sql_text = w["sql"] if isinstance(w["sql"], str) else ";\n".join(w["sql"])
        stmts = w["sql"] if isinstance(w["sql"], list) else split_statements(w["sql"], w.get("dialect", "ansi"))
        d11 = d11_names_of(stmts, w.get("dialect", "ansi")) if e["id"] == "D11" else None
        ids = {classify(f, sql_text, [w["ast"]] if w.get("ast") else None, d11, w.get("dialect", "ansi")) for f in fails}
        if e["id"] in TEXT_FINDINGS.values() and fails and all(f["class"] in (NOT_IN_LINEAGE, NOT_CONNECTED, HOLDER_NOT_PROJ) for f in fails):
            ids.add(e["id"])
        if e["id"] in ids:
            chk.known(e["id"])
        else:
            chk.stale.append({"kind": "finding-witness", "id": e["id"], "why": "the recorded witness no longer fails as recorded",
                              "result": {k: r.get(k) for k in ("fails", "paths", "error", "rejected")}})


def run(chk):
    if not chk.lean.driver_ok:
        chk.stale.append({"kind": "driver", "why": "model driver does not build"})
        return chk.finish(level="proof", rule="driver unavailable")
    drv = Driver()
    st = sqlcheck.Stats()
    thorough = chk.tier == "thorough"
    stmt_dialects = THOROUGH_RANDOM_DIALECTS if thorough else ["ansi", "sparksql", "tsql", "non-validating"]
    chain_dialects = ["ansi", "sparksql", "bigquery", "non-validating"] if thorough else ["ansi", "non-validating"]
    enum = Enumeration(chk, drv, st)
    replay_known(chk, st)
    ok = part_corpus(chk, st, enum)
    ok = ok and part_statements(chk, drv, st, stmt_dialects, enum)
    ok = ok and part_chains(chk, drv, st, chain_dialects, enum)
    ok = ok and part_histories(chk, st, ["ansi", "non-validating"], enum)
    ok = ok and part_texts(chk, st, enum)
    enum.flush()
    sqlimpl.close_pool()
    chk.coverage.update({"exhaustive": False, "distribution": st.as_dict(), "statement_dialects": stmt_dialects,
                         "chain_dialects": chain_dialects})
    chk.assumptions += ["the projection onto table lineage is proved for every history of holders that satisfy Projection.HolderOK "
                        "(Props.C06.fold_projects) and, at statement level, for the flat write fragment only; HolderOK is evaluated on the "
                        "implementation's statement holders of every input (monitor.check_holders); outside the fragment the projection and "
                        "node retrievability (Python object identity) are checked on implementation results, not proved",
                        "text -> tree (sqlfluff / sqlparse) is not modelled"]
    return chk.finish(
        level="proof",
        rule="C06 monitor (every path edge by edge, roots/leaves, >= 1 hop, no repeated node, projection onto table roles and table graph, "
             "HolderOK of every statement holder, "
             "node retrievability by eq/hash incl. rebuilt objects, single owner) on every result of: harvested test-suite corpus (all "
             "its dialects + sqlparse; quick: a seeded half of the sqlparse duplicates) + 99 TPC-DS queries; enumerate_shapes + seeded "
             "random statements under the listed dialects; C04's chained scripts with/without provider; paths of generated inputs also "
             "compared with the Lean model. non-trivial = the result has at least one column path (chains: a path with >= 2 hops); "
             "distinct by (SQL, dialect, metadata)",
        trusted_base=["Lean 4.33 kernel", "axioms: propext, Classical.choice, Quot.sound", "harness/monitor.py (the oracle)",
                      "harness/corpus.py, c06.py, c04.py, sqlimpl.py"])


def replay(chk, obj):
    r = obj["replay"]
    if r.get("kind") == "monitor":
        out = monitor.run_case({"sql": r["sql"], "dialect": r["dialect"], "metadata": r.get("metadata")})
        fails = out.get("fails", [])
        sql_text = r["sql"] if isinstance(r["sql"], str) else ";\n".join(r["sql"])
        stmts = r["sql"] if isinstance(r["sql"], list) else split_statements(r["sql"], r["dialect"])
        ast = r.get("ast")
        left = []
        d11 = None
        for f in fails:
            fid = classify(f, sql_text, [ast] if ast else None, None, r["dialect"])
            if fid is None and f["class"] in c04.PROJECTION_CLASSES:
                d11 = d11 if d11 is not None else d11_names_of(stmts, r["dialect"])
                fid = classify(f, sql_text, [ast] if ast else None, d11, r["dialect"])
            if fid is None or chk.finding(fid) is None:
                left.append(f)
        print(json.dumps({"sql": r["sql"], "dialect": r["dialect"], "failures": left, "outcome": {k: out.get(k) for k in ("error", "rejected")}},
                         indent=1, default=str))
        sqlimpl.close_pool()
        return 1 if left else 0
    print("replay file names no concrete input:", json.dumps(r)[:800])
    return 1
