"""C09 — dialects and both parsers agree on core SQL.

Level: TRANSLATION VALIDATION of generated programs.  The Lean side proves only the reduction (`Props/C09.lean`: the model takes
no dialect; agreement with one reference implies pairwise agreement) and structural facts about the tree shape the typed AST
stands for; nothing about ~30 third-party grammars can be proved.  Per generated core statement (keyword-free identifiers,
rendered by Lean) this check validates, on the real code:

 (a) SHAPE CORRESPONDENCE — for every installed sqlfluff dialect that parses the text, the tree the analyzer actually received
     (tapped at `Linter.parse_string`), normalised (whitespace / comments / meta / keywords / symbols dropped; `function_name`
     and `data_type` opaque), equals the shape Lean derives from the AST (`Model/Shape.lean`) modulo an explicit, counted
     allow-list of per-dialect normalisations (`SHAPE_RULES`).  A difference outside the allow-list is reported in the evidence
     with its dialect and position (it is a fact about the third-party grammar, never by itself a violation);
 (b) AGREEMENT — table lineage and the complete set of column paths are identical under every accepting dialect (each compared
     with the first accepting one, ansi when it accepts; `subquery_<hash>` masked), and `dialect="non-validating"` reports the
     same TABLE lineage.  The oracle is implementation vs implementation; the model is not consulted;
 (c) the tsql batch path: a script of core statements gives the same result under ansi, under tsql, and under tsql with
     TSQL_NO_SEMICOLON (statements separated by newlines only, split by `split_tsql`).

A disagreement of analyzer A on a statement is accepted only if the statement lies in a syntactic class (Lean:
`Spec/Agreement.lean`, `Spec.deviations`) that known_findings.json lists for A; otherwise it is shrunk on the AST (staying
outside the listed classes) and reported as a VIOLATION.
"""
import collections
import copy
import json
import os
import time
import warnings

import c09_texts
import gensql
import sqlcheck
import sqlimpl
from common import Check, Driver, Infra, canon_json, log

LEGACY = "non-validating"
QUICK_DIALECTS = ["ansi", "sparksql", "tsql", "bigquery", "mysql", "postgres", "snowflake", "oracle"]

# identifiers of the shared generator's pools that SOME dialect reads as a keyword in some position: not "keyword-free", replaced
# before rendering.  snowflake: `d` (date-part abbreviation) as a bare function argument is a `raw` token, not a column_reference.
NON_CORE_IDENTIFIERS = {"d": "d1"}

# class id -> analyzers (dialect labels or LEGACY) for which a disagreement on a statement of that class is a listed finding
CLASS_ANALYZERS = {
    "K1": ["clickhouse"], "K4": ["oracle"],
    "L1": [LEGACY], "L2": [LEGACY], "L3": [LEGACY], "L4": [LEGACY], "L5": [LEGACY], "L6": [LEGACY], "L8": [LEGACY],
    # C01 classes: the sqlfluff analyzer itself deviates from the specification there; the legacy analyzer need not deviate alike
    # (D2w / D5 / D7 are not produced by the generator; a disagreement there would be reported)
    "D2": [LEGACY], "D3": [LEGACY], "D4": [LEGACY],
}
LEGACY_C01 = {"D2", "D3", "D4"}


# ------------------------------------------------------------------------------------------------ generator
def keyword_free(n):
    """replace column names some dialect treats as a keyword (column references, USING lists, explicit column lists)"""
    if isinstance(n, list):
        if len(n) == 3 and n[0] == "col" and isinstance(n[2], str):
            return ["col", n[1], NON_CORE_IDENTIFIERS.get(n[2], n[2])]
        return [keyword_free(x) for x in n]
    return n


def _fix_using(n):
    if isinstance(n, list):
        if len(n) == 4 and isinstance(n[0], str) and isinstance(n[3], list) and isinstance(n[1], list) and n[1] and n[1][0] in ("table", "derived"):
            return [n[0], _fix_using(n[1]), _fix_using(n[2]), [NON_CORE_IDENTIFIERS.get(c, c) for c in n[3]]]
        return [_fix_using(x) for x in n]
    return n


def sanitise(stmt):
    return _fix_using(keyword_free(stmt))


PROFILES = (
    # name, feature switches, share
    ("plain", {"subq_item": False, "subq_having": False, "subq_on": False, "mixed_comma_join": False, "window": False}, 0.4),
    ("frag", {"subq_item": False, "subq_having": False, "subq_on": False}, 0.3),
    ("any", {}, 0.3),
)


def gen_cases(chk):
    thorough = chk.tier == "thorough"
    cases = []
    shapes = list(gensql.enumerate_shapes(1))
    if thorough:
        shapes2 = list(gensql.enumerate_shapes(2))
        seen = {repr(s) for _, s in shapes}
        extra = [(n, s) for n, s in shapes2 if repr(s) not in seen]
        shapes = shapes[::4] + chk.rng.sample(extra, min(120, len(extra)))
    else:
        shapes = chk.rng.sample(shapes, 110)
    cases += [("shape:" + n, s) for n, s in shapes]
    n_rand = 520 if thorough else 190
    for prof, allow, share in PROFILES:
        R = gensql.Rand(chk.rng, max_depth=3 if thorough else 2, allow=allow)
        for i in range(int(n_rand * share)):
            d = chk.rng.choice([1, 2, 2, 3]) if thorough else chk.rng.choice([1, 2])
            cases.append((f"rand-{prof}-{i}", R.stmt(d)))
    return [(n, sanitise(s)) for n, s in cases]


def gen_scripts(chk, n):
    """scripts of 2-3 core statements for the tsql batch path: statements that cannot be glued to the previous one when the
    semicolon is left out (no leading WITH / parenthesis)"""
    R = gensql.Rand(chk.rng, max_depth=1, allow={"cte": False, "subq_item": False, "subq_having": False, "subq_on": False,
                                                  "mixed_comma_join": False, "window": False})
    out = []
    while len(out) < n:
        k = chk.rng.choice([2, 2, 3])
        ss = []
        while len(ss) < k:
            s = sanitise(R.stmt(chk.rng.choice([0, 1])))
            if s[0] in ("query", "ctas") or (s[0] == "insert" and s[-1]):
                continue        # a bare SELECT has no target; CREATE TABLE AS is not T-SQL; a bracketed query may glue to the previous statement
            if _has_using(s):
                continue        # USING is not T-SQL
            if s[0] == "create_view":
                s[2] = False    # CREATE OR REPLACE VIEW is not T-SQL
            ss.append(s)
        out.append(ss)
    return out


def _has_using(n):
    if isinstance(n, list):
        if len(n) == 4 and isinstance(n[0], str) and isinstance(n[1], list) and n[1] and n[1][0] in ("table", "derived") and n[3]:
            return True
        return any(_has_using(x) for x in n)
    return False


# ------------------------------------------------------------------------------------------------ real side
_TAP = {"installed": False, "parsed": []}


def _install_tap():
    """harness-side tap (no change to the repository): remember every tree sqlfluff hands to the analyzer"""
    if _TAP["installed"]:
        return
    from sqlfluff.core import Linter
    orig = Linter.parse_string

    def parse_string(self, *a, **k):
        r = orig(self, *a, **k)
        _TAP["parsed"].append(r)
        return r
    Linter.parse_string = parse_string
    _TAP["installed"] = True


OPAQUE = {"data_type", "function_name"}


def real_shape(seg):
    """the normalisation of DESIGN §2.2 (same filter as `is_negligible` + keywords): segment types only"""
    kids = []
    if seg.type not in OPAQUE:
        for s in seg.segments:
            if s.is_meta or s.is_whitespace or s.is_comment or s.type in ("keyword", "symbol", "end_of_file"):
                continue
            kids.append(real_shape(s))
    return [seg.type] + kids


def worker(case):
    """run the REAL LineageRunner on case["sql"] under case["dialect"]; returns the canonical result (as sqlimpl.run_case) plus, for a
    sqlfluff dialect, the normalised shape of the tree the analyzer received"""
    LineageRunner, _, SQLLineageConfig, X = sqlimpl._imports()
    dialect = case["dialect"]
    sql = case["sql"]
    want = case.get("want", ("tables", "columns"))
    if dialect != LEGACY:
        _install_tap()
    _TAP["parsed"] = []
    cfg = case.get("config") or {}
    out = {}
    try:
        with warnings.catch_warnings():
            warnings.simplefilter("ignore")
            if cfg:
                with SQLLineageConfig(**cfg):
                    lr = LineageRunner(sql, dialect=dialect)
                    res = sqlimpl.result_of(lr, want)
            else:
                lr = LineageRunner(sql, dialect=dialect)
                res = sqlimpl.result_of(lr, want)
        out = {"result": res}
    except X.InvalidSyntaxException as e:
        _TAP["parsed"] = []
        return {"rejected": str(e)[-160:]}
    except BaseException as e:  # noqa
        if isinstance(e, (KeyboardInterrupt, SystemExit)):
            raise
        out = sqlimpl.classify_exception(e)
    if dialect != LEGACY and case.get("shape", True) and _TAP["parsed"]:
        trees = [p.tree for p in _TAP["parsed"] if getattr(p, "tree", None) is not None]
        if trees:
            out["shape"] = real_shape(trees[0])
            out["n_parses"] = len(trees)
    _TAP["parsed"] = []
    return out


def run_jobs(jobs, chunksize=6):
    if len(jobs) < 8:
        return [worker(j) for j in jobs]
    return sqlimpl.pool().map(worker, jobs, chunksize=chunksize)


# ------------------------------------------------------------------------------------------------ shape allow-list
def _map(sh, f):
    """bottom-up rewriting: f(node) -> node"""
    return f([sh[0]] + [_map(k, f) for k in sh[1:]])


def _unwrap_batch(sh, fired):
    if len(sh) == 2 and sh[1][0] == "batch":
        fired.add("batch-wrapper")
        return ["file"] + sh[1][1:]
    return sh


def _rename_stmt_type(pairs, rule):
    def go(sh, fired):
        if sh[0] == "file" and len(sh) == 2 and sh[1][0] == "statement" and len(sh[1]) == 2:
            st = sh[1][1]
            for a, b in pairs:
                if st[0] == a:
                    fired.add(rule)
                    return ["file", ["statement", [b] + st[1:]]]
        return sh
    return go


def _target_reference(sh, fired):
    """the target of CREATE VIEW / CREATE TABLE AS is an `object_reference` (tsql, materialize, redshift) or a `view_reference` (exasol)"""
    def f(n):
        if n[0] in ("create_view_statement", "create_table_statement") and len(n) > 1 and n[1][0] in ("object_reference", "view_reference"):
            fired.add(("view" if n[0] == "create_view_statement" else "ctas") + "-target-" + n[1][0])
            return [n[0], ["table_reference"] + n[1][1:]] + n[2:]
        return n
    return _map(sh, f)


def _cast_type_args(sh, fired):
    """hive / impala / clickhouse: `cast(e as varchar(10))` = expression, data_type, expression(bracketed(expression(literal)))"""
    def f(n):
        if n[0] == "bracketed" and len(n) == 4 and n[1][0] == "expression" and n[2][0] == "data_type" and \
                n[3] == ["expression", ["bracketed", ["expression", ["literal"]]]]:
            fired.add("cast-type-arguments-as-sibling")
            return n[:3]
        return n
    return _map(sh, f)


def _partition_unwrapped(sh, fired):
    """tsql: PARTITION BY entries that are a bare column / function / literal are not wrapped in `expression`"""
    def f(n):
        if n[0] == "partitionby_clause" and any(k[0] != "expression" for k in n[1:]):
            fired.add("partitionby-entry-unwrapped")
            return [n[0]] + [k if k[0] == "expression" else ["expression", k] for k in n[1:]]
        return n
    return _map(sh, f)


def _in_tuple(sh, fired):
    """clickhouse: `x IN (query)` = tuple(bracketed(expression(query)))   [finding K1: is_subquery / list_subqueries never look
    inside a `tuple`]"""
    def f(n):
        if n[0] == "tuple" and len(n) == 2 and n[1][0] == "bracketed" and len(n[1]) == 2:
            inner = n[1][1]
            if inner[0] == "expression" and len(inner) == 2 and inner[1][0] in ("select_statement", "set_expression", "with_compound_statement"):
                inner = inner[1]
            if inner[0] in ("select_statement", "set_expression", "with_compound_statement"):
                fired.add("in-subquery-as-tuple")
                return ["bracketed", inner]
        return n
    return _map(sh, f)


def _case_end_alias(sh, fired):
    """oracle: `CASE … END alias` (alias without AS): the alias is an `identifier` child of the case_expression   [finding K4]"""
    def f(n):
        if n[0] == "select_clause_element" and len(n) == 2 and n[1][0] == "expression" and len(n[1]) > 1:
            last = n[1][-1]
            if last[0] == "case_expression" and len(last) > 1 and last[-1] == ["identifier"]:
                fired.add("case-end-alias-inside-case")
                return [n[0], n[1][:-1] + [last[:-1]], ["alias_expression", ["identifier"]]]
        return n
    return _map(sh, f)


def _clickhouse_using(sh, fired):
    """clickhouse allows an unparenthesised USING list, so `join t2 using (a), t3` continues the USING list with `t3` instead of
    starting the next comma-separated FROM entry   [non-core reading: detected, the statement is left out for this dialect]"""
    def f(n):
        if n[0] == "join_clause" and len(n) >= 4 and n[1][0] == "from_expression_element" and n[2][0] == "bracketed" and \
                all(k == ["identifier"] for k in n[3:]):
            fired.add("using-list-continues-after-bracket")
        return n
    return _map(sh, f)


def _tsql_using(sh, fired):
    """tsql has no JOIN … USING: `join t2 using (a)` is read as table t2 with alias `using` and column aliases (and a following join
    nests inside this one)   [non-core reading: detected, the statement is left out for this dialect, no rewriting]"""
    def f(n):
        if n[0] == "alias_expression" and len(n) == 3 and n[1] == ["identifier"] and n[2][0] == "bracketed" and \
                len(n[2]) == 2 and n[2][1][0] == "identifier_list":
            fired.add("using-read-as-alias")
        return n
    return _map(sh, f)


# rule id -> (dialects it is allow-listed for, rewriting, kind, what).  kind: "neutral" (wrapper / renaming the extractors handle;
# agreement is still required), "finding:<class>" (the shape difference blinds an extractor: known finding), "noncore" (the dialect
# reads the text as something else: the statement is not a core statement under that dialect and is left out of the agreement)
SHAPE_RULES = [
    ("batch-wrapper", ["tsql", "oracle"], _unwrap_batch, "neutral",
     "file(batch(statement)) instead of file(statement) (analyzer.py:96-108 handles `batch`)"),
    ("ctas-type-alias", ["postgres", "greenplum", "redshift", "vertica", "impala"], None, "neutral",
     "CREATE TABLE AS is `create_table_as_statement` / impala: `create_table_as_select_statement` (claimed by the same extractor: "
     "Props.C09.alias_same_extractor; K3 repaired)"),
    ("ctas-type-unclaimed", [], None, "neutral",
     "no unclaimed statement type is left (Props.C09.fixed_K3_none_unclaimed)"),
    ("view-target-object_reference", ["tsql", "materialize"], _target_reference, "neutral",
     "CREATE VIEW target is `object_reference` (create_insert.py accepts table_reference and object_reference)"),
    ("ctas-target-object_reference", ["redshift"], _target_reference, "neutral",
     "CREATE TABLE AS target is `object_reference` (accepted like table_reference)"),
    ("view-target-view_reference", ["exasol"], _target_reference, "neutral",
     "CREATE VIEW target is `view_reference` (accepted as a write target since the repair of K2)"),
    ("cast-type-arguments-as-sibling", ["hive", "impala", "clickhouse"], _cast_type_args, "neutral",
     "the arguments of a parametrised type in CAST are a sibling `expression` of `data_type`"),
    ("partitionby-entry-unwrapped", ["tsql"], _partition_unwrapped, "neutral",
     "PARTITION BY entries are not wrapped in `expression`"),
    ("in-subquery-as-tuple", ["clickhouse"], _in_tuple, "finding:K1",
     "x IN (query) is tuple(bracketed(expression(query)))"),
    ("case-end-alias-inside-case", ["oracle"], _case_end_alias, "finding:K4",
     "the alias after CASE … END (no AS) is a child of the case_expression"),
    ("using-read-as-alias", ["tsql"], _tsql_using, "noncore",
     "JOIN t USING (c) is read as table t aliased `using` (T-SQL has no USING)"),
    ("using-list-continues-after-bracket", ["clickhouse"], _clickhouse_using, "noncore",
     "JOIN t USING (c), t3: the USING list may be unparenthesised in ClickHouse, so `, t3` is read as a further USING column"),
]
RULE_KIND = {r[0]: r[3] for r in SHAPE_RULES}
RULE_DIALECTS = {r[0]: r[1] for r in SHAPE_RULES}


def normalise_shape(sh, dialect, aliases, unclaimed):
    """apply every rewriting (to any dialect: a rule that fires under a dialect it is not allow-listed for is reported)"""
    fired = set()
    sh = _unwrap_batch(sh, fired)
    sh = _rename_stmt_type(aliases, "ctas-type-alias")(sh, fired)
    sh = _rename_stmt_type(unclaimed, "ctas-type-unclaimed")(sh, fired)
    for f in (_target_reference, _cast_type_args, _partition_unwrapped, _in_tuple, _case_end_alias, _tsql_using, _clickhouse_using):
        sh = f(sh, fired)
    return sh, fired


def first_diff(a, b, path=()):
    """position and kind of the first difference of two shapes, or None"""
    if a[0] != b[0]:
        return "/".join(path[-3:]) + f": {a[0]} instead of {b[0]}"
    for x, y in zip(a[1:], b[1:]):
        d = first_diff(x, y, path + (a[0],))
        if d:
            return d
    if len(a) != len(b):
        return "/".join((path + (a[0],))[-3:]) + f": children {[k[0] for k in a[1:]]} instead of {[k[0] for k in b[1:]]}"
    return None


# ------------------------------------------------------------------------------------------------ agreement
def outcome(r, tables_only=False):
    """canonical, comparable outcome of one run: tables (+ paths) or the error kind; None = rejected"""
    if "rejected" in r:
        return None
    if "result" in r:
        o = {k: r["result"][k] for k in ("source", "target", "intermediate")}
        if not tables_only and "paths" in r["result"]:
            o["paths"] = r["result"]["paths"]
        return o
    return {"error": r["error"]}


def tables_part(o):
    return o if o is None or "error" in o else {k: o[k] for k in ("source", "target", "intermediate")}


def listed_classes(chk):
    return {e["id"] for e in chk.findings if e.get("status") == "finding"}


def classes_for(analyzer, info):
    """classes of the statement under which a disagreement of `analyzer` is a listed finding"""
    cs = list(info["classes"]) + [d for d in info["deviations"] if d in LEGACY_C01]
    return [c for c in cs if analyzer in CLASS_ANALYZERS.get(c, [])]


def disagrees(ref, got, analyzer):
    if analyzer == LEGACY:
        return tables_part(ref) != tables_part(got)
    return ref != got


def eval_stmt(drv, stmt, analyzers):
    info = drv.ask1({"cmd": "shape", "stmts": [stmt]})["out"][0]
    res = run_jobs([{"sql": info["sql"], "dialect": d, "shape": False} for d in analyzers])
    return info, res


def still_fails(drv, listed, stmt, analyzer, ref):
    """shrinking predicate: `analyzer` still disagrees with `ref` and the statement is outside every class listed for it"""
    info, res = eval_stmt(drv, stmt, [ref, analyzer])
    o_ref = outcome(res[0])
    o = outcome(res[1], tables_only=analyzer == LEGACY)
    if o_ref is None or o is None or "error" in o_ref:
        return False
    if any(c in listed for c in classes_for(analyzer, info)):
        return False
    return disagrees(o_ref, o, analyzer)


def nested_queries(n, root=True):
    """every query node strictly inside the statement (derived tables, subqueries, CTE bodies, set-operation branches)"""
    if isinstance(n, list):
        if not root and n and n[0] in ("select", "setop", "with") and isinstance(n[0], str) and len(n) in (3, 7):
            yield n
        for x in n:
            yield from nested_queries(x, False)


def shrink_stmt(stmt, pred, budget=120):
    """first hoist: replace the statement by one of its nested queries while the failure persists (sqlcheck.shrink only simplifies
    locally), then the shared local shrinker"""
    cur, n = stmt, 0
    improved = True
    while improved and n < 40:
        improved = False
        for q in sorted(nested_queries(cur), key=lambda q: len(json.dumps(q))):
            n += 1
            cand = ["query", copy.deepcopy(q), False]
            try:
                if pred(cand):
                    cur = cand; improved = True; break
            except Infra:
                raise
            except Exception:
                continue
            if n >= 40:
                break
    return sqlcheck.shrink(cur, pred, budget=budget)


# ------------------------------------------------------------------------------------------------ the check
def run(chk):
    if not chk.lean.driver_ok:
        chk.stale.append({"kind": "driver", "why": "model driver does not build"})
        return chk.finish(level="translation_validation", rule="driver unavailable")
    drv = Driver()
    thorough = chk.tier == "thorough"
    installed = sqlcheck.all_dialects()
    dialects = installed if thorough else [d for d in QUICK_DIALECTS if d in installed]
    if "ansi" in dialects:
        dialects = ["ansi"] + [d for d in dialects if d != "ansi"]
    analyzers = dialects + [LEGACY]
    listed = listed_classes(chk)

    cases = gen_cases(chk)
    ans = drv.ask1({"cmd": "shape", "stmts": [s for _, s in cases]})
    infos = ans["out"]
    aliases = [tuple(p) for p in ans["stmt_type_aliases"]]
    unclaimed = [tuple(p) for p in ans["stmt_type_unclaimed"]]
    # distinct texts only
    seen, keep = set(), []
    for i, inf in enumerate(infos):
        if inf["sql"] not in seen and inf["shape"] is not None:
            seen.add(inf["sql"]); keep.append(i)
    cases = [cases[i] for i in keep]
    infos = [infos[i] for i in keep]
    log(f"[c09] {len(cases)} distinct statements x {len(analyzers)} analyzers")

    jobs = [(ci, d) for ci in range(len(cases)) for d in analyzers]
    res = run_jobs([{"sql": infos[ci]["sql"], "dialect": d, "want": ("tables",) if d == LEGACY else ("tables", "columns")}
                    for ci, d in jobs])
    log(f"[c09] {len(jobs)} runs of the real analyser done at {time.time() - chk.t0:.0f}s")
    by = collections.defaultdict(dict)
    for (ci, d), r in zip(jobs, res):
        by[ci][d] = r

    st = sqlcheck.Stats()
    kinds = sorted({inf["type"] for inf in infos})
    matrix = {d: {k: [0, 0] for k in kinds} for d in analyzers}            # dialect -> statement type -> [accepted, total]
    rules_used = collections.defaultdict(collections.Counter)               # dialect -> rule -> count
    rule_misplaced = collections.Counter()                                  # rule fired under a dialect it is not listed for
    rule_without_class = collections.Counter()                              # finding-kind rule fired on a statement outside its class
    unlisted_shape = collections.defaultdict(list)                          # (dialect, diff) -> [sql]
    shape_ok = collections.Counter()
    noncore = collections.Counter()
    known = collections.Counter()                                           # (class, analyzer) -> count
    outside_agree = collections.Counter()                                   # analyzer -> statements outside its classes that agreed
    frag_stmts = sum(1 for inf in infos if not inf["deviations"])
    disagreements_checked = 0
    failures = []                                                           # (ci, analyzer, ref, attribution)
    programs = 0

    for ci, ((name, stmt), info) in enumerate(zip(cases, infos)):
        r_by = by[ci]
        # ---- (a) shape correspondence
        excluded = set()
        shape_note = {}
        for d in dialects:
            r = r_by[d]
            matrix[d][info["type"]][1] += 1
            if "rejected" in r:
                st.reject[d] += 1
                continue
            st.accept[d] += 1
            matrix[d][info["type"]][0] += 1
            if "shape" not in r:
                continue
            sh, fired = normalise_shape(r["shape"], d, aliases, unclaimed)
            for rule in fired:
                rules_used[d][rule] += 1
                if d not in RULE_DIALECTS.get(rule, []):
                    rule_misplaced[(rule, d)] += 1
                kind = RULE_KIND.get(rule, "")
                if kind == "noncore":
                    excluded.add(d)
                elif kind.startswith("finding:") and kind.split(":")[1] not in info["classes"]:
                    rule_without_class[(rule, d)] += 1          # the Lean class predicate should cover every statement the rule fires on
            diff = None if d in excluded else first_diff(sh, info["shape"])
            if d in excluded:
                pass
            elif diff is None:
                shape_ok[d] += 1
            else:
                shape_note[d] = diff
                if len(unlisted_shape[(d, diff)]) < 3:
                    unlisted_shape[(d, diff)].append(info["sql"])
                unlisted_shape[(d, diff)].append(None)
            if fired:
                shape_note.setdefault(d, "allow-listed: " + ",".join(sorted(fired)))
        matrix[LEGACY][info["type"]][1] += 1
        if "rejected" not in r_by[LEGACY]:
            matrix[LEGACY][info["type"]][0] += 1
            st.accept[LEGACY] += 1
        else:
            st.reject[LEGACY] += 1
        for d in excluded:
            noncore[d] += 1
        # ---- (b) agreement: every accepting analyzer against the first accepting dialect
        ref = next((d for d in dialects if d not in excluded and outcome(r_by[d]) is not None), None)
        if ref is None:
            st.c["no-accepting-dialect"] += 1
            continue
        programs += 1
        o_ref = outcome(r_by[ref])
        nontrivial = "error" not in o_ref and (len(set(o_ref["source"]) | set(o_ref["target"])) >= 2 or bool(o_ref.get("paths")))
        for d in analyzers:
            if d == ref or d in excluded:
                continue
            o = outcome(r_by[d], tables_only=d == LEGACY)
            if o is None:
                continue
            chk.count(canon_json([info["sql"], d]), nontrivial)
            cls = classes_for(d, info)
            if not disagrees(o_ref, o, d):
                st.c["agree"] += 1
                if not cls:
                    outside_agree[d] += 1
                if st.c["agree"] % 700 == 1:
                    chk.sample({"sql": info["sql"], "dialect": d, "reference": ref, "tables": tables_part(o),
                                "column_paths": len(o.get("paths", [])) if isinstance(o, dict) else None,
                                "shape_note": shape_note.get(d)})
                continue
            disagreements_checked += 1
            hit = [c for c in cls if c in listed]
            if hit:
                for c in hit:
                    known[(c, d)] += 1
                st.c["known-disagreement"] += 1
                continue
            st.c["UNLISTED-disagreement"] += 1
            failures.append((ci, d, ref, shape_note.get(d)))
        chk.count(canon_json([info["sql"], ref]), nontrivial)

    # ---- unlisted disagreements: shrink the first few (distinct analyzers first) and report
    reported = set()
    for ci, d, ref, note in failures:
        if d in reported or len(reported) >= 3:
            continue
        reported.add(d)
        stmt = cases[ci][1]
        small = shrink_stmt(stmt, lambda c: still_fails(drv, listed, c, d, ref))
        info, rr = eval_stmt(drv, small, [ref, d])
        rec = {"kind": "agree", "ast": small, "sql": info["sql"], "analyzer": d, "reference": ref,
               "reference_outcome": outcome(rr[0]), "analyzer_outcome": outcome(rr[1], tables_only=d == LEGACY),
               "classes": info["classes"], "c01_deviations": info["deviations"],
               "attribution": ("parser tree shape: " + note) if note else "tree shape corresponds to the AST: extractor / analyzer behaviour",
               "unshrunk_sql": infos[ci]["sql"]}
        chk.violation(f"analyzer {d} disagrees with {ref} on a core statement outside every listed class", rec)

    log(f"[c09] classification and shrinking done at {time.time() - chk.t0:.0f}s")
    # ---- (c) tsql batch path
    script_stats = collections.Counter()
    if "tsql" in installed:
        check_scripts(chk, drv, st, script_stats)

    log(f"[c09] tsql scripts done at {time.time() - chk.t0:.0f}s")
    # ---- known findings: replay the recorded witnesses (when one stops failing that is noted in the evidence, not reported)
    not_reproduced = []
    total = collections.Counter()
    for (c, d), n in known.items():
        total[c] += n
    wit = [e for e in chk.findings if e.get("status") == "finding" and (e.get("witness") or {}).get("kind") == "agree"]
    if wit:
        winfo = drv.ask1({"cmd": "shape", "stmts": [e["witness"]["ast"] for e in wit]})["out"]
        wjobs = []
        for e, inf in zip(wit, winfo):
            wjobs.append({"sql": inf["sql"], "dialect": e["witness"]["reference"], "shape": False})
            wjobs.append({"sql": inf["sql"], "dialect": e["witness"]["analyzer"], "shape": False})
        wres = run_jobs(wjobs, chunksize=1)
        for i, e in enumerate(wit):
            an = e["witness"]["analyzer"]
            o_ref, o = outcome(wres[2 * i]), outcome(wres[2 * i + 1], tables_only=an == LEGACY)
            chk.count("witness:" + e["id"], True)
            if o_ref is None or o is None or not disagrees(o_ref, o, an):
                not_reproduced.append(e["id"])
            else:
                total[e["id"]] += 1
                if len(chk.samples) < 8 and e["id"] in ("K1", "L1"):
                    chk.samples.append({"known_finding": e["id"], "sql": winfo[i]["sql"], "analyzer": an, "reference": e["witness"]["reference"],
                                        "reference_outcome": o_ref, "analyzer_outcome": o})
    # ---- (d) the text family: constructs outside the typed AST, under EVERY installed dialect + the legacy analyzer (both tiers)
    text_pairs = {}
    for e in chk.findings:
        if e.get("status") == "finding":
            for tp in e.get("text_pairs", []):
                text_pairs[tuple(tp)] = e["id"]
    tdis, tstats = c09_texts.evaluate(run_jobs, installed + [LEGACY])
    text_reported = 0
    for tid, d, what, ref_d, ref, got in tdis:
        fid = text_pairs.get((tid, d, what))
        chk.count(canon_json(["text", tid, d, what]), True)
        if fid is not None:
            total[fid] += 1
        elif text_reported < 4:
            text_reported += 1
            chk.violation(f"analyzer `{d}` disagrees with `{ref_d}` on the {what} of a core statement (text family `{tid}`)",
                          {"kind": "text-family", "id": tid, "sql": dict(c09_texts.TEXTS)[tid], "analyzer": d, "what": what,
                           "reference": ref_d, "reference_outcome": ref, "analyzer_outcome": got})
    tstats["disagreements"] = len(tdis)
    tstats["listed_pairs_not_reproduced"] = sorted(f"{k[0]}@{k[1]}:{k[2]}" for k in text_pairs if k not in {(a, b, c) for a, b, c, *_ in tdis})
    # dialect findings recorded with their SQL text only (DML families the C09 generator does not produce)
    twit = [e for e in chk.findings if e.get("status") == "finding" and (e.get("witness") or {}).get("kind") == "sql-text"]
    if twit:
        tjobs = []
        for e in twit:
            tjobs.append({"sql": e["witness"]["sql"], "dialect": "ansi", "shape": False})
            tjobs.append({"sql": e["witness"]["sql"], "dialect": e["witness"]["dialect"], "shape": False})
        tres = run_jobs(tjobs, chunksize=1)
        for i, e in enumerate(twit):
            o_ref, o = outcome(tres[2 * i]), outcome(tres[2 * i + 1])
            chk.count("witness:" + e["id"], True)
            if o_ref is None or o is None or not disagrees(o_ref, o, e["witness"]["dialect"]):
                not_reproduced.append(e["id"])
            else:
                total[e["id"]] += 1
    for c, n in sorted(total.items()):
        if n:
            chk.known(c, n)

    sqlimpl.close_pool()
    unlisted_list = [{"dialect": d, "difference": diff, "statements": sum(1 for x in l if x is None), "examples": [x for x in l if x]}
                     for (d, diff), l in sorted(unlisted_shape.items())]
    if unlisted_list:
        log(f"[c09] WARNING: {len(unlisted_list)} shape difference(s) outside the allow-list (see evidence: unlisted_shape_differences)")
    if rule_misplaced:
        log(f"[c09] WARNING: allow-listed rewriting fired under other dialects: {dict(rule_misplaced)}")
    chk.coverage.update({
        "programs": programs,
        "disagreements_checked": disagreements_checked,
        "statements": len(cases), "statements_inside_Frag01": frag_stmts, "dialects": dialects, "analyzers": len(analyzers),
        "acceptance_matrix": {d: {k: f"{a}/{t}" for k, (a, t) in m.items()} for d, m in matrix.items()},
        "accepted_by_dialect": dict(st.accept), "rejected_by_dialect": dict(st.reject),
        "distribution": dict(st.c),
        "shape_correspondence": {
            "equal_after_allow_list": dict(shape_ok),
            "allow_list": [{"rule": r[0], "dialects": r[1], "kind": r[3], "what": r[4]} for r in SHAPE_RULES],
            "normalisations_used": {d: dict(c) for d, c in rules_used.items()},
            "rules_fired_outside_their_dialects": {f"{r}@{d}": n for (r, d), n in rule_misplaced.items()},
            "finding_rules_fired_outside_their_class": {f"{r}@{d}": n for (r, d), n in rule_without_class.items()},
            "unlisted_shape_differences": unlisted_list,
            "non_core_readings_excluded": dict(noncore),
            "non_core_identifiers_replaced": NON_CORE_IDENTIFIERS,
        },
        "known_disagreements_by_class": {f"{c}@{d}": n for (c, d), n in sorted(known.items()) if n},
        "agreed_outside_own_classes": dict(outside_agree),
        "findings_not_reproduced": not_reproduced,
        "tsql_batch_scripts": dict(script_stats),
        "text_family": dict(tstats, texts=len(c09_texts.TEXTS), analyzers=len(installed) + 1),
        "exhaustive": False,
    })
    chk.assumptions += [
        "text -> tree is third-party (sqlfluff grammars, sqlparse grouping): nothing about it is proved; it is validated per generated "
        "program (shape correspondence for sqlfluff; results only for sqlparse)",
        "core statements = what harness/gensql.py generates (SELECT with joins / comma lists / derived tables / subqueries / CASE / "
        "functions / windows / casts, set operations, WITH, INSERT..query, CTAS, CREATE VIEW) over keyword-free identifiers; UPDATE / "
        "MERGE / COPY and dialect-specific spellings are not core",
        "PYTHONHASHSEED is fixed by ./check, so hash-ordered iteration (star order, C11) is the same under every dialect",
    ]
    return chk.finish(
        level="translation_validation",
        rule="programs = distinct generated core statements (seeded sample of gensql.enumerate_shapes + seeded random statements in three "
             "profiles: 40% outside every legacy class switch, 30% inside Frag01, 30% unrestricted), rendered by Lean and run through the "
             "real LineageRunner under every listed dialect and dialect='non-validating'; an evaluation = one (statement, analyzer) "
             "compared with the first accepting dialect (tables + all column paths; legacy: tables); non-trivial = the reference reports "
             "at least two tables or at least one column path; distinct by (SQL text, analyzer). disagreements_checked = disagreements found and classified (listed "
             "class of that analyzer -> known finding, otherwise shrunk -> violation)",
        trusted_base=["Lean 4.33 kernel (reduction + shape theorems only)", "axioms: propext, Classical.choice, Quot.sound",
                      "tools/translate.py (Gen/Dispatch.lean)", "harness/c09.py (normalisation, allow-list, comparison)",
                      "harness/gensql.py (what counts as core SQL)"])


def check_scripts(chk, drv, st, stats):
    n = 100 if chk.tier == "thorough" else 30
    scripts = gen_scripts(chk, n)
    ans = drv.ask([{"cmd": "shape", "stmts": ss} for ss in scripts])
    jobs = []
    for a in ans:
        sqls = [o["sql"] for o in a["out"]]
        jobs.append({"sql": ";\n".join(sqls), "dialect": "ansi", "shape": False})
        jobs.append({"sql": ";\n".join(sqls), "dialect": "tsql", "shape": False})
        jobs.append({"sql": "\n".join(sqls), "dialect": "tsql", "shape": False, "config": {"TSQL_NO_SEMICOLON": True}})
    res = run_jobs(jobs, chunksize=3)
    first = None
    for i, (ss, a) in enumerate(zip(scripts, ans)):
        o_ansi, o_tsql, o_nosemi = (outcome(r) for r in res[3 * i:3 * i + 3])
        if o_ansi is None or o_tsql is None:
            stats["rejected"] += 1
            continue
        chk.count("script:" + canon_json([o["sql"] for o in a["out"]]), True)
        stats["scripts"] += 1
        bad = None
        if o_tsql != o_ansi:
            bad = "tsql differs from ansi on a semicolon-separated script of core statements"
        elif o_nosemi is None:
            stats["nosemicolon-rejected"] += 1
        elif o_nosemi != o_tsql:
            bad = "tsql with TSQL_NO_SEMICOLON (newline-separated batch) differs from the semicolon-separated script"
        if bad is None:
            stats["agree"] += 1
        elif first is None:
            first = (ss, bad)
            stats["DISAGREE"] += 1
    if first is not None:
        ss, bad = first
        # shrink: drop statements from the front while the failure persists
        while len(ss) > 2:
            if script_fails(drv, ss[1:]):
                ss = ss[1:]
            elif script_fails(drv, ss[:-1]):
                ss = ss[:-1]
            else:
                break
        chk.violation(bad, {"kind": "tsql-script", "asts": ss, "sql": [o["sql"] for o in drv.ask1({"cmd": "shape", "stmts": ss})["out"]]})


def script_outcomes(drv, ss):
    sqls = [o["sql"] for o in drv.ask1({"cmd": "shape", "stmts": ss})["out"]]
    res = [worker({"sql": ";\n".join(sqls), "dialect": "ansi", "shape": False}),
           worker({"sql": ";\n".join(sqls), "dialect": "tsql", "shape": False}),
           worker({"sql": "\n".join(sqls), "dialect": "tsql", "shape": False, "config": {"TSQL_NO_SEMICOLON": True}})]
    return sqls, [outcome(r) for r in res]


def script_fails(drv, ss):
    _, (a, t, n) = script_outcomes(drv, ss)
    if a is None or t is None:
        return False
    return t != a or (n is not None and n != t)


def replay(chk, obj):
    r = obj["replay"]
    if r.get("kind") == "agree":
        drv = Driver()
        info, rr = eval_stmt(drv, r["ast"], [r["reference"], r["analyzer"]])
        o_ref, o = outcome(rr[0]), outcome(rr[1], tables_only=r["analyzer"] == LEGACY)
        print(json.dumps({"sql": info["sql"], r["reference"]: o_ref, r["analyzer"]: o, "classes": info["classes"],
                          "c01_deviations": info["deviations"]}, indent=1))
        sqlimpl.close_pool()
        return 1 if o_ref is not None and o is not None and disagrees(o_ref, o, r["analyzer"]) else 0
    if r.get("kind") == "tsql-script":
        drv = Driver()
        sqls, (a, t, n) = script_outcomes(drv, r["asts"])
        print(json.dumps({"sql": sqls, "ansi": a, "tsql": t, "tsql_no_semicolon": n}, indent=1))
        return 1 if a is not None and t is not None and (t != a or (n is not None and n != t)) else 0
    if r.get("kind") == "text-family":
        dis, _ = c09_texts.evaluate(run_jobs, [r["reference"], r["analyzer"]], texts=[(r["id"], r["sql"])])
        sqlimpl.close_pool()
        print(json.dumps({"sql": r["sql"], "disagreements": [list(x[:3]) for x in dis]}, indent=1, default=str))
        return 1 if any(x[1] == r["analyzer"] and x[2] == r["what"] for x in dis) else 0
    print("replay file names no concrete input:", json.dumps(r)[:600])
    return 1
