"""Corpus for C10: every (sql text, dialects) the repository's own test-suite hands to the analyser, harvested from the SOURCE of
`<repo>/tests/**/*.py` with `ast` (nothing is imported or executed), plus `<repo>/sqllineage/data/tpcds/*.sql`.

`harvest(repo) -> [{"sql": str, "dialects": [str, ...], "origin": "tests/...::test_name" | "tpcds/query01.sql"}]`
(deterministic order: file name, then position in the file).

Resolution rules (deliberately simple, failing closed = the call is skipped and counted in `harvest.skipped`):
  * SQL = first positional argument (or `sql=`) of a call to one of CALLS; a `Name` is resolved to the last assignment of a
    string expression to that name inside the enclosing function (or at module level);
  * string expressions: constants, implicit/explicit concatenation, f-strings whose holes are names bound by
    `@pytest.mark.parametrize` (every listed value is substituted) or by a `for x in [...]` literal loop; `%`/`.format` are skipped;
  * dialects = `dialect=` keyword (constant, or a name bound by parametrize / a literal loop) else the helper's default "ansi".
"""
import ast
import glob
import itertools
import os

CALLS = {"assert_table_lineage_equal", "assert_column_lineage_equal", "assert_lr_graphs_match", "LineageRunner",
         "assert_table_lineage", "assert_column_lineage", "generate_metadata_providers", "_assert_table_lineage",
         "assert_table_lineage_equal_with_dialect"}
MAX_VARIANTS = 12


class _Skip(Exception):
    pass


def _const_list(node):
    """literal list/tuple/set of constants (or of tuples of constants) -> python list; else None"""
    try:
        v = ast.literal_eval(node)
    except Exception:
        return None
    if isinstance(v, (list, tuple, set)):
        return list(v)
    return None


def _param_env(fn):
    """name -> [values] from @pytest.mark.parametrize decorators"""
    env = {}
    for dec in getattr(fn, "decorator_list", []):
        if not (isinstance(dec, ast.Call) and isinstance(dec.func, ast.Attribute) and dec.func.attr == "parametrize"):
            continue
        if len(dec.args) < 2:
            continue
        names = dec.args[0]
        if isinstance(names, ast.Constant) and isinstance(names.value, str):
            names = [n.strip() for n in names.value.split(",")]
        else:
            nl = _const_list(names)
            if nl is None:
                continue
            names = [str(n) for n in nl]
        vals = _const_list(dec.args[1])
        if vals is None:
            continue
        if len(names) == 1:
            env[names[0]] = [v for v in vals if isinstance(v, (str, int))]
        else:
            for i, n in enumerate(names):
                env[n] = [v[i] for v in vals if isinstance(v, (list, tuple)) and len(v) > i and isinstance(v[i], (str, int))]
    return env


def _loop_env(fn):
    env = {}
    for node in ast.walk(fn):
        if isinstance(node, ast.For) and isinstance(node.target, ast.Name):
            vals = _const_list(node.iter)
            if vals is not None:
                env[node.target.id] = [v for v in vals if isinstance(v, (str, int))]
    return env


def _assignments(scope):
    out = {}
    for node in ast.walk(scope):
        if isinstance(node, ast.Assign) and len(node.targets) == 1 and isinstance(node.targets[0], ast.Name):
            out[node.targets[0].id] = node.value       # last one wins (source order of ast.walk is breadth-first; good enough)
    return out


def _strings(node, env, assigns, depth=0):
    """all string values the expression may take (bounded)"""
    if depth > 6:
        raise _Skip
    if isinstance(node, ast.Constant):
        if isinstance(node.value, str):
            return [node.value]
        raise _Skip
    if isinstance(node, ast.Name):
        if node.id in env:
            return [str(v) for v in env[node.id]][:MAX_VARIANTS]
        if node.id in assigns:
            return _strings(assigns[node.id], env, assigns, depth + 1)
        raise _Skip
    if isinstance(node, ast.BinOp) and isinstance(node.op, ast.Add):
        a = _strings(node.left, env, assigns, depth + 1)
        b = _strings(node.right, env, assigns, depth + 1)
        return [x + y for x, y in itertools.islice(itertools.product(a, b), MAX_VARIANTS)]
    if isinstance(node, ast.JoinedStr):
        parts = []
        for v in node.values:
            if isinstance(v, ast.Constant):
                parts.append([str(v.value)])
            elif isinstance(v, ast.FormattedValue):
                parts.append(_strings(v.value, env, assigns, depth + 1))
            else:
                raise _Skip
        return ["".join(p) for p in itertools.islice(itertools.product(*parts), MAX_VARIANTS)]
    raise _Skip


def harvest(repo):
    items, seen = [], set()
    skipped = 0
    files = sorted(glob.glob(os.path.join(repo, "tests", "**", "*.py"), recursive=True))
    for path in files:
        rel = os.path.relpath(path, repo)
        try:
            with open(path, encoding="utf-8") as f:
                tree = ast.parse(f.read())
        except (OSError, SyntaxError):
            continue
        mod_assigns = {k: v for k, v in _assignments(ast.Module(body=[n for n in tree.body if isinstance(n, ast.Assign)],
                                                                  type_ignores=[])).items()}
        for fn in [n for n in ast.walk(tree) if isinstance(n, (ast.FunctionDef, ast.AsyncFunctionDef))]:
            env = {}
            env.update(_loop_env(fn))
            env.update(_param_env(fn))
            assigns = dict(mod_assigns)
            assigns.update(_assignments(fn))
            for call in [n for n in ast.walk(fn) if isinstance(n, ast.Call)]:
                name = call.func.id if isinstance(call.func, ast.Name) else (
                    call.func.attr if isinstance(call.func, ast.Attribute) else None)
                if name not in CALLS:
                    continue
                sql_node = None
                for kw in call.keywords:
                    if kw.arg == "sql":
                        sql_node = kw.value
                if sql_node is None and call.args:
                    sql_node = call.args[0]
                if sql_node is None:
                    continue
                try:
                    sqls = _strings(sql_node, env, assigns)
                except _Skip:
                    skipped += 1
                    continue
                dialects = ["ansi"]
                for kw in call.keywords:
                    if kw.arg == "dialect":
                        try:
                            dialects = _strings(kw.value, env, assigns)
                        except _Skip:
                            dialects = ["ansi"]
                if name == "LineageRunner" and len(call.args) > 1:
                    try:
                        dialects = _strings(call.args[1], env, assigns)
                    except _Skip:
                        pass
                for s in sqls:
                    s = s.strip()
                    if len(s) < 4 or s in seen:
                        # the same text under further dialects: merge
                        for it in items:
                            if it["sql"] == s:
                                it["dialects"] = sorted(set(it["dialects"]) | set(dialects))
                        continue
                    seen.add(s)
                    items.append({"sql": s, "dialects": sorted(set(dialects)), "origin": f"{rel}::{fn.name}"})
    for path in sorted(glob.glob(os.path.join(repo, "sqllineage", "data", "tpcds", "*.sql"))):
        try:
            with open(path, encoding="utf-8") as f:
                s = f.read().strip()
        except OSError:
            continue
        if s and s not in seen:
            seen.add(s)
            items.append({"sql": s, "dialects": ["ansi"], "origin": "tpcds/" + os.path.basename(path)})
    harvest.skipped = skipped
    return items


harvest.skipped = 0

if __name__ == "__main__":
    import collections
    import sys
    its = harvest(sys.argv[1] if len(sys.argv) > 1 else "/repo")
    print(len(its), "texts; skipped calls:", harvest.skipped)
    c = collections.Counter(d for it in its for d in it["dialects"])
    print(sorted(c.items(), key=lambda x: -x[1]))
    for it in its[:5]:
        print(it)
