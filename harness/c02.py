"""C02 — single-statement column lineage is exact.

Correspondence at SQL level: every generated statement is rendered by Lean and run through the real LineageRunner; the
full set of reported column paths (and therefore the (source, target) pairs) must equal the model's.  Where the code
iterates a hash-ordered set of relations for an unqualified `*` (C11 / D16) the model is asked for both orders and either
is accepted.  Statements with a subquery inside a select item go through `_get_column_from_subquery` (a call into the
sqlparse analyzer that is not modelled): their column lineage is checked by the implementation-only oracle alone.

Oracle for the failing-input search (does not use the model): `reference_pairs` below — a direct reference implementation of
the property's text (scope resolution, positional set operations, naming rule) for the sub-grammar it covers.
"""
import collections
import json

import gensql
import sqlcheck
import sqlimpl
from common import Check, Driver, Infra, canon_json, log


DIALECT_FINDINGS = {("merge", "tsql"): "D29", ("merge", "athena"): "D29", ("merge", "databricks"): "D29", ("merge", "trino"): "D29",
                    ("merge", "exasol"): "D29", ("update", "exasol"): "D30", ("update", "sqlite"): "D30", ("update", "tsql"): "D30",
                    # CREATE VIEW v (c1, ...) AS ...: the column list is not found under these dialects (C09 finding K7)
                    ("create_view+cols", "clickhouse"): "K7", ("create_view+cols", "tsql"): "K7"}
# C09 classes (`Spec/Agreement.lean`, asked from the driver) under which one dialect reads a core statement differently
DIALECT_CLASSES = {"K4": ["oracle"]}


# bare identifiers sqlfluff's snowflake grammar reads as DATE PARTS when they are function arguments (`coalesce(m, 1)`): the argument is
# a `date_part` token, not a column_reference, and contributes no lineage (finding K8)
SNOWFLAKE_DATE_PARTS = {"d", "h", "m", "q", "s", "w", "y", "dd", "mm", "yy", "hh", "ms", "ns", "us", "mi", "wk", "yr", "mon", "day", "year",
                        "month", "hour", "minute", "second", "week", "quarter"}


def has_date_part_argument(s):
    for n in gensql._walk(s):
        if isinstance(n, list) and len(n) == 5 and n[0] == "func" and isinstance(n[3], list):
            for a in n[3]:
                if isinstance(a, list) and len(a) == 3 and a[0] == "col" and a[1] == [] and str(a[2]).lower() in SNOWFLAKE_DATE_PARTS:
                    return True
    return False


def duplicate_output_names(stmt):
    """some select block (derived table, CTE body, set-operation branch, or the top query) gives two items the same output name"""
    for n in gensql._walk(stmt):
        if isinstance(n, list) and len(n) == 7 and n[0] == "select":
            names = []
            for it in n[2]:
                if isinstance(it, list) and len(it) == 3:
                    e, alias = it[0], it[1]
                    nm = alias if alias else (e[2] if isinstance(e, list) and len(e) == 3 and e[0] == "col" else None)
                    if nm:
                        names.append(str(nm).lower())
            if len(set(names)) != len(names):
                return True
    return False


def late_evidence_explains(stmt, spec_pairs, impl_pairs):
    """the only difference: sources the specification leaves UNRESOLVED (bare column name) are attributed by the implementation to a
    table, and that column name is referenced in at least two query blocks of the statement (the graph then holds `table.name` from the
    other block, which the late resolution of holders.py takes as evidence)"""
    sp, im = {tuple(p) for p in spec_pairs}, {tuple(p) for p in impl_pairs}
    only_spec, only_impl = sp - im, im - sp
    if not only_spec or not only_impl:
        return False
    names = set()
    for src, tgt in only_spec:
        if "." in src:
            return False
        if not any(t == tgt and s_.endswith("." + src) for s_, t in only_impl):
            return False
        names.add(src)
    for s_, t in only_impl:
        if not any(t == tgt and s_.endswith("." + n) for n, tgt in only_spec):
            return False
    blocks = [n for n in gensql._walk(stmt) if isinstance(n, list) and len(n) == 7 and n[0] == "select"]

    def own_refs(block):
        out, stack = set(), [block[2], block[4], block[5], block[6]] + [[j[2] for j in fe[1]] for fe in block[3]]
        while stack:
            x = stack.pop()
            if isinstance(x, list):
                if len(x) == 7 and x and x[0] == "select":
                    continue
                if len(x) == 3 and x[0] == "col" and isinstance(x[2], str):
                    out.add(x[2].lower())
                stack.extend(x)
        return out
    return all(sum(1 for b in blocks if n in own_refs(b)) >= 2 for n in names)


def name_leak_shape(stmt):
    """finding D9: a derived table whose query JOINs a relation whose exposed name (alias, or bare name when un-aliased) is also an
    exposed name of the ENCLOSING FROM clause.  `list_join_clause` crawls into derived tables, so the inner relation is a candidate in
    the outer scope too and may win the qualifier."""
    def exposed(frm, joins_only=False):
        out = set()
        for fe in frm:
            els = ([] if joins_only else [fe[0]]) + [j[1] for j in fe[1]]
            for el in els:
                if isinstance(el, list) and el and el[0] in ("table", "derived"):
                    n = el[2] if el[2] else (el[1][-1] if el[0] == "table" else None)
                    if n:
                        out.add(str(n).lower())
        return out
    for n in gensql._walk(stmt):
        if isinstance(n, list) and len(n) == 7 and n[0] == "select":
            outer = exposed(n[3])
            for fe in n[3]:
                for el in [fe[0]] + [j[1] for j in fe[1]]:
                    if isinstance(el, list) and el and el[0] == "derived":
                        for m in gensql._walk(el[1]):
                            if isinstance(m, list) and len(m) == 7 and m[0] == "select" and exposed(m[3], joins_only=True) & outer:
                                return True
    return False


def finding_key(s):
    return "create_view+cols" if s[0] == "create_view" and s[3] else s[0]


def dialect_finding(drv, s, d, listed, cache):
    """id of the listed dialect finding the pair (statement, dialect) belongs to, or None"""
    fid = DIALECT_FINDINGS.get((finding_key(s), d))
    if fid and fid in listed:
        return fid
    if d == "snowflake" and "K8" in listed and has_date_part_argument(s):
        return "K8"
    if any(d in ds for ds in DIALECT_CLASSES.values()):
        k = canon_json(s)
        if k not in cache:
            out = drv.ask1({"cmd": "shape", "stmts": [s]})["out"][0]
            cache[k] = list(out["classes"]) if out else []
        for c in cache[k]:
            if d in DIALECT_CLASSES.get(c, []) and c in listed:
                return c
    return None


def pairs_of(paths):
    return sorted({(p[0], p[-1]) for p in paths})


def gen_cases(chk):
    cases = []
    depth = 2 if chk.tier == "thorough" else 1
    for name, s in gensql.enumerate_shapes(depth):
        # statements with a subquery inside a select item are outside the column-level correspondence: do not even run them
        if s[0] != "query" and not gensql.item_has_subq(s):
            cases.append((name, s))
    for name, s in gensql.enumerate_columns():
        cases.append((name, s))
    for name, s in gensql.enumerate_dml():
        cases.append((name, s))
    n_rand = 5000 if chk.tier == "thorough" else 400
    R = gensql.Rand(chk.rng, max_depth=3 if chk.tier == "thorough" else 2, allow={"subq_item": False})
    for i in range(n_rand):
        d = chk.rng.choice([1, 2, 2, 3, 4]) if chk.tier == "thorough" else chk.rng.choice([1, 2, 2])
        s = R.stmt(d)
        while s[0] == "query":
            s = R.stmt(d)
        if chk.rng.random() < 0.15 and s[0] in ("insert", "create_view"):
            n_items = top_arity(s)
            if n_items:
                cols = [f"k{j}" for j in range(n_items)]
                if s[0] == "insert":
                    s[4] = cols
                else:
                    s[3] = cols
        cases.append((f"rand-{i}", s))
    return cases


def top_arity(stmt):
    q = stmt[5] if stmt[0] == "insert" else stmt[4]
    while q[0] == "with":
        q = q[2]
    if q[0] == "setop":
        q = q[1][0]
    if q[0] == "select" and not any(it[0][0] == "star" for it in q[2]):
        return len(q[2])
    return None


def model_paths(a):
    o = a["out"]
    if "error" in o:
        return {"error": o["error"].split(":")[0]}
    return sorted(o["result"]["paths"])


def impl_paths(i):
    if "result" in i:
        return i["result"]["paths"]
    if "rejected" in i:
        return None
    return {"error": i["error"], "detail": {k: i.get(k) for k in ("etype", "site", "msg")}}


TOLERATE_STAR_ORDER = False   # True while D16 (hash-ordered relation set under an unqualified `*`) was an open finding

N_ORDERS = 60      # orders tried for the hash-ordered set of relations an unqualified `*` ranges over (5! covers <= 5 relations)


def star_outcomes(drv, stmt, n=N_ORDERS):
    """model outcomes over iteration orders of `set(alias_mapping.values())`: list of distinct path lists, first = model order"""
    ans = sqlcheck.model_eval(drv, [[stmt]] * n) if False else None
    # k indexes permutations in the factorial number system; large, spread-out values give varied orders for long lists
    ks = [0, 1] + [(i * 2654435761 + i * i * 40503) % (10 ** 12) for i in range(2, n)]
    reqs = [{"cmd": "sql", "stmts": [stmt], "rev_star": k} for k in ks]
    out = drv.ask(reqs)
    seen, res = set(), []
    for a in out:
        m = model_paths(a)
        k = canon_json(m)
        if k not in seen:
            seen.add(k); res.append(m)
    return res, out[0]


def ambiguous_targets(outs):
    """target columns whose set of incoming paths differs between iteration orders"""
    amb = set()
    lists = [o for o in outs if isinstance(o, list)]
    by = []
    for o in lists:
        d = collections.defaultdict(set)
        for p in o:
            d[p[-1]].add(tuple(p))
        by.append(d)
    keys = set().union(*[set(d) for d in by]) if by else set()
    for k in keys:
        if len({frozenset(d.get(k, ())) for d in by}) > 1:
            amb.add(k)
    return amb


def agrees_modulo_order(ip, outs):
    """impl equals some model outcome, or equals the model on every target column that is not order-ambiguous"""
    if ip in outs:
        return True
    if not isinstance(ip, list) or len(outs) < 2:
        return False
    amb = ambiguous_targets(outs)
    if not amb:
        return False
    f = lambda ps: sorted(p for p in ps if p[-1] not in amb)
    return isinstance(outs[0], list) and f(ip) == f(outs[0]) and {p[-1] for p in ip} >= set() 


def mismatch(drv, stmt, dialect):
    """impl differs from every model outcome (used for shrinking the correspondence failure)"""
    a = sqlcheck.model_eval(drv, [[stmt]])[0]
    i = sqlimpl.run_case({"sql": a["sql"][0], "dialect": dialect, "want": ("tables", "columns")})
    ip = impl_paths(i)
    if ip is None:
        return False
    if ip == model_paths(a):
        return False
    if not TOLERATE_STAR_ORDER:
        return True
    outs, _ = star_outcomes(drv, stmt)
    return not agrees_modulo_order(ip, outs)


def run(chk):
    if not chk.lean.driver_ok:
        chk.stale.append({"kind": "driver", "why": "model driver does not build"})
        return chk.finish(level="proof", rule="driver unavailable")
    drv = Driver()
    dialects = sqlcheck.all_dialects() if chk.tier == "thorough" else ["ansi", "sparksql", "bigquery"]
    cases = gen_cases(chk)
    ans1 = sqlcheck.model_eval(drv, [[s] for _, s in cases])
    ans2 = sqlcheck.model_eval(drv, [[s] for _, s in cases], rev_star=1)
    outcome_cache = {}
    dclass_cache = {}
    jobs = [(ci, d) for ci in range(len(cases)) for d in dialects]
    impl = sqlimpl.run_cases([{"sql": ans1[ci]["sql"][0], "dialect": d, "want": ("tables", "columns")} for ci, d in jobs], chunksize=16)
    st = sqlcheck.Stats()
    listed = {e["id"] for e in chk.findings if e.get("status") == "finding"}
    first = None
    ref_fail = None
    spec_fail = None
    for (ci, d), i in zip(jobs, impl):
        name, s = cases[ci]
        ip = impl_paths(i)
        if ip is None:
            st.reject[d] += 1
            continue
        st.accept[d] += 1
        m1, m2 = model_paths(ans1[ci]), model_paths(ans2[ci])
        nontrivial = isinstance(ip, list) and len(ip) > 0
        chk.count(canon_json([ans1[ci]["sql"][0], d]), nontrivial)
        if gensql.item_has_subq(s):
            st.c["skipped:item-subquery"] += 1
            continue
        if "D16" not in listed:
            # D16 is repaired (relations are visited in FROM order): the implementation must equal the model at order 0
            m2 = m1
        elif ip != m1 and ip != m2:
            # order-sensitive statement: ask the model for more iteration orders
            if ci not in outcome_cache:
                outcome_cache[ci] = star_outcomes(drv, s)[0]
            if agrees_modulo_order(ip, outcome_cache[ci]):
                m2 = ip
        # a listed dialect finding (the dialect reads this statement kind differently; identified by statement kind / class AND
        # dialect): the statement is compared with the model only, the oracles speak about the dialect-free reading
        dfid = dialect_finding(drv, s, d, listed, dclass_cache) if (ip != m1 and ip != m2) else None
        if dfid is not None:
            ok_shape = isinstance(ip, list) and isinstance(m1, list)
            if dfid in ("D29", "D30", "K8"):
                ok_shape = ok_shape and all(p_ in m1 for p_ in ip)            # the reported paths are a subset of the ANSI answer
            elif dfid == "K4":
                # the alias is read as part of the CASE: other target name, and the alias itself may show up as one more source column
                ok_shape = ok_shape and {p_[0] for p_ in m1} <= {p_[0] for p_ in ip}
            else:
                ok_shape = ok_shape and sorted({p_[0] for p_ in ip}) == sorted({p_[0] for p_ in m1})    # same sources, other target names
            if ok_shape:
                chk.known(dfid)
                st.c["known:" + dfid] += 1
                continue
        # the Lean specification Spec.colflow (independent of the extractor model) — covers derived tables and CTEs too
        lspec = ans1[ci]["spec"][0].get("colflow")
        if lspec is not None and isinstance(ip, list):
            st.c["spec-covered"] += 1
            if sorted(map(tuple, lspec)) != sorted(map(tuple, pairs_of(ip))) and duplicate_output_names(s):
                # a nested query block names two of its output columns alike: a reference to that name is ambiguous (invalid SQL),
                # nothing is legislated
                st.c["spec-not-covered:duplicate-output-names"] += 1
            elif sorted(map(tuple, lspec)) != sorted(map(tuple, pairs_of(ip))) and late_evidence_explains(s, lspec, pairs_of(ip)):
                # not legislated either way (see reference_pairs): a column the specification leaves unresolved is resolved by the
                # assembler because ANOTHER query block of the statement visibly reads a column of that name from a candidate
                st.c["spec-not-covered:late-evidence"] += 1
            elif sorted(map(tuple, lspec)) != sorted(map(tuple, pairs_of(ip))):
                if "D9" in listed and ip == m1 and name_leak_shape(s):
                    # the recorded finding D9: identified by its shape AND implementation = model
                    chk.known("D9")
                    st.c["known:D9"] += 1
                    continue
                st.c["impl!=spec"] += 1
                if spec_fail is None:
                    spec_fail = (s, d)
        ref = reference_pairs(s)
        if ref is not None and lspec is not None and sorted(map(tuple, ref)) != sorted(map(tuple, lspec)):
            st.c["python-reference!=lean-spec"] += 1
            if len(chk.stale) < 20:
                chk.stale.append({"kind": "oracles-disagree", "sql": ans1[ci]["sql"][0], "python": ref, "lean": lspec})
        if ref is not None and isinstance(ip, list):
            st.c["reference-covered"] += 1
            if [list(x) for x in pairs_of(ip)] != [list(x) for x in ref]:
                st.c["impl!=reference"] += 1
                if ref_fail is None:
                    ref_fail = (s, d)
        if ip == m1 or ip == m2:
            st.c["agree"] += 1
            if m1 != m2:
                st.c["order-sensitive(star over several relations)"] += 1
                if "D16" in listed:
                    chk.known("D16")
            if st.c["agree"] % 500 == 1:
                chk.sample({"sql": ans1[ci]["sql"][0], "dialect": d, "pairs": pairs_of(ip) if isinstance(ip, list) else ip})
            continue
        st.c["impl!=model"] += 1
        if first is None:
            first = (s, d)
    if spec_fail is not None and ref_fail is None:
        s, d = spec_fail

        def spec_fails(c):
            a_ = sqlcheck.model_eval(drv, [[c]])[0]
            sp_ = a_["spec"][0].get("colflow")
            if sp_ is None:
                return False
            i_ = sqlimpl.run_case({"sql": a_["sql"][0], "dialect": d, "want": ("tables", "columns")})
            p_ = impl_paths(i_)
            return isinstance(p_, list) and sorted(map(tuple, sp_)) != sorted(map(tuple, pairs_of(p_)))
        small = sqlcheck.shrink(s, spec_fails, budget=300)
        a = sqlcheck.model_eval(drv, [[small]])[0]
        i = sqlimpl.run_case({"sql": a["sql"][0], "dialect": d, "want": ("tables", "columns")})
        chk.violation("column lineage of a statement differs from the specification Spec.colflow",
                      {"kind": "sql-columns-spec", "sql": a["sql"][0], "dialect": d, "ast": small, "impl_paths": impl_paths(i),
                       "spec_pairs": a["spec"][0].get("colflow")})
        first = None
    if ref_fail is not None:
        # failing input by the model-independent reference semantics: shrink with that oracle alone
        s, d = ref_fail

        def ref_fails(c):
            r = reference_pairs(c)
            if r is None:
                return False
            a_ = sqlcheck.model_eval(drv, [[c]])[0]
            i_ = sqlimpl.run_case({"sql": a_["sql"][0], "dialect": d, "want": ("tables", "columns")})
            p_ = impl_paths(i_)
            return isinstance(p_, list) and [list(x) for x in pairs_of(p_)] != [list(x) for x in r]
        small = sqlcheck.shrink(s, ref_fails, budget=300)
        a = sqlcheck.model_eval(drv, [[small]])[0]
        i = sqlimpl.run_case({"sql": a["sql"][0], "dialect": d, "want": ("tables", "columns")})
        chk.violation("column lineage of a statement differs from the reference semantics of the property",
                      {"kind": "sql-columns", "sql": a["sql"][0], "dialect": d, "ast": small, "impl_paths": impl_paths(i),
                       "reference_pairs": reference_pairs(small)})
        first = None
    if first is not None:
        s, d = first
        small = sqlcheck.shrink(s, lambda c: mismatch(drv, c, d), budget=400)
        outs, a = star_outcomes(drv, small)
        m1 = outs[0]
        i = sqlimpl.run_case({"sql": a["sql"][0], "dialect": d, "want": ("tables", "columns")})
        ip = impl_paths(i)
        ref = reference_pairs(small)
        rec = {"kind": "sql-columns", "sql": a["sql"][0], "dialect": d, "ast": small, "impl_paths": ip, "model_paths": m1,
               "reference_pairs": ref}
        if ref is not None and isinstance(ip, list) and pairs_of(ip) != ref:
            chk.violation("column lineage of a statement differs from the reference semantics of the property", rec)
        elif ref is not None:
            chk.stale.append(rec)
        else:
            # the reference semantics does not cover this shape: the correspondence is broken and nothing independent
            # confirms the implementation
            chk.stale.append(rec)
    # recorded findings: replay each stored witness on the implementation; still deviating -> KNOWN-FINDING
    for e in chk.findings:
        w = e.get("witness", {})
        if e.get("status") == "finding" and w.get("kind") == "sql-text":
            # dialect finding: the witness text gives column lineage under ansi and none / other under the recorded dialect
            ia, idl = (impl_paths(sqlimpl.run_case({"sql": w["sql"], "dialect": d, "want": ("tables", "columns")}))
                       for d in ("ansi", w["dialect"]))
            if isinstance(ia, list) and ia and (not isinstance(idl, list) or pairs_of(idl) != pairs_of(ia)):
                if e["id"] not in chk.known_hits:
                    chk.known(e["id"])
            else:
                chk.stale.append({"kind": "finding-no-longer-reproduces", "id": e["id"], "witness": w, "impl": idl})
            continue
        if e.get("status") != "finding" or w.get("kind") != "sql-pairs":
            continue
        i = sqlimpl.run_case({"sql": w["sql"], "dialect": w["dialect"], "want": ("tables", "columns")})
        ip = impl_paths(i)
        if isinstance(ip, list) and [list(x) for x in pairs_of(ip)] != [list(x) for x in sorted(map(tuple, w["spec_pairs"]))]:
            chk.known(e["id"])
        else:
            chk.stale.append({"kind": "finding-no-longer-reproduces", "id": e["id"], "witness": w, "impl": ip})
    sqlimpl.close_pool()
    chk.coverage.update({"statements": len(cases), "dialects": dialects, "distribution": st.as_dict(), "exhaustive": False})
    chk.assumptions += ["text -> tree (sqlfluff grammars) is not modelled",
                        "`_get_column_from_subquery` (sqlparse analyzer on the raw subquery text) is not modelled: statements with a "
                        "subquery inside a select item are outside the column-level correspondence"]
    return chk.finish(
        level="proof",
        rule="bounded-exhaustive enumerate_shapes x data-moving statement kinds + seeded random statements (expression depth<=3, up to 3+ "
             "relations in scope, nesting<=2 quick / <=4 thorough; 15% with explicit column lists), run under the listed dialects; the "
             "complete set of reported column paths is compared with the Lean model's. non-trivial = at least one column path; "
             "distinct by (SQL text, dialect)",
        trusted_base=["Lean 4.33 kernel", "axioms: propext, Classical.choice, Quot.sound", "harness/c02.py + sqlimpl.py"])


# ------------------------------------------------------------------------------------------- reference semantics
def reference_pairs_merge(stmt):
    """MERGE whose source is a base table and whose only clauses are WHEN NOT MATCHED THEN INSERT (cols) VALUES (vals) with plain
    `q.c` values, q the source's name: each clause pairs ITS i-th value with ITS i-th column.  None for everything else (update
    clauses and expression values are the recorded finding D31's territory)."""
    _, tgt, alias, src, on, ups, inss = stmt
    if ups or not inss or src[0] != "table":
        return None
    sname = (".".join(src[1][:-1]) if len(src[1]) > 1 else "<default>") + "." + src[1][-1]
    q = src[2] or src[1][-1]
    tname = (".".join(tgt[:-1]) if len(tgt) > 1 else "<default>") + "." + tgt[-1]
    out = set()
    for cols, vals in inss:
        if len(cols) != len(vals):
            return None
        for c, v in zip(cols, vals):
            if not (isinstance(v, list) and len(v) == 3 and v[0] == "col" and v[1] == [q]):
                return None
            out.add((f"{sname}.{v[2]}", f"{tname}.{c[-1]}"))
    return sorted(out)


def reference_pairs(stmt):
    """(source, target) pairs by the property's text for the sub-grammar: INSERT/CTAS/VIEW whose query is one SELECT block over
    base tables, or a set operation of such blocks (position by position), with or without an explicit column list.  Returns
    None when the shape is not covered (derived tables, CTEs, stars, subqueries, un-aliased expression items, the recorded
    deviation classes D6/D7)."""
    try:
        if stmt[0] == "merge":
            return reference_pairs_merge(stmt)
        if stmt[0] == "insert":
            tgt, cols, q = stmt[3], stmt[4], stmt[5]
        elif stmt[0] == "ctas":
            tgt, cols, q = stmt[1], None, stmt[4]
        elif stmt[0] == "create_view":
            tgt, cols, q = stmt[1], stmt[3], stmt[4]
        else:
            return None
        if q[0] == "select":
            branches = [q]
        elif q[0] == "setop":
            branches = [q[1][0]] + [ob[1][0] for ob in q[2]]
            if any(b[0] != "select" for b in branches):
                return None
        else:
            return None
        tname = (".".join(tgt[:-1]) if len(tgt) > 1 else "<default>") + "." + tgt[-1]
        arity = len(branches[0][2])
        if any(len(b[2]) != arity for b in branches):
            return None
        if cols and len(cols) != arity:
            return None
        names = []
        for j, it in enumerate(branches[0][2]):
            e, alias = it[0], it[1]
            if cols:
                names.append(cols[j])
            elif alias:
                names.append(alias)
            elif e[0] == "col":
                names.append(e[2])
            else:
                return None           # display name of an un-aliased expression: not legislated
        if len(set(names)) != len(names):
            return None
        # an unqualified name that is ALSO referenced with a qualifier somewhere in the statement: the assembler then takes the
        # table that visibly has such a column as evidence (late resolution against the graph) — not legislated either way
        allrefs = []
        for b in branches:
            for it in b[2]:
                r = _refs(it[0])
                if r is None:
                    return None
                allrefs += r
        # ... anywhere in the statement (WHERE / ON / subqueries included)
        qualified_names = {n[2] for n in gensql._walk(stmt) if isinstance(n, list) and len(n) == 3 and n[0] == "col" and n[1]}
        if any(q_ is None and c in qualified_names for q_, c in allrefs):
            return None
        out = set()
        for bi, b in enumerate(branches):
            rels = []   # (answers_to, printed)
            for fe in b[3]:
                for e in [fe[0]] + [j[1] for j in fe[1]]:
                    if e[0] != "table":
                        return None
                    parts, alias = e[1], e[2]
                    printed = (".".join(parts[:-1]) if len(parts) > 1 else "<default>") + "." + parts[-1]
                    rels.append(({alias} if alias else {parts[-1], printed}, printed, parts[-1]))
            # D7 class: an alias equal to another relation's bare name
            for a1, p1, _ in rels:
                for a2, p2, bare2 in rels:
                    if p1 != p2 and (bare2 in a1):
                        return None
            if len({p for _, p, _ in rels}) != len(rels):
                return None            # the same table twice in one scope
            if any(p == tname for _, p, _ in rels):
                return None            # the statement reads its own target: the target's columns then count as evidence for
                                       # unqualified names (late resolution against the graph) — not legislated
            for j, it in enumerate(b[2]):
                refs = _refs(it[0])
                if refs is None:
                    return None
                if bi == 0 and not refs and len(branches) > 1:
                    return None        # D6 class: source-less item in the first branch of a set operation
                for (qual, c) in refs:
                    if qual is not None:
                        owners = [p for a, p, _ in rels if qual in a]
                        if len(owners) != 1:
                            return None
                        out.add((owners[0] + "." + c, tname + "." + names[j]))
                    elif len(rels) == 1:
                        out.add((rels[0][1] + "." + c, tname + "." + names[j]))
                    elif not rels:
                        return None
                    else:
                        out.add((c, tname + "." + names[j]))      # unresolved: reported with its candidates, printed bare
        return sorted(out)
    except Exception:
        return None


def _refs(e):
    t = e[0]
    if t == "col":
        return [(e[1][-1] if e[1] else None, e[2])]
    if t == "lit":
        return []
    if t == "func":
        out = []
        for a in e[3]:
            r = _refs(a)
            if r is None:
                return None
            out += r
        if e[4]:
            for a in e[4][0] + e[4][1]:
                r = _refs(a)
                if r is None:
                    return None
                out += r
        return out
    if t in ("cast", "paren"):
        return _refs(e[1])
    if t == "bin":
        a, b = _refs(e[2]), _refs(e[3])
        return None if a is None or b is None else a + b
    if t == "case":
        out = []
        for c, r in e[1]:
            x, y = _refs(c), _refs(r)
            if x is None or y is None:
                return None
            out += x + y
        if e[2] is not None:
            z = _refs(e[2])
            if z is None:
                return None
            out += z
        return out
    return None


def replay(chk, obj):
    r = obj["replay"]
    if r.get("kind") == "sql-columns":
        drv = Driver()
        a = sqlcheck.model_eval(drv, [[r["ast"]]])[0]
        i = sqlimpl.run_case({"sql": a["sql"][0], "dialect": r["dialect"], "want": ("tables", "columns")})
        ip = impl_paths(i)
        ref = reference_pairs(r["ast"])
        print(json.dumps({"sql": a["sql"][0], "impl_pairs": pairs_of(ip) if isinstance(ip, list) else ip, "reference_pairs": ref}, indent=1))
        return 1 if ref is not None and isinstance(ip, list) and pairs_of(ip) != [list(x) for x in ref] and pairs_of(ip) != ref else 0
    if r.get("kind") == "sql-columns-spec":
        drv = Driver()
        a = sqlcheck.model_eval(drv, [[r["ast"]]])[0]
        i = sqlimpl.run_case({"sql": a["sql"][0], "dialect": r["dialect"], "want": ("tables", "columns")})
        ip = impl_paths(i)
        sp = a["spec"][0].get("colflow")
        print(json.dumps({"sql": a["sql"][0], "impl_pairs": pairs_of(ip) if isinstance(ip, list) else ip, "spec_pairs": sp}, indent=1))
        return 1 if sp is not None and isinstance(ip, list) and sorted(map(tuple, sp)) != sorted(map(tuple, pairs_of(ip))) else 0
    print("replay file names no concrete input:", json.dumps(r)[:600])
    return 1
