"""Harvest the SQL corpus of the repository for C18: every (sql, dialect, metadata) its test-suite passes to LineageRunner
(through `assert_table_lineage_equal`, `assert_column_lineage_equal` or a direct `LineageRunner(...)` call) plus the bundled
TPC-DS scripts `sqllineage/data/tpcds/*.sql`.

The test files are only *parsed* (Python `ast`), never imported: a tiny evaluator follows the straight-line assignments of each
test function, substitutes `pytest.mark.parametrize` values (literal lists), evaluates f-strings / `%` / `+` / `.format` over
that environment and records the first argument of the calls above.  Anything it cannot evaluate is skipped (counted).
"""
import ast
import itertools
import os

import common

CALLS = {"assert_table_lineage_equal", "assert_column_lineage_equal", "LineageRunner"}
MAX_COMBOS = 40


class _Skip(Exception):
    pass


def _ev(node, env):
    """evaluate a restricted expression to a Python value"""
    if isinstance(node, ast.Constant):
        return node.value
    if isinstance(node, ast.Name):
        if node.id in env:
            return env[node.id]
        raise _Skip(node.id)
    if isinstance(node, ast.JoinedStr):
        out = []
        for v in node.values:
            if isinstance(v, ast.Constant):
                out.append(str(v.value))
            elif isinstance(v, ast.FormattedValue):
                out.append(str(_ev(v.value, env)))
            else:
                raise _Skip("fstring")
        return "".join(out)
    if isinstance(node, (ast.List, ast.Tuple, ast.Set)):
        vals = [_ev(e, env) for e in node.elts]
        return vals if isinstance(node, ast.List) else (tuple(vals) if isinstance(node, ast.Tuple) else set(vals))
    if isinstance(node, ast.Dict):
        return {_ev(k, env): _ev(v, env) for k, v in zip(node.keys, node.values)}
    if isinstance(node, ast.BinOp) and isinstance(node.op, (ast.Add, ast.Mod)):
        a, b = _ev(node.left, env), _ev(node.right, env)
        return a + b if isinstance(node.op, ast.Add) else a % b
    if isinstance(node, ast.Call) and isinstance(node.func, ast.Attribute):
        recv = node.func.value
        if node.func.attr == "format":
            s = _ev(recv, env)
            return s.format(*[_ev(a, env) for a in node.args], **{k.arg: _ev(k.value, env) for k in node.keywords})
        if node.func.attr in ("strip", "lower", "upper") and not node.args:
            return getattr(_ev(recv, env), node.func.attr)()
        if node.func.attr == "join" and len(node.args) == 1:
            return _ev(recv, env).join(_ev(node.args[0], env))
    if isinstance(node, ast.Call) and isinstance(node.func, ast.Name):
        # providers: generate_metadata_providers({...}) / DummyMetaDataProvider({...}) -> the literal dict, tagged
        if node.func.id in ("generate_metadata_providers", "DummyMetaDataProvider"):
            md = _ev(node.args[0], env) if node.args else {}
            tagged = {"__metadata__": md}
            return [tagged] if node.func.id == "generate_metadata_providers" else tagged
    if isinstance(node, ast.Subscript):
        v = _ev(node.value, env)
        i = _ev(node.slice, env)
        return v[i]
    raise _Skip(type(node).__name__)


def _params(fn, env):
    """[(names, [values...])] from @pytest.mark.parametrize decorators with evaluable arguments"""
    out = []
    for d in fn.decorator_list:
        if isinstance(d, ast.Call) and isinstance(d.func, ast.Attribute) and d.func.attr == "parametrize" and len(d.args) >= 2:
            try:
                names = _ev(d.args[0], env)
                vals = _ev(d.args[1], env)
            except (_Skip, Exception):
                continue
            if isinstance(names, str):
                names = [n.strip() for n in names.split(",")]
            rows = []
            for v in vals:
                if len(names) == 1:
                    rows.append({names[0]: v})
                else:
                    rows.append(dict(zip(names, v)))
            out.append(rows)
    return out


def _func_name(call):
    f = call.func
    if isinstance(f, ast.Name):
        return f.id
    if isinstance(f, ast.Attribute):
        return f.attr
    return None


def _record(call, env, out, stats, origin):
    name = _func_name(call)
    if name not in CALLS or not call.args:
        return
    try:
        sql = _ev(call.args[0], env)
    except Exception:
        stats["unevaluable"] += 1
        return
    if not isinstance(sql, str) or not sql.strip():
        return
    kw = {}
    for k in call.keywords:
        if k.arg is None:
            continue
        try:
            kw[k.arg] = _ev(k.value, env)
        except Exception:
            kw[k.arg] = None
            if k.arg in ("dialect", "metadata_provider"):
                stats["unevaluable"] += 1
                return
    pos = call.args[1:]
    dialect = kw.get("dialect")
    if name == "LineageRunner" and dialect is None and pos:
        try:
            dialect = _ev(pos[0], env)
        except Exception:
            dialect = None
    dialect = dialect or "ansi"
    md = kw.get("metadata_provider")
    metadata = md.get("__metadata__") if isinstance(md, dict) else None
    silent = bool(kw.get("silent_mode"))
    dialects = []
    if name == "LineageRunner":
        dialects = [dialect]
    else:
        if kw.get("test_sqlfluff", True) is not False:
            dialects.append(dialect)
        if kw.get("test_sqlparse", True) is not False:
            dialects.append("non-validating")
    for d in dialects:
        out.append({"sql": sql, "dialect": d, "metadata": metadata, "silent": silent, "origin": origin})


def _walk_body(stmts, env, out, stats, origin):
    for st in stmts:
        if isinstance(st, ast.Assign) and len(st.targets) == 1 and isinstance(st.targets[0], ast.Name):
            # calls inside the right-hand side (lr = LineageRunner(sql)) are recorded too
            for c in ast.walk(st.value):
                if isinstance(c, ast.Call):
                    _record(c, env, out, stats, origin)
            try:
                env[st.targets[0].id] = _ev(st.value, env)
            except Exception:
                env.pop(st.targets[0].id, None)
            continue
        if isinstance(st, (ast.For,)):
            try:
                it = list(_ev(st.iter, env))
            except Exception:
                it = None
            if it is not None and isinstance(st.target, ast.Name):
                for v in it[:MAX_COMBOS]:
                    env2 = dict(env); env2[st.target.id] = v
                    _walk_body(st.body, env2, out, stats, origin)
                continue
        if isinstance(st, (ast.With, ast.If, ast.For, ast.Try)):
            for c in ast.walk(st):
                if isinstance(c, ast.Call):
                    # context expressions / conditions; bodies are walked below in order
                    pass
            for field in ("body", "orelse", "finalbody"):
                _walk_body(getattr(st, field, []) or [], env, out, stats, origin)
            continue
        for c in ast.walk(st):
            if isinstance(c, ast.Call):
                _record(c, env, out, stats, origin)


def harvest_tests(repo=None):
    repo = repo or common.REPO
    root = os.path.join(repo, "tests")
    out, stats = [], {"files": 0, "functions": 0, "unevaluable": 0}
    for dp, _, files in sorted(os.walk(root)):
        for fn in sorted(files):
            if not (fn.startswith("test_") and fn.endswith(".py")):
                continue
            path = os.path.join(dp, fn)
            try:
                with open(path, encoding="utf-8") as f:
                    tree = ast.parse(f.read())
            except (OSError, SyntaxError):
                continue
            stats["files"] += 1
            genv = {}
            for st in tree.body:
                if isinstance(st, ast.Assign) and len(st.targets) == 1 and isinstance(st.targets[0], ast.Name):
                    try:
                        genv[st.targets[0].id] = _ev(st.value, genv)
                    except Exception:
                        pass
            for st in tree.body:
                if not (isinstance(st, ast.FunctionDef) and st.name.startswith("test_")):
                    continue
                stats["functions"] += 1
                origin = f"{os.path.relpath(path, repo)}::{st.name}"
                plist = _params(st, genv)
                combos = list(itertools.islice(itertools.product(*plist), MAX_COMBOS)) if plist else [()]
                for combo in combos:
                    env = dict(genv)
                    for row in combo:
                        env.update(row)
                    _walk_body(st.body, env, out, stats, origin)
    return out, stats


def harvest_tpcds(repo=None):
    repo = repo or common.REPO
    d = os.path.join(repo, "sqllineage", "data", "tpcds")
    out = []
    if os.path.isdir(d):
        for fn in sorted(os.listdir(d)):
            if fn.endswith(".sql"):
                with open(os.path.join(d, fn), encoding="utf-8") as f:
                    out.append({"sql": f.read(), "dialect": "ansi", "metadata": None, "silent": False,
                                "origin": f"sqllineage/data/tpcds/{fn}"})
    return out


def corpus(repo=None):
    """deduplicated list of cases + harvest statistics"""
    cases, stats = harvest_tests(repo)
    cases += harvest_tpcds(repo)
    seen, uniq = set(), []
    for c in cases:
        k = common.canon_json([c["sql"], c["dialect"], c["metadata"], c["silent"]])
        if k not in seen:
            seen.add(k); uniq.append(c)
    stats["cases"] = len(uniq)
    stats["tpcds"] = len([c for c in uniq if c["origin"].startswith("sqllineage/data")])
    return uniq, stats


if __name__ == "__main__":
    cs, st = corpus()
    print(st)
    import collections
    print(collections.Counter(c["dialect"] for c in cs).most_common())
