"""C16 — identifiers denote the same entity wherever they appear.

A. direct correspondences (implementation objects vs Lean model through the driver), bounded-exhaustive:
   A1  every string over {a B " ` ' [ ] . space} up to length 5 (quick) / 6 (thorough) through
       escape_identifier_name, Schema, Table (exception / warning cases included), Column, Path — plus shorter
       bounds under a configured default schema and an explicit schema argument;
   A2  SqlFluffTable.of on 1-3 identifier parts (duck-typed segments, no parsing);
   A3  Column(name, source_columns=…).to_source_columns(alias mapping);
   A4  eq / hash on the real objects for all pairs of a sampled pool (eq => same hash: needs no model).
   Every case is ALSO judged by an oracle that does not mention the model (the property clauses evaluated on the
   implementation alone, see `direct_failures`, `of_failures`, `src_failures`).
B. SQL level (implementation vs implementation): every spelling {lower, UPPER, Mixed} x {unquoted, each quote style
   of the dialect} x {1-3 parts} at every syntactic position (templates below), under ansi, mysql, tsql (thorough:
   + sparksql, bigquery and independently spelled parts).  The result for a spelling must be the result for the
   reference spelling (plain lower case) with the reference name replaced by the name the property prescribes
   (unquoted -> lower case, quoted -> the text between the quotes); for the two-statement templates the reference
   result must contain the connected chain s -> t -> u.  A parser rejection is a rejection, not a failure.
"""
import itertools
import json
import os
import time
import warnings

from common import Driver, Infra, REPO, canon_json, leanchecker, log

NEED_DRIVER = True

ALPHABET = ["a", "B", '"', "`", "'", "[", "]", ".", " "]
QUOTE_CHARS = ['`', '"', "'"]


# ------------------------------------------------------------------------------------------------ implementation
class Impl:
    def __init__(self):
        # the import-time default schema of Table.__init__ must be the library default
        os.environ.pop("SQLLINEAGE_DEFAULT_SCHEMA", None)
        try:
            from sqllineage.config import SQLLineageConfig
            from sqllineage.core.models import Column, Path, Schema, SubQuery, Table
            from sqllineage.core.parser.sqlfluff.models import SqlFluffTable
            from sqllineage.exceptions import (InvalidSyntaxException, SQLLineageException,
                                               UnsupportedStatementException)
            from sqllineage.runner import LineageRunner
            from sqllineage.utils.helpers import escape_identifier_name
        except Exception as e:  # a tree that does not import is not a property violation
            raise Infra(f"cannot import sqllineage from {REPO}: {type(e).__name__}: {e}")
        self.cfg = SQLLineageConfig
        self.Column, self.Path, self.Schema, self.SubQuery, self.Table = Column, Path, Schema, SubQuery, Table
        self.SqlFluffTable = SqlFluffTable
        self.InvalidSyntax, self.LineageExc, self.Unsupported = (InvalidSyntaxException, SQLLineageException,
                                                                 UnsupportedStatementException)
        self.Runner = LineageRunner
        self.escape = escape_identifier_name

    def err(self, e):
        if isinstance(e, self.LineageExc):
            return "lineage"
        return "internal:" + type(e).__name__

    def with_cfg(self, cfg, f):
        if cfg:
            with self.cfg(DEFAULT_SCHEMA=cfg):
                return f()
        return f()


class Seg:
    """duck-typed stand-in for a sqlfluff segment: what SqlFluffTable.of reads is .type, .raw, .segments and (since the repair
    of D40) the layout flags .is_whitespace / .is_comment / .is_meta"""
    is_whitespace = is_comment = is_meta = False

    def __init__(self, type_, raw, segments=()):
        self.type, self.raw, self.segments = type_, raw, list(segments)


def table_segment(parts):
    segs = []
    for i, p in enumerate(parts):
        if i:
            segs.append(Seg("symbol", "."))
        segs.append(Seg("identifier", p))
    return Seg("table_reference", ".".join(parts), segs)


def table_rec(impl, build):
    """canonical record of a Table construction: fields or the error enum; warning as a flag"""
    with warnings.catch_warnings(record=True) as w:
        warnings.simplefilter("always")
        try:
            t = build()
        except Exception as e:
            return {"err": impl.err(e)}, None
    return {"schema": str(t.schema), "raw": t.raw_name, "alias": t.alias, "str": str(t),
            "warned": any(issubclass(x.category, Warning) for x in w)}, t


def parent_rec(p):
    kind = type(p).__name__.replace("SqlFluff", "").replace("SqlParse", "")
    if kind == "SubQuery":
        return [kind, str(p), p.query_raw]
    return [kind, str(p)]


def column_rec(c):
    return {"raw": c.raw_name, "str": str(c),
            "src": [[n, q] for n, q in c.source_columns],
            "parents": [parent_rec(p) for p in c.parent_candidates]}


def impl_record(impl, s, schema_arg):
    sc = impl.Schema(s)
    if schema_arg is None:
        trec, _ = table_rec(impl, lambda: impl.Table(s))
    else:
        trec, _ = table_rec(impl, lambda: impl.Table(s, impl.Schema(schema_arg)))
    return {
        "escape": impl.escape(s),
        "schema": {"raw": sc.raw_name, "str": str(sc), "known": bool(sc)},
        "table": trec,
        "column": column_rec(impl.Column(s)),
        "path": str(impl.Path(s)),
    }


# ------------------------------------------------------------------ the property, evaluated without the model
def is_plain(s):
    """unquoted: no quote character, not a bracketed name"""
    return not any(q in s for q in QUOTE_CHARS) and not (s.startswith("[") and s.endswith("]"))


def quoted_inner(s):
    """the text between the quotes when `s` is one simply quoted identifier ("x", `x`, [x] with x free of quote
    characters and brackets), else None"""
    if len(s) >= 2 and ((s[0] == s[-1] and s[0] in '"`') or (s[0] == "[" and s[-1] == "]")):
        x = s[1:-1]
        if not any(c in x for c in "\"`'[]"):
            return x
    return None


def prescribed(s):
    """what the property prescribes for one identifier part, or None where it says nothing"""
    if is_plain(s):
        return s.lower()
    return quoted_inner(s)


def direct_failures(impl, s, rec, cfg, schema_arg):
    """property clauses on the implementation's own results for the raw string `s`"""
    f = []
    want = quoted_inner(s)
    if want is not None and rec["escape"] != want:
        f.append(f"escape_identifier_name({s!r}) = {rec['escape']!r}, a quoted name keeps its case and loses only the "
                 f"quotes: {want!r}")
    if is_plain(s):
        # the property fixes no normal form for unquoted names: only that case is ignored and nothing else is lost
        for other in {s.upper(), s.lower(), s.swapcase()}:
            if impl.escape(other) != rec["escape"]:
                f.append(f"unquoted {s!r} and {other!r} normalise differently")
        if rec["escape"].lower() != s.lower():
            f.append(f"unquoted {s!r} normalises to {rec['escape']!r}: more than letter case changed")
    # one normalisation for every kind of entity
    if rec["column"]["raw"] != rec["escape"]:
        f.append(f"Column({s!r}).raw_name = {rec['column']['raw']!r} but the identifier normalises to {rec['escape']!r}")
    if s and rec["schema"]["raw"] != rec["escape"]:
        f.append(f"Schema({s!r}) = {rec['schema']['raw']!r} but the identifier normalises to {rec['escape']!r}")
    if rec["path"] != rec["escape"]:
        f.append(f"Path({s!r}) = {rec['path']!r} but the identifier normalises to {rec['escape']!r}")
    if not s:
        dflt = impl.escape(cfg) if cfg else "<default>"
        if rec["schema"]["raw"] != dflt:
            f.append(f"Schema('') = {rec['schema']['raw']!r}, expected the default {dflt!r}")
    if rec["schema"]["known"] != (rec["schema"]["str"] != "<default>"):
        f.append("Schema truthiness is not `name != <default>`")
    # last-dot split and part limit
    t = rec["table"]
    nparts = s.count(".") + 1
    if "err" in t:
        if t["err"] != "lineage":
            f.append(f"Table({s!r}) raised a non-library exception {t['err']}")
        elif nparts <= 3:
            f.append(f"Table({s!r}) rejected although it has {nparts} parts")
    else:
        if nparts > 3:
            f.append(f"Table({s!r}) accepted although it has {nparts} parts")
        elif "." in s:
            head, last = s[:s.rindex(".")], s[s.rindex(".") + 1:]
            if t["raw"] != impl.escape(last):
                f.append(f"Table({s!r}).raw_name = {t['raw']!r}, text after the last dot normalises to {impl.escape(last)!r}")
            want_schema = impl.escape(head) if head else (impl.escape(cfg) if cfg else "<default>")
            if t["schema"] != want_schema:
                f.append(f"Table({s!r}).schema = {t['schema']!r}, text before the last dot normalises to {want_schema!r}")
            given_known = (impl.escape(schema_arg) != "<default>") if schema_arg else False
            if t["warned"] != given_known:
                f.append(f"Table({s!r}, schema={schema_arg!r}) warning = {t['warned']}")
        else:
            if t["raw"] != rec["escape"]:
                f.append(f"Table({s!r}).raw_name = {t['raw']!r}")
            # no schema argument: the default schema configured at CALL time (D17 repaired)
            want_schema = impl.escape(schema_arg) if schema_arg else (impl.escape(cfg) if cfg else "<default>")
            if t["schema"] != want_schema:
                f.append(f"Table({s!r}).schema = {t['schema']!r}, expected {want_schema!r}")
            if t["warned"]:
                f.append(f"Table({s!r}) warned without a dotted name")
        if t["str"] != t["schema"] + "." + t["raw"]:
            f.append(f"str(Table({s!r})) is not schema.name")
    return f


def of_prescribed(parts):
    """printed name the property prescribes for a table reference, None where it says nothing"""
    names = [prescribed(p) for p in parts]
    if any(n is None or n == "" or "." in n for n in names):
        return None
    return ".".join(names) if len(names) > 1 else "<default>." + names[0]


def of_failures(impl, parts, alias, rec):
    f = []
    if "err" in rec:
        if rec["err"] != "lineage":
            f.append(f"SqlFluffTable.of({parts}) raised a non-library exception {rec['err']}")
        return f
    want = of_prescribed(parts)
    if want is not None and rec["str"] != want:
        f.append(f"table reference {'.'.join(parts)} is {rec['str']!r}, the property prescribes {want!r}")
    if alias and rec["alias"] != impl.escape(alias):
        f.append(f"alias {alias!r} recorded as {rec['alias']!r} but normalises to {impl.escape(alias)!r}")
    return f


def stable(impl, s):
    """normalising the already normalised name again changes nothing (true for unquoted and quoted lower-case names)"""
    e = impl.escape(s)
    return impl.escape(e) == e


# ------------------------------------------------------------------------------------------------ part A1
def all_strings(n):
    for k in range(n + 1):
        for t in itertools.product(ALPHABET, repeat=k):
            yield "".join(t)


def part_a1(chk, drv, impl):
    n = 6 if chk.tier == "thorough" else 5
    small = 4 if chk.tier == "thorough" else 3
    configs = [("", None, n), ("", "c", small), ("", "<default>", small), ("cD", None, small), ('"Cd"', None, small),
               ("cD", '"X"', small)]
    total = 0
    for cfg, schema_arg, bound in configs:
        strings = list(all_strings(bound))
        for i in range(0, len(strings), 20000):
            chunk = strings[i:i + 20000]
            req = {"cmd": "namesBatch", "ss": chunk, "cfg": cfg, "schema_arg": schema_arg}
            model = drv.ask1(req) if drv is not None else None
            if isinstance(model, dict) and "error" in model:
                raise Infra("model driver error: " + model["error"])
            impl_recs = impl.with_cfg(cfg, lambda: [impl_record(impl, s, schema_arg) for s in chunk])
            for j, s in enumerate(chunk):
                rec = impl_recs[j]
                total += 1
                nontrivial = rec["escape"] != s or "." in s
                chk.count(f"a1|{cfg}|{schema_arg}|{s}", nontrivial)
                fails = impl.with_cfg(cfg, lambda: direct_failures(impl, s, rec, cfg, schema_arg))
                if fails:
                    chk.violation("identifier normalisation / name construction: " + fails[0],
                                  {"kind": "direct", "s": s, "cfg": cfg, "schema_arg": schema_arg, "impl": rec,
                                   "failures": fails})
                    return total
                if model is not None and rec != model[j]:
                    if len(chk.stale) < 20:
                        chk.stale.append({"kind": "direct", "s": s, "cfg": cfg, "schema_arg": schema_arg,
                                          "impl": rec, "model": model[j]})
                elif total % 50021 == 7:
                    chk.sample({"string": s, "cfg": cfg, "schema_arg": schema_arg, "result": rec}, limit=3)
    return total


# ------------------------------------------------------------------------------------------------ part A2
def part_pool():
    two = [s for s in all_strings(2)]
    extra = ['"Ab"', "`Ab`", "[Ab]", "Ab", "AB", '"ab"', '"a.b"', '"A.b"', "[a b]", '""', "'Ab'", '"a"b"', "[A]]", '"[Ab]"',
             "`a``", "a b"]
    return two + extra


def part_a2(chk, drv, impl):
    pool = part_pool()
    small = ['a', 'B', 'aB', '"B"', '"aB"', '`aB`', '[aB]', '"a.B"', '""', '"', '.', '[B', "'B'", '"[B]"']
    if chk.tier == "thorough":
        small += ['B]', '`', "a'", ' B', '"a B"', "[a.B]"]
    cases = []
    for p in pool:
        for alias in (None, "", "Al", '"Al"'):
            cases.append(([p], alias, ""))
    for a in pool:
        for b in pool:
            cases.append(([a, b], None, ""))
    for a in small:
        for b in small:
            for c in small:
                cases.append(([a, b, c], None, ""))
                if a == small[0]:
                    cases.append(([a, b, c, "d"], None, ""))
    for a in small:
        cases.append(([a], None, "cD"))
        cases.append((["", a], None, "cD"))
        cases.append((['""', a], "al", '"Cd"'))
    model = drv.ask([{"cmd": "namesOf", "parts": p, "alias": al, "cfg": cfg} for p, al, cfg in cases]) if drv else None
    n = 0
    for i, (parts, alias, cfg) in enumerate(cases):
        def build():
            seg = table_segment(parts)
            return impl.SqlFluffTable.of(seg, alias) if alias is not None else impl.SqlFluffTable.of(seg)
        rec, _ = impl.with_cfg(cfg, lambda: table_rec(impl, build))
        n += 1
        chk.count(("a2", tuple(parts), alias, cfg), len(parts) > 1 or rec.get("raw") != parts[0])
        fails = of_failures(impl, parts, alias, rec) if not cfg else []
        if fails:
            chk.violation("table reference: " + fails[0],
                          {"kind": "of", "parts": parts, "alias": alias, "cfg": cfg, "impl": rec, "failures": fails})
            return n
        if model is not None:
            if "error" in model[i]:
                raise Infra("model driver error: " + model[i]["error"])
            if rec != model[i] and len(chk.stale) < 20:
                chk.stale.append({"kind": "of", "parts": parts, "alias": alias, "cfg": cfg, "impl": rec, "model": model[i]})
        if n % 4001 == 3:
            chk.sample({"of_parts": parts, "alias": alias, "result": rec}, limit=5)
    return n


# ------------------------------------------------------------------------------------------------ part A3
def build_parent(impl, spec):
    if spec[0] == "table":
        return impl.Table(spec[1])
    if spec[0] == "tableOf":
        seg = table_segment(spec[1])
        return impl.SqlFluffTable.of(seg, spec[2]) if spec[2] else impl.SqlFluffTable.of(seg)
    if spec[0] == "path":
        return impl.Path(spec[1])
    if spec[0] == "subquery":
        return impl.SubQuery(None, spec[1], spec[2])
    raise ValueError(spec)


def alias_map_of(tables):
    """holders.py get_alias_mapping_from_table_group restricted to tables"""
    return ({t.alias: t for t in tables} | {t.raw_name: t for t in tables} | {str(t): t for t in tables})


def run_src(impl, case):
    with warnings.catch_warnings():
        warnings.simplefilter("ignore")
        if "tables" in case:
            amap = alias_map_of([build_parent(impl, t) for t in case["tables"]])
        else:
            amap = {k: build_parent(impl, p) for k, p in case["alias_map"]}
        kw = {} if case["source_columns"] is None else {"source_columns": [tuple(x) for x in case["source_columns"]]}
        col = impl.Column(case["name"], **kw)
        try:
            srcs = col.to_source_columns(amap)
        except Exception as e:
            return {"err": impl.err(e)}, None, None
    recs = sorted((column_rec(c) for c in srcs), key=canon_json)
    return {"target": column_rec(col), "sources": recs}, col, srcs


def src_failures(impl, case, rec):
    """same spelling -> same entity, on the implementation alone.  Returns (failures, known-finding id or None)."""
    f = []
    if "err" in rec:
        return ([f"to_source_columns raised a non-library exception {rec['err']}"] if rec["err"] != "lineage" else []), None
    known = None
    srcs = case["source_columns"]
    if srcs is None or "tables" not in case:
        return f, None
    with warnings.catch_warnings():
        warnings.simplefilter("ignore")
        tables = [build_parent(impl, t) for t in case["tables"]]
        for name, q in srcs:
            as_target = impl.Column(name).raw_name          # the same spelling in target position
            mine = [s for s in rec["sources"] if s["raw"] == as_target]
            if name == "*" and q is None and not tables:
                continue        # `select *` over nothing has no source
            if not mine:
                f.append(f"column spelled {name!r} is {as_target!r} as a target but is read as "
                         f"{sorted({s['raw'] for s in rec['sources']})} as a source")
                continue
            if q is not None:
                # the qualifier spelled q must denote the table spelled q in the FROM list, when there is one
                same = [t for t, tspec in zip(tables, case["tables"]) if tspec[0] == "tableOf" and tspec[1][-1] == q and not tspec[2]]
                if same:
                    want = ["Table", str(same[-1])]
                    if not any(s["parents"] == [want] for s in mine):
                        f.append(f"qualifier {q!r} does not resolve to the table spelled {q!r} ({want[1]})")
                elif impl.escape(q) not in alias_map_of(tables) and "." not in q:
                    # unknown qualifier: the fallback table must be the table the same spelling denotes elsewhere
                    want = ["Table", str(impl.SqlFluffTable.of(table_segment([q])))]
                    if not any(s["parents"] == [want] for s in mine):
                        got = [s["parents"] for s in mine]
                        msg = f"unknown qualifier {q!r} falls back to {got} but the same spelling names {want[1]} as a table"
                        twice = ["Table", "<default>." + impl.escape(impl.escape(q))]
                        if not stable(impl, q) and all(s["parents"] == [twice] for s in mine):
                            known = "D20-unknown-qualifier"
                        f.append(msg)
    return f, known


def part_a3(chk, drv, impl):
    names = ["c", "C", '"Cd"', "`Cd`", "[Cd]", '"cd"', "*", "Cd", '"[C]"', "'Cd'", "a.b", ""]
    quals = [None, "t", "T", '"T"', '"Tb"', "`Tb`", "[Tb]", "Tb", "al", '"Al"', "s.t", "a.b.c.d", '"s.T"', ""]
    table_sets = [
        [],
        [["tableOf", ["t"], None]],
        [["tableOf", ['"Tb"'], None]],
        [["tableOf", ["`Tb`"], None]],
        [["tableOf", ["[Tb]"], None]],
        [["tableOf", ["Tb"], None]],
        [["tableOf", ["s", "t"], "al"]],
        [["tableOf", ['"S"', '"T"'], '"Al"']],
        [["tableOf", ["t"], None], ["tableOf", ["u", '"Tb"'], None]],
        [["tableOf", ["t"], "x"], ["tableOf", ["t"], "y"]],
        [["tableOf", ['"T"'], None], ["tableOf", ["t"], None]],
    ]
    cases = []
    for ts in table_sets:
        for nm in names:
            for q in quals:
                cases.append({"name": "x", "source_columns": [[nm, q]], "tables": ts})
        cases.append({"name": '"Xy"', "source_columns": None, "tables": ts})
        cases.append({"name": "x", "source_columns": [["c", None], ["C", "t"], ['"Cd"', None], ["*", None]], "tables": ts})
    # explicit mappings with non-table owners
    for nm in names[:8]:
        for q in (None, "q", "p", '"Q"'):
            cases.append({"name": "x", "source_columns": [[nm, q]],
                          "alias_map": [["q", ["subquery", "(select 1)", "q"]], ["p", ["path", "'s3://B/x'"]],
                                        ["t", ["table", "s.T"]], ["Q", ["subquery", "(select 2)", '"Q"']]]})
    model = drv.ask([dict(c, cmd="namesSrc") for c in cases]) if drv else None
    n = 0
    for i, case in enumerate(cases):
        rec, _, _ = run_src(impl, case)
        n += 1
        chk.count(("a3", canon_json(case)), "sources" in rec and len(rec["sources"]) > 0)
        fails, known = src_failures(impl, case, rec)
        model_rec = None
        if model is not None:
            if "error" in model[i]:
                raise Infra("model driver error: " + model[i]["error"] + " on " + canon_json(case))
            model_rec = model[i]
            if "sources" in model_rec:
                model_rec = dict(model_rec, sources=sorted(model_rec["sources"], key=canon_json))
        agrees = model_rec is None or model_rec == rec
        if fails:
            if known and chk.finding(known) and agrees:
                chk.known(known)
            else:
                chk.violation("source column resolution: " + fails[0],
                              {"kind": "src", "case": case, "impl": rec, "failures": fails})
                return n
        elif not agrees and len(chk.stale) < 20:
            chk.stale.append({"kind": "src", "case": case, "impl": rec, "model": model_rec})
        if n % 401 == 5:
            chk.sample({"to_source_columns": case, "result": rec}, limit=7)
    return n


# ------------------------------------------------------------------------------------------------ part A4
def part_a4(chk, drv, impl):
    """eq => equal hash on the real objects, all pairs of a pool; eq itself compared with the model's
    'equality of printed names'."""
    base = list(all_strings(2))
    longer = [s for s in all_strings(4) if len(s) > 2]
    extra = chk.rng.sample(longer, 260 if chk.tier == "thorough" else 110)
    strings = base + extra + ['"Ab"', "Ab", "ab", "AB", "`Ab`", "[Ab]", "s.T", "S.t", '"s".T', "<default>.ab", "<DEFAULT>"]
    objs = []
    with warnings.catch_warnings():
        warnings.simplefilter("ignore")
        parent_t, parent_u = impl.Table("s.t"), impl.Table("s.u")
        for s in strings:
            objs.append((("Schema", s), impl.Schema(s)))
            try:
                objs.append((("Table", s), impl.Table(s)))
            except impl.LineageExc:
                pass
            objs.append((("Path", s), impl.Path(s)))
            objs.append((("Column", s), impl.Column(s)))
            c = impl.Column(s); c.parent = parent_t
            objs.append((("Column@s.t", s), c))
            if len(s) <= 2:
                c = impl.Column(s); c.parent = parent_t; c.parent = parent_u
                objs.append((("Column@s.t+s.u", s), c))
                c = impl.Column(s); c.parent = impl.Path("p")
                objs.append((("Column@path", s), c))
                objs.append((("SubQuery", s), impl.SubQuery(None, s, "al")))
                objs.append((("SubQuery/alias2", s), impl.SubQuery(None, s, s)))
    # entities PARSED from SQL by either analyzer (their attributes may be adjusted after construction, e.g. the schema of
    # `SqlFluffTable.of`): they must obey eq => hash against directly constructed ones too (seeded mutant C16/2)
    from sqllineage.runner import LineageRunner
    parsed_sql = [
        ("ansi", 'insert into "Db"."Sc"."Tb" select x."Ab", y.cd from "Sc"."Tb" x join sc.tb y on x.k = y.k'),
        ("ansi", 'create table "Sc".t2 as select "Ab" from "Sc"."Tb"'),
        ("mysql", "insert into `Sc`.`Tb` select `Ab` from `Db`.`Sc`.`Src` s"),
        ("tsql", "insert into [Sc].[Tb] select [Ab] from [Sc].[Src]"),
        ("non-validating", 'insert into "Sc"."Tb" select "Ab" from "Sc"."Src"'),
    ]
    with warnings.catch_warnings():
        warnings.simplefilter("ignore")
        for d_, q_ in parsed_sql:
            try:
                lr = LineageRunner(q_, dialect=d_)
                ts = list(lr.source_tables) + list(lr.target_tables)
                cs = [c for p_ in lr.get_column_lineage() for c in p_]
            except Exception:
                continue
            for t_ in ts:
                objs.append((("ParsedTable", f"{d_}:{t_}"), t_))
                if hasattr(t_, "schema"):
                    objs.append((("ParsedSchema", f"{d_}:{t_.schema}"), t_.schema))
            for c_ in cs:
                objs.append((("ParsedColumn", f"{d_}:{c_}"), c_))
        for s_ in ['"Sc"', "`Sc`", "[Sc]", "Sc", "sc", '"Db"."Sc"', '"Sc"."Tb"', '"Db"."Sc"."Tb"', "sc.tb", '"Ab"']:
            objs.append((("Schema", s_), impl.Schema(s_)))
            try:
                objs.append((("Table", s_), impl.Table(s_)))
            except impl.LineageExc:
                pass
    hashes = [hash(o) for _, o in objs]
    # model view of equality: same class, same printed name (Column: and same unique owner; SubQuery: same query text)
    def key(spec, o):
        cls = type(o).__name__
        if cls == "SubQuery":
            return (cls, o.query_raw)
        if cls == "Column":
            p = o.parent
            return (cls, str(o), None if p is None else (type(p).__name__, str(p)))
        return (cls, str(o))
    keys = [key(s, o) for s, o in objs]
    n = eqs = 0
    for i in range(len(objs)):
        oi, hi, ki = objs[i][1], hashes[i], keys[i]
        for j in range(i, len(objs)):
            e = oi == objs[j][1]
            n += 1
            if e:
                eqs += 1
                if hi != hashes[j]:
                    chk.violation("two entities compare equal but hash differently",
                                  {"kind": "eqhash", "a": list(objs[i][0]), "b": list(objs[j][0])})
                    return n, eqs
                if not (objs[j][1] == oi):
                    chk.violation("equality is not symmetric", {"kind": "eqhash", "a": list(objs[i][0]), "b": list(objs[j][0])})
                    return n, eqs
            if e != (ki == keys[j]) and len(chk.stale) < 20:
                chk.stale.append({"kind": "eqhash", "a": list(objs[i][0]), "b": list(objs[j][0]), "impl_eq": e,
                                  "model_eq": ki == keys[j]})
    # the Lean definitions of eq (Schema/Table/Path/SubQuery/Column.eq, Parent.eq, addParent) against real `==`
    if drv is not None:
        pool = list(all_strings(1)) + ['"Ab"', "Ab", "ab", "`Ab`", "[Ab]", "s.T", "S.t", '"s".T', "<default>.ab", "<DEFAULT>",
                                       "a.b.c.d", '"a.b"']
        ents = []
        for s_ in pool:
            ents += [["Schema", s_], ["Table", s_], ["Path", s_], ["Column", s_, []],
                     ["Column", s_, [["table", "s.t"]]], ["Column", s_, [["table", "S.T"], ["table", "s.t"]]],
                     ["Column", s_, [["table", "s.t"], ["table", "s.u"]]], ["Column", s_, [["path", "p"]]],
                     ["Column", s_, [["subquery", "(q)", "s.t"]]], ["SubQuery", s_, "al"], ["SubQuery", s_, "s.t"]]
        real = []
        with warnings.catch_warnings():
            warnings.simplefilter("ignore")
            for e in ents:
                try:
                    if e[0] == "Column":
                        o = impl.Column(e[1])
                        for ps in e[2]:
                            o.parent = build_parent(impl, ps)
                    elif e[0] == "SubQuery":
                        o = impl.SubQuery(None, e[1], e[2])
                    else:
                        o = {"Schema": impl.Schema, "Table": impl.Table, "Path": impl.Path}[e[0]](e[1])
                except impl.LineageExc:
                    o = None
                real.append(o)
        ans = drv.ask1({"cmd": "namesEq", "ents": ents})
        if "error" in ans:
            raise Infra("model driver error: " + ans["error"])
        model_eq = {tuple(x) for x in ans["eq"]}
        impl_eq = {(i, j) for i in range(len(real)) for j in range(i, len(real))
                   if real[i] is not None and real[j] is not None and real[i] == real[j]}
        impl_str = [None if o is None else str(o) for o in real]
        n += len(real) * (len(real) + 1) // 2
        if impl_str != ans["str"] or impl_eq != model_eq:
            diff = sorted(impl_eq ^ model_eq)[:5]
            chk.stale.append({"kind": "eq-model", "pairs": [[ents[i], ents[j], (i, j) in impl_eq] for i, j in diff],
                              "str_diff": [[ents[i], a, b] for i, (a, b) in enumerate(zip(impl_str, ans["str"])) if a != b][:5]})
        chk.coverage["eq_pairs_vs_model"] = len(real) * (len(real) + 1) // 2
    chk.count(("a4", len(objs)), True, n=n)
    chk.sample({"eq_hash_pool": len(objs), "pairs": n, "equal_pairs": eqs}, limit=8)
    return n, eqs


def build_obj(impl, spec):
    kind, s = spec
    with warnings.catch_warnings():
        warnings.simplefilter("ignore")
        if kind == "Schema":
            return impl.Schema(s)
        if kind == "Table":
            return impl.Table(s)
        if kind == "Path":
            return impl.Path(s)
        if kind.startswith("SubQuery"):
            return impl.SubQuery(None, s, "al" if kind == "SubQuery" else s)
        c = impl.Column(s)
        if kind == "Column@s.t":
            c.parent = impl.Table("s.t")
        elif kind == "Column@s.t+s.u":
            c.parent = impl.Table("s.t"); c.parent = impl.Table("s.u")
        elif kind == "Column@path":
            c.parent = impl.Path("p")
        return c


# ------------------------------------------------------------------------------------------------ part B (SQL level)
QUOTES = {"ansi": ['""'], "mysql": ["``"], "bigquery": ["``"], "sparksql": ["``"], "tsql": ["[]", '""']}
CASES = ["lower", "UPPER", "Mixed"]
BASE = {"db": "dbq", "sc": "scq", "tb": "tbq", "co": "coq", "al": "alq"}

TABLE_T = {
    "from": "insert into zt select cx from {T}",
    "join": "insert into zt select a.cx from za a join {T} b on a.i = b.i",
    "insert_target": "insert into {T} select cx from zs",
    "ctas_target": "create table {T} as select cx from zs",
    "view_target": "create view {T} as select cx from zs",
    "qualifier": "insert into zt select {T}.cx from {T}",
    "qualifier_join": "insert into zt select {T}.cx, za.cy from za join {T} on za.i = {T}.i",
    "chain": "insert into {T} select cx from zs; insert into zu select cx from {T}",
    "chain_ctas": "create table {T} as select cx from zs; insert into zu select cx from {T}",
    "chain_qualified": "insert into {T} select zs.cx from zs; insert into zu select {T}.cx from {T}",
    "update": "update {T} set cx = 1",
    "drop_after": "insert into {T} select cx from zs; drop table {T}",
}
ALIAS_T = {
    "alias": "insert into zt select {A}.cx from zs {A}",
    "alias_as": "insert into zt select {A}.cx from zs as {A}",
    "alias_join": "insert into zt select {A}.cx, b.cy from zs {A} join za b on {A}.i = b.i",
    "subquery_alias": "insert into zt select {A}.cx from (select cx from zs) {A}",
    "cte_name": "insert into zt with {A} as (select cx from zs) select cx from {A}",
    "cte_name_qualifier": "insert into zt with {A} as (select cx from zs) select {A}.cx from {A}",
}
COLUMN_T = {
    "select_item": "insert into zt select {C} from zs",
    "qualified": "insert into zt select zs.{C} from zs",
    "alias_qualified": "insert into zt select a.{C} from zs a",
    "alias_def": "insert into zt select cx as {C} from zs",
    "column_list": "insert into zt ({C}) select cx from zs",
    "expression": "insert into zt select {C} + 1 as zz from zs",
    "function": "insert into zt select max({C}) as zz from zs",
    "case_when": "insert into zt select case when {C} > 1 then {C} else 0 end as zz from zs",
    "union": "insert into zt select {C} from zs union all select {C} from za",
    "subquery": "insert into zt select {C} from (select {C} from zs) q",
    "subquery_qualified": "insert into zt select q.{C} from (select {C} from zs) q",
    "subquery_star": "insert into zt select * from (select {C} from zs) q",
    "cte": "insert into zt with q as (select {C} from zs) select {C} from q",
    "chain_item": "insert into zt select {C} from zs; insert into zu select {C} from zt",
    "chain_alias": "insert into zt select cx as {C} from zs; insert into zu select {C} from zt",
    "chain_list": "insert into zt ({C}) select cx from zs; insert into zu select {C} from zt",
    "chain_ctas": "create table zt as select {C} from zs; insert into zu select {C} from zt",
    "chain_expr": "insert into zt select {C} from zs; insert into zu select {C} + 1 as zz from zt",
    "chain_qualified": "insert into zt select zs.{C} from zs; insert into zu select zt.{C} from zt",
    "chain_join": "insert into zt select {C} from zs; insert into zu select {C} from zt join zw on zt.i = zw.i",
    "chain3": "insert into zt select {C} from zs; insert into zu select {C} from zt; insert into zv select {C} from zu",
    "scalar_subquery": "insert into zt select (select max({C}) from za) as zz from zs",
}
def recase(w, c):
    return {"lower": w.lower(), "UPPER": w.upper(), "Mixed": w[0].upper() + w[1:].lower()}[c]


def render(role, case, quote):
    w = recase(BASE[role], case)
    return w if quote is None else quote[0] + w + quote[1]


def prescribed_part(role, case, quote):
    w = recase(BASE[role], case)
    return w.lower() if quote is None else w


def run_sql(impl, sql, dialect):
    with warnings.catch_warnings():
        warnings.simplefilter("ignore")
        try:
            r = impl.Runner(sql, dialect=dialect)
            paths = sorted([str(c) for c in p] for p in r.get_column_lineage())
            return {"status": "ok", "src": sorted(map(str, r.source_tables)), "tgt": sorted(map(str, r.target_tables)),
                    "inter": sorted(map(str, r.intermediate_tables)), "paths": paths}
        except impl.InvalidSyntax:
            return {"status": "rejected"}
        except impl.Unsupported:
            return {"status": "unsupported"}
        except impl.LineageExc:
            return {"status": "lineage-error"}
        except Exception as e:
            return {"status": "internal:" + type(e).__name__}


def rename(res, mapping, head_mapping=None):
    """the reference result with the reference names replaced; `head_mapping` (model only) names the first column of
    each path, i.e. the column in pure source position"""
    def s(x, m):
        for k, v in m.items():
            x = x.replace(k, v)
        return x
    if res["status"] != "ok":
        return res
    paths = []
    for p in res["paths"]:
        if head_mapping is not None and head_mapping != mapping and len(p) > 2:
            return {"status": "chain-broken-per-model"}
        paths.append([s(c, head_mapping if (i == 0 and head_mapping is not None) else mapping) for i, c in enumerate(p)])
    return {"status": "ok", "src": sorted(s(x, mapping) for x in res["src"]), "tgt": sorted(s(x, mapping) for x in res["tgt"]),
            "inter": sorted(s(x, mapping) for x in res["inter"]), "paths": sorted(paths)}


def has_chain(res):
    return res["status"] == "ok" and any(len(p) >= 3 for p in res["paths"])


def spellings_uniform(dialect):
    for case in CASES:
        for q in [None] + QUOTES[dialect]:
            yield case, q


def table_spellings(chk, dialect, k):
    """list of per-part (case, quote) tuples"""
    uni = [tuple((c, q) for _ in range(k)) for c, q in spellings_uniform(dialect)]
    if chk.tier != "thorough" or k == 1:
        return uni
    per_part = list(spellings_uniform(dialect))
    allc = list(itertools.product(per_part, repeat=k))
    if k == 3:
        allc = chk.rng.sample(allc, min(len(allc), 120))
    return uni + [c for c in allc if c not in uni]


def sql_cases(chk, dialect):
    """yield (group, template id, reference sql, [(descr, sql, mapping, roles)])"""
    for k in (1, 2, 3):
        roles = ["db", "sc", "tb"][3 - k:]
        for tid, tmpl in TABLE_T.items():
            variants = []
            for sp in table_spellings(chk, dialect, k):
                T = ".".join(render(r, c, q) for r, (c, q) in zip(roles, sp))
                variants.append((T, tmpl.format(T=T), {BASE[r]: prescribed_part(r, c, q) for r, (c, q) in zip(roles, sp)},
                                 [(r, render(r, c, q)) for r, (c, q) in zip(roles, sp)]))
            yield "table", f"{tid}/{k}", tmpl.format(T=".".join(BASE[r] for r in roles)), variants
    for group, role, key in ((ALIAS_T, "al", "A"), (COLUMN_T, "co", "C")):
        for tid, tmpl in group.items():
            variants = []
            for c, q in spellings_uniform(dialect):
                X = render(role, c, q)
                variants.append((X, tmpl.format(**{key: X}), {BASE[role]: prescribed_part(role, c, q)}, [(role, X)]))
            yield ("alias" if role == "al" else "column"), tid, tmpl.format(**{key: BASE[role]}), variants


def scalar_subquery_known(tid, spelled, got, want, ref):
    """deviation class of finding D20-scalar-subquery: a quoted ("…", `…` or […]) column with upper-case letters read
    inside a scalar subquery of the select list comes out lower-cased — and nothing else differs"""
    if tid != "scalar_subquery" or got["status"] != "ok":
        return False
    x = spelled[0][1]
    if not (x[0] in '"`[' and x[1:-1] != x[1:-1].lower()):
        return False
    return got == rename(ref, {BASE["co"]: x[1:-1].lower()})


def part_b(chk, drv, impl):
    dialects = ["ansi", "mysql", "tsql"] + (["sparksql", "bigquery"] if chk.tier == "thorough" else [])
    stats = {"runs": 0, "rejected": 0, "not_applicable_templates": [], "per_dialect": {}}
    # model answers are fetched in bulk: sites per spelled text, table names per part list
    site_cache, of_cache = {}, {}

    def sites(text):
        if text not in site_cache:
            site_cache[text] = drv.ask1({"cmd": "namesSites", "s": text})
        return site_cache[text]

    def of_name(parts):
        k = tuple(parts)
        if k not in of_cache:
            of_cache[k] = drv.ask1({"cmd": "namesOf", "parts": list(parts)})
        return of_cache[k]

    failed = set()    # groups (table / alias / column) that already produced a failing input on this run
    for d in dialects:
        acc = {"ok": 0, "rejected": 0, "templates": 0}
        for group, tid, ref_sql, variants in sql_cases(chk, d):
            if group in failed:
                continue
            ref = run_sql(impl, ref_sql, d)
            stats["runs"] += 1
            if ref["status"] != "ok" or (not ref["paths"] and group != "table") or \
                    (tid.split("/")[0].startswith("chain") and not has_chain(ref)):
                # the template itself is not analysed as intended under this dialect (or the unchanged reference
                # already lacks the chain): nothing about spellings can be concluded from it
                stats["not_applicable_templates"].append([d, tid, ref["status"]])
                if tid.split("/")[0].startswith("chain") and ref["status"] == "ok":
                    chk.violation("two-statement chain s -> t -> u is not connected even for the plain lower-case spelling",
                                  {"kind": "sql", "dialect": d, "template": tid, "sql": ref_sql, "ref_sql": ref_sql,
                                   "mapping": {}, "got": ref})
                    failed.add(group)
                continue
            acc["templates"] += 1
            for spelled_text, sql, mapping, roles in variants:
                got = run_sql(impl, sql, d)
                stats["runs"] += 1
                key = ("b", d, tid, spelled_text)
                if got["status"] in ("rejected", "unsupported"):
                    stats["rejected"] += 1; acc["rejected"] += 1
                    chk.count(key, False)
                    continue
                acc["ok"] += 1
                want = rename(ref, mapping)
                chk.count(key, spelled_text != spelled_text.lower() or not spelled_text[0].isalpha())
                # model prediction (role aware)
                model_res = None
                if drv is not None:
                    if group == "table":
                        o = of_name([t for _, t in roles])
                        if "err" not in o:
                            ref_name = ".".join(BASE[r] for r, _ in roles)
                            ref_printed = ref_name if len(roles) > 1 else "<default>." + ref_name
                            model_res = rename(ref, {ref_printed: o["str"]})
                    elif group == "column":
                        a = sites(roles[0][1])
                        if tid == "scalar_subquery":
                            model_res = rename(ref, {BASE["co"]: a["col_scalar_subquery"]})
                        else:
                            model_res = rename(ref, {BASE["co"]: a["col_target"]}, {BASE["co"]: a["col_source"]})
                    else:
                        a = sites(roles[0][1])
                        # the alias is recorded as escape(alias) (Table.alias / SubQuery.alias) and looked up under the
                        # normalised qualifier
                        model_res = rename(ref, {BASE["al"]: a["col_target"]}) if a["qualifier_key"] == a["col_target"] \
                            else {"status": "alias-unresolved-per-model"}
                if got == want:
                    if model_res is not None and model_res != got and len(chk.stale) < 20:
                        chk.stale.append({"kind": "sql", "dialect": d, "template": tid, "sql": sql, "impl": got, "model": model_res})
                    if stats["runs"] % 97 == 0:
                        chk.sample({"dialect": d, "template": tid, "sql": sql, "result": got}, limit=12)
                    continue
                # the property fails on the implementation for this spelling
                if scalar_subquery_known(tid, roles, got, want, ref) and chk.finding("D20-scalar-subquery") \
                        and (model_res is None or model_res == got):
                    chk.known("D20-scalar-subquery")
                    continue
                diff = {k: [got.get(k), want.get(k)] for k in want if got.get(k) != want.get(k)}
                chk.violation(f"[{d}] spelling {spelled_text} at position `{tid}`: printed names / lineage differ from the "
                              f"same statement under the plain spelling (got vs prescribed): {json.dumps(diff)[:300]}",
                              {"kind": "sql", "dialect": d, "template": tid, "sql": sql, "ref_sql": ref_sql,
                               "mapping": mapping, "got": got, "want": want})
                failed.add(group)
                break
        stats["per_dialect"][d] = acc
    return stats


# ------------------------------------------------------------------------------------------------ known findings
def replay_findings(chk, impl):
    """DESIGN §2.5 step 7: the stored witness of every recorded finding must still fail as recorded; if it no longer
    does the code changed -> stale correspondence (the model still carries the deviation)."""
    for e in chk.findings:
        if e.get("status") != "finding":
            continue
        w = e["witness"]
        if w["kind"] == "src":
            rec, _, _ = run_src(impl, w["case"])
            fails, known = src_failures(impl, w["case"], rec)
            still = bool(fails) and known == e["id"]
        elif w["kind"] == "sql":
            got = run_sql(impl, w["sql"], w["dialect"])
            ref = run_sql(impl, w["ref_sql"], w["dialect"])
            still = got["status"] == "ok" and ref["status"] == "ok" and got != rename(ref, w["mapping"]) \
                and got == rename(ref, w["observed_mapping"])
        elif w["kind"] == "sql-expect":
            # the SQL must still give the recorded (wrong) column pairs and not the pairs the property demands
            got = run_sql(impl, w["sql"], w["dialect"])
            pairs = sorted([p[0], p[-1]] for p in got.get("paths", []))
            still = got["status"] == "ok" and pairs == sorted(w["observed_pairs"]) and pairs != sorted(w["expected_pairs"])
        else:
            continue
        if still:
            chk.known(e["id"])
        else:
            chk.stale.append({"kind": "finding-no-longer-reproduces", "id": e["id"], "witness": w})


# ------------------------------------------------------------------------------------------------ replay
def replay(chk, obj):
    impl = Impl()
    if obj.get("replay", {}).get("kind") == "default-schema-spelling":
        n0 = len(chk.violations)
        part_default_schema_spelling(chk, impl)
        return 1 if len(chk.violations) > n0 else 0
    r = obj["replay"]
    kind = r.get("kind")
    if kind == "direct":
        rec = impl.with_cfg(r["cfg"], lambda: impl_record(impl, r["s"], r["schema_arg"]))
        fails = impl.with_cfg(r["cfg"], lambda: direct_failures(impl, r["s"], rec, r["cfg"], r["schema_arg"]))
        print(json.dumps({"impl": rec, "failures": fails}, indent=1))
        return 1 if fails else 0
    if kind == "of":
        def build():
            seg = table_segment(r["parts"])
            return impl.SqlFluffTable.of(seg, r["alias"]) if r["alias"] is not None else impl.SqlFluffTable.of(seg)
        rec, _ = impl.with_cfg(r["cfg"], lambda: table_rec(impl, build))
        fails = of_failures(impl, r["parts"], r["alias"], rec)
        print(json.dumps({"impl": rec, "failures": fails}, indent=1))
        return 1 if fails else 0
    if kind == "src":
        rec, _, _ = run_src(impl, r["case"])
        fails, known = src_failures(impl, r["case"], rec)
        print(json.dumps({"impl": rec, "failures": fails, "finding_class": known}, indent=1))
        return 1 if fails else 0
    if kind == "eqhash":
        a, b = build_obj(impl, r["a"]), build_obj(impl, r["b"])
        res = {"eq": a == b, "eq_reverse": b == a, "hash_equal": hash(a) == hash(b)}
        print(json.dumps(res))
        return 1 if (res["eq"] and not res["hash_equal"]) or res["eq"] != res["eq_reverse"] else 0
    if kind == "sql":
        got = run_sql(impl, r["sql"], r["dialect"])
        ref = run_sql(impl, r["ref_sql"], r["dialect"])
        want = rename(ref, r["mapping"])
        print(json.dumps({"sql": r["sql"], "got": got, "prescribed": want}, indent=1))
        if r["sql"] == r["ref_sql"]:
            return 0 if has_chain(got) else 1
        return 1 if got != want else 0
    print("replay file names no concrete input:", json.dumps(r)[:800])
    return 1


# ------------------------------------------------------------------------------------------------ run
def part_default_schema_spelling(chk, impl):
    """the default schema is an identifier too: spelled `ODS` (unquoted, through the environment variable or a scoped override) it
    denotes the schema that the qualifier `ODS` denotes in the text - so an unqualified `tgt` and a written `ODS.tgt` are the same
    table, compare equal, hash equally, and the chain through it connects (seeded change C16-4)."""
    n = 0
    for S in ("ODS", "Zq9X", "mixedCase_s"):
        for mech in ("env", "scoped"):
            sql = f"insert into {S}.tgt select a from {S}.src; insert into rpt select a from tgt"
            cm = None
            try:
                if mech == "env":
                    os.environ["SQLLINEAGE_DEFAULT_SCHEMA"] = S
                else:
                    cm = impl.cfg(DEFAULT_SCHEMA=S)
                    cm.__enter__()
                for d in ("ansi", "non-validating"):
                    got = run_sql(impl, sql, d)
                    a, b = impl.Table("tgt"), impl.Table(f"{S}.tgt")
                    same = (a == b, hash(a) == hash(b), str(a) == str(b))
                    n += 1
                    chk.count("default-schema-spelling:" + canon_json([S, mech, d]), True)
                    low = S.lower()
                    ok = got.get("status") == "ok" and got["inter"] == [f"{low}.tgt"] and \
                        [f"{low}.src.a", f"{low}.tgt.a", f"{low}.rpt.a"] in got["paths"] and same == (True, True, True)
                    if not ok:
                        chk.violation(f"the default schema {S!r} (set through {mech}) and the qualifier {S!r} written in the text denote "
                                      "different schemas: the chain through the unqualified table breaks / the two tables differ",
                                      {"kind": "default-schema-spelling", "schema": S, "mechanism": mech, "dialect": d, "sql": sql,
                                       "got": got, "table_eq_hash_str": list(same)})
                        return n
            finally:
                if cm is not None:
                    cm.__exit__(None, None, None)
                os.environ.pop("SQLLINEAGE_DEFAULT_SCHEMA", None)
    return n


def run(chk):
    impl = Impl()
    chk.coverage["default_schema_spelling_runs"] = part_default_schema_spelling(chk, impl)
    drv = Driver() if chk.lean.driver_ok else None
    if drv is None:
        chk.stale.append({"kind": "driver", "why": "model driver does not build"})
    t = time.time()
    replay_findings(chk, impl)
    n1 = part_a1(chk, drv, impl)
    log(f"[c16] A1 {n1} strings {time.time() - t:.1f}s"); t = time.time()
    # every part runs (each stops at its own first failing input), so one run names every position that fails
    n2 = part_a2(chk, drv, impl)
    log(f"[c16] A2 {n2} references {time.time() - t:.1f}s"); t = time.time()
    n3 = part_a3(chk, drv, impl)
    log(f"[c16] A3 {n3} source resolutions {time.time() - t:.1f}s"); t = time.time()
    n4 = part_a4(chk, drv, impl)
    log(f"[c16] A4 {n4[0]} pairs ({n4[1]} equal) {time.time() - t:.1f}s"); t = time.time()
    stats = part_b(chk, drv, impl)
    log(f"[c16] B {stats.get('runs')} runs, {stats.get('rejected')} rejected {time.time() - t:.1f}s")
    if chk.tier == "thorough" and chk.lean.build_ok:
        ok, out = leanchecker(["SqlLineage.Props.C16", "SqlLineage.Proofs.Ident", "SqlLineage.Proofs.Names",
                               "SqlLineage.Model.Names", "SqlLineage.Model.Ident"])
        chk.coverage["leanchecker_ok"] = ok
        if not ok:
            chk.lean.bad_axioms.append(("leanchecker", [out[-300:]]))
    chk.coverage.update({
        "exhaustive": not chk.violations,
        "repo_under_test": REPO,
        "exhaustive_scope": "A1-A3 enumerate their finite spaces completely; A4 is all pairs of a seeded pool; B enumerates "
                            "every uniform spelling x template x dialect (thorough: plus all per-part spellings for 2 parts "
                            "and a seeded sample for 3 parts)",
        "alphabet": ALPHABET,
        "max_length": 6 if chk.tier == "thorough" else 5,
        "strings_vs_model": n1, "table_references_vs_model": n2, "source_resolutions_vs_model": n3,
        "eq_hash_pairs": n4[0], "eq_hash_equal_pairs": n4[1],
        "sql_level": stats,
    })
    chk.assumptions += [
        "identifiers are ASCII (str.lower / str.strip on non-ASCII text is outside the model)",
        "SqlFluffTable.of is driven with duck-typed segments in A2; the real parse trees are exercised in B",
        "hash() of str is a function of the text within one process (PYTHONHASHSEED fixed by ./check)",
    ]
    return chk.finish(
        level="proof",
        rule="A1: every string over the printed alphabet up to max_length (plus shorter bounds under 5 other "
             "(configured default, schema argument) settings) through escape/Schema/Table/Column/Path, impl vs Lean model "
             "and vs the property clauses evaluated on the implementation; non-trivial = normalisation changes the text "
             "or the name is dotted.  A2: SqlFluffTable.of on 1-3(4) parts from a pool of all strings of length<=2 plus "
             "quoted samples.  A3: to_source_columns over names x qualifiers x table groups.  A4: all pairs of a pool of "
             "real objects, eq => equal hash.  B: spelling x position x dialect templates, result must equal the "
             "reference-spelling result renamed as the property prescribes; non-trivial = spelling is not the plain "
             "lower-case one.  distinct = distinct canonical case key",
        trusted_base=["Lean 4.33 kernel", "axioms: propext, Classical.choice, Quot.sound",
                      "tools/translate.py (Gen/Const.lean: quote_chars, Schema.unknown)",
                      "harness/c16.py correspondence (duck-typed segments, canonical records) and its property oracle"],
    )
