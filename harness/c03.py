"""C03 — script summary roles follow from per-statement reads and writes.

Correspondence (exhaustive): every history of <=3 (thorough: 4, sharded / sampled) abstract statements over tables
{a,b,c} — any read set x at most one write, DROP t, RENAME x TO y — is built with the public holder API and given to
`SQLLineageHolder.of(DummyMetaDataProvider(), *holders)`; node set with tags, table edges and the three role sets (or the
escaping exception) are compared with the Lean model `AStmt.build`.
Oracle for the failing-input search (no model): the history-level characterisation written from the property's text.
SQL level: random scripts rendered to real SQL through LineageRunner with a statement tap; the same characterisation is
evaluated on the per-statement read/write facts the tap recorded.
"""
import itertools
import json
import multiprocessing as mp
import os

import common
from common import Check, Driver, Infra, canon_json, log
import implgraph as IG

TABLES = ["a", "b", "c"]


def statement_values(tables=TABLES):
    vals = []
    for k in range(len(tables) + 1):
        for rs in itertools.combinations(tables, k):
            for w in [None] + tables:
                vals.append(["rw", list(rs), w])
    for t in tables:
        vals.append(["drop", t])
    for x in tables:
        for y in tables:
            if x != y:
                vals.append(["rename", [[x, y]]])
    return vals


# ------------------------------------------------------------------------------------------------- implementation
def impl_holder(stmt, rename_order=None):
    from sqllineage.core.holders import StatementLineageHolder
    from sqllineage.core.models import Table
    h = StatementLineageHolder()
    if stmt[0] == "rw":
        for r in stmt[1]:
            h.add_read(Table(r))
        if stmt[2] is not None:
            h.add_write(Table(stmt[2]))
    elif stmt[0] == "drop":
        h.add_drop(Table(stmt[1]))
    elif stmt[0] == "rename":
        for x, y in stmt[1]:
            h.add_rename(Table(x), Table(y))
        if rename_order is not None and len(stmt[1]) > 1:
            pairs = [(Table(x), Table(y)) for x, y in stmt[1]]
            ordered = [pairs[i] for i in rename_order]

            class Ordered(StatementLineageHolder):
                # harness-side tap: fixes the iteration order of the (hash-ordered) rename set
                @property
                def rename(self):
                    return ordered
            h2 = Ordered()
            h2.graph = h.graph
            return h2
    return h


def impl_outcome(history, rename_order=None):
    from sqllineage.core.holders import SQLLineageHolder
    from sqllineage.core.metadata.dummy import DummyMetaDataProvider
    from sqllineage.exceptions import SQLLineageException
    import warnings
    try:
        with warnings.catch_warnings():
            warnings.simplefilter("ignore")
            hs = [impl_holder(s, rename_order) for s in history]
            holder = SQLLineageHolder.of(DummyMetaDataProvider(), *hs)
    except SQLLineageException as e:
        return {"error": "lineage"}
    except Exception as e:
        site = "remove_edge" if type(e).__name__ == "NetworkXError" else type(e).__name__
        return {"error": "internal:" + site}
    nodes = [{"n": IG.node_json(n), "tags": dict(attr)} for n, attr in holder.graph.nodes(data=True)]
    return {"roles": IG.canon_roles(IG.roles_json(holder)), "nodes": IG.sort_json_list(nodes)}


def canon_model_outcome(o):
    if "error" in o:
        return o
    return {"roles": IG.canon_roles(o["roles"]), "nodes": IG.sort_json_list(o["nodes"])}


# ------------------------------------------------------------------------------------------------- property oracle
def tname(n):
    return n[2] if n[0] == "t" else None


def characterise(history):
    """the property's text, for histories without DROP/RENAME: expected table edges and role sets"""
    feeds = set()
    src_only, tgt_only = set(), set()
    for s in history:
        assert s[0] == "rw"
        rs, w = s[1], s[2]
        if rs and w is None:
            src_only |= set(rs)
        elif not rs and w is not None:
            tgt_only.add(w)
        else:
            for r in rs:
                if w is not None:
                    feeds.add((r, w))
    tables = {x for e in feeds for x in e} | src_only | tgt_only
    has_out = {r for r, _ in feeds}
    has_in = {w for _, w in feeds}
    selfl = {r for r, w in feeds if r == w}
    source = {t for t in tables if t in has_out and t not in has_in} | selfl | src_only
    target = {t for t in tables if t in has_in and t not in has_out} | selfl | tgt_only
    inter = {t for t in tables if t in has_in and t in has_out} - selfl
    return feeds, source, target, inter


def roles_of(out):
    r = out["roles"]
    return ({(tname(u), tname(v)) for u, v in r["table_edges"]}, {tname(n) for n in r["source"]},
            {tname(n) for n in r["target"]}, {tname(n) for n in r["intermediate"]})


def property_failures(history, out=None):
    """evaluate C03 on the implementation alone"""
    out = out or impl_outcome(history)
    fails = []
    plain = all(s[0] == "rw" for s in history)
    if "error" in out:
        if out["error"].startswith("internal") and not any(s[0] == "rename" and len(s[1]) > 1 for s in history):
            fails.append(f"assembly raised {out['error']}")
        return fails
    if plain:
        want = characterise(history)
        got = roles_of(out)
        for nm, w, g in zip(("table edges", "source", "target", "intermediate"), want, got):
            if w != g:
                fails.append(f"{nm}: implementation {sorted(g)} but the history implies {sorted(w)}")
        # order / repetition independence (implementation vs implementation)
        rev = impl_outcome(list(reversed(history)))
        dup = impl_outcome(history + history[:1])
        if "error" in rev or roles_of(rev) != got:
            fails.append("result depends on statement order")
        if "error" in dup or roles_of(dup) != got:
            fails.append("result depends on repeating a statement")
        return fails
    # histories with DROP / RENAME: step properties on the last statement
    last, prefix = history[-1], history[:-1]
    before = impl_outcome(prefix) if prefix else {"roles": {"source": [], "target": [], "intermediate": [], "table_edges": []}, "nodes": []}
    if "error" in before:
        return fails
    b_edges, b_src, b_tgt, b_int = roles_of(before)
    a_edges, a_src, a_tgt, a_int = roles_of(out)
    b_nodes = {tname(n["n"]) for n in before["nodes"] if n["n"][0] == "t"}
    a_nodes = {tname(n["n"]) for n in out["nodes"] if n["n"][0] == "t"}
    if last[0] == "drop":
        t = last[1]
        if a_edges != b_edges:
            fails.append("DROP changed table edges")
        for nm, b, a in (("source", b_src, a_src), ("target", b_tgt, a_tgt), ("intermediate", b_int, a_int)):
            if b - {t} != a - {t}:
                fails.append(f"DROP {t} disturbed the {nm} set of other tables")
        ever_used = any(s[0] == "rw" and (t in s[1]) for s in prefix) or any(t in e for e in b_edges)
        if t in b_nodes and t not in a_nodes and ever_used:
            fails.append(f"DROP removed {t} although something was read from it or wired to it")
        if t in (b_src | b_tgt | b_int) and any(t in e for e in b_edges) and t not in (a_src | a_tgt | a_int):
            fails.append(f"DROP {t} removed a table that has lineage")
    elif last[0] == "rename" and len(last[1]) == 1:
        x, y = last[1][0]
        if x != y and x in a_nodes:
            fails.append(f"RENAME {x} TO {y} left {x} in the graph")
        # x's lineage comes only from statements that both read and write other tables, and y is fresh
        plain_x = (x in b_nodes and y not in b_nodes and (x, x) not in b_edges
                   and not any(s[0] == "rw" and ((x in s[1] and s[2] is None) or (s[2] == x and not s[1])) for s in prefix)
                   and all(s[0] == "rw" for s in prefix))
        if plain_x:
            m = lambda t: y if t == x else t
            if {(m(u), m(v)) for u, v in b_edges} != a_edges:
                fails.append(f"RENAME {x} TO {y}: edges are not those of {x} moved to {y}")
            for nm, b, a in (("source", b_src, a_src), ("target", b_tgt, a_tgt), ("intermediate", b_int, a_int)):
                if {m(t) for t in b} != a:
                    fails.append(f"RENAME {x} TO {y}: {nm} set {sorted(a)} is not {sorted(m(t) for t in b)}")
    return fails


def shrink_history(history, pred):
    cur = list(history)
    ch = True
    while ch:
        ch = False
        for i in range(len(cur)):
            c = cur[:i] + cur[i + 1:]
            if c and pred(c):
                cur = c; ch = True; break
    return cur


# ------------------------------------------------------------------------------------------------- exhaustive part
def _impl_chunk(args):
    histories = args
    return [impl_outcome(h) for h in histories]


def compare_histories(chk, drv, histories, pool):
    reqs = [{"cmd": "asm", "stmts": h} for h in histories]
    model = drv.ask(reqs)
    n = len(histories)
    step = max(1, n // (pool._processes * 4))
    chunks = [histories[i:i + step] for i in range(0, n, step)]
    impl = [o for part in pool.map(_impl_chunk, chunks) for o in part]
    mism = 0
    for h, m, o in zip(histories, model, impl):
        if "error" in m and "outcomes" not in m:
            raise Infra("model driver error: " + str(m))
        outs = [canon_model_outcome(x) for x in m["outcomes"]]
        nontrivial = "roles" in o and bool(o["roles"]["table_edges"] or o["roles"]["source"] or o["roles"]["target"])
        chk.count(canon_json(h), nontrivial)
        if o in outs:
            if len({canon_json(x) for x in outs}) > 1:
                # outcome depends on the iteration order of a multi-pair rename (D10)
                if chk.finding("D10"):
                    chk.known("D10")
                else:
                    chk.violation("multi-pair RENAME: outcome depends on set iteration order",
                                  {"kind": "history", "history": h, "model_outcomes": outs})
            continue
        mism += 1
        fails = property_failures(h, o)
        if fails:
            small = shrink_history(h, lambda c: bool(property_failures(c)))
            chk.violation("table lineage of a history contradicts the per-statement reads/writes: " + property_failures(small)[0],
                          {"kind": "history", "history": small, "impl": impl_outcome(small), "failures": property_failures(small)})
            return mism
        if len(chk.stale) < 20:
            chk.stale.append({"kind": "history", "history": h, "impl": o, "model": outs})
    return mism


def multi_rename_histories():
    """two-pair renames after every single rw prefix, to expose order dependence"""
    out = []
    pairs = [[x, y] for x in TABLES for y in TABLES if x != y]
    two = [[p, q] for p in pairs for q in pairs if p != q]
    prefixes = [[]] + [[s] for s in statement_values() if s[0] == "rw" and (s[1] or s[2])]
    for pre in prefixes:
        for t in two:
            out.append(pre + [["rename", t]])
    return out


def part_multi_rename(chk, drv):
    """every pair order on the implementation (harness tap fixes the order) vs the model's outcome set"""
    hs = multi_rename_histories()
    if chk.tier == "quick":
        hs = hs[::7]
    model = drv.ask([{"cmd": "asm", "stmts": h} for h in hs])
    n = 0
    for h, m in zip(hs, model):
        outs = [canon_model_outcome(x) for x in m["outcomes"]]
        impl_outs = [impl_outcome(h, order) for order in ([0, 1], [1, 0])]
        n += 1
        chk.count("mr:" + canon_json(h), True)
        # model order k=0 is the graph order = insertion order = [0,1]; k=1 the swap
        if impl_outs != outs:
            if all(o in outs for o in impl_outs) and all(o in impl_outs for o in outs):
                pass
            else:
                if len(chk.stale) < 20:
                    chk.stale.append({"kind": "multi-rename", "history": h, "impl_by_order": impl_outs, "model": outs})
                continue
        if canon_json(impl_outs[0]) != canon_json(impl_outs[1]):
            if chk.finding("D10"):
                chk.known("D10")
            else:
                chk.violation("multi-pair RENAME: the outcome depends on the (hash-seed dependent) iteration order of the pair set",
                              {"kind": "multi-rename", "history": h, "impl_by_order": impl_outs})
                return n
    return n


# ------------------------------------------------------------------------------------------------- SQL level
def render_sql(stmt):
    if stmt[0] == "rw":
        rs, w = stmt[1], stmt[2]
        if rs:
            sel = "SELECT * FROM " + rs[0] + "".join(f" JOIN {r} ON 1=1" for r in rs[1:])
            return f"INSERT INTO {w} {sel}" if w else sel
        return f"INSERT INTO {w} VALUES (1)" if w else None
    if stmt[0] == "drop":
        return f"DROP TABLE {stmt[1]}"
    if stmt[0] == "rename":
        x, y = stmt[1][0]
        return f"ALTER TABLE {x} RENAME TO {y}"


def part_sql(chk, drv):
    """random longer scripts through the real runner; per-statement facts are read with a statement tap"""
    from sqllineage.runner import LineageRunner
    from sqllineage.core.parser.sqlfluff.analyzer import SqlFluffLineageAnalyzer
    n_scripts = 150 if chk.tier == "thorough" else 25
    tables = ["a", "b", "c", "d", "e"]
    vals = [v for v in statement_values(tables) if render_sql(v)]
    n = 0
    orig = SqlFluffLineageAnalyzer.analyze
    # systematic: the SAME statement text before and after every other statement (a cache keyed by statement text, or
    # holders de-duplicated by identity, only shows when a DROP / RENAME / other write sits between two occurrences —
    # seeded mutant C03/2), then random longer scripts
    small = [v for v in statement_values(["a", "b", "c"]) if render_sql(v)]
    rep_first = [["rw", ["a"], "b"], ["rw", ["a", "c"], "b"], ["rw", ["b"], None], ["rw", [], "b"]]
    systematic = [[s1, s2, s1] for s1 in rep_first for s2 in small if s2 != s1]
    if chk.tier == "quick":
        systematic = [h for h in systematic if h[1][0] != "rw" or len(h[1][1]) <= 1]
    todo = systematic + [None] * n_scripts
    for planned in todo:
        if planned is not None:
            hist = planned
        else:
            k = chk.rng.randrange(2, 9)
            hist = [chk.rng.choice(vals) for _ in range(k)]
            if chk.rng.random() < 0.6:
                hist = [s for s in hist if s[0] == "rw"] or hist
        sql = ";\n".join(render_sql(s) for s in hist) + ";"      # every statement ends the same way (textually identical repeats)
        facts = []

        def tap(self, s, mp_, _orig=orig, _facts=facts):
            h = _orig(self, s, mp_)
            _facts.append({"read": sorted(str(t) for t in h.read), "write": sorted(str(t) for t in h.write),
                           "drop": sorted(str(t) for t in h.drop), "rename": sorted((str(a), str(b)) for a, b in h.rename)})
            return h
        SqlFluffLineageAnalyzer.analyze = tap
        try:
            lr = LineageRunner(sql, dialect="ansi")
            got = (sorted(str(t) for t in lr.source_tables), sorted(str(t) for t in lr.target_tables),
                   sorted(str(t) for t in lr.intermediate_tables))
        finally:
            SqlFluffLineageAnalyzer.analyze = orig
        n += 1
        chk.count("sql:" + sql, True)
        # the statement tap must have seen exactly the abstract facts
        pfx = "<default>."
        want_facts = []
        for s in hist:
            if s[0] == "rw":
                want_facts.append({"read": sorted(pfx + r for r in s[1]), "write": [pfx + s[2]] if s[2] else [], "drop": [], "rename": []})
            elif s[0] == "drop":
                want_facts.append({"read": [], "write": [], "drop": [pfx + s[1]], "rename": []})
            else:
                want_facts.append({"read": [], "write": [], "drop": [], "rename": [(pfx + s[1][0][0], pfx + s[1][0][1])]})
        m = drv.ask1({"cmd": "asm", "stmts": hist})
        mo = canon_model_outcome(m["outcomes"][0])
        model_roles = tuple(sorted(pfx + tname(x) for x in mo["roles"][k]) for k in ("source", "target", "intermediate")) if "roles" in mo else None
        if facts != want_facts or model_roles != got:
            # independent oracle on plain histories
            if all(s[0] == "rw" for s in hist):
                _, src, tgt, inter = characterise([["rw", [r[len(pfx):] for r in f["read"]], (f["write"][0][len(pfx):] if f["write"] else None)] for f in facts])
                exp = (sorted(pfx + t for t in src), sorted(pfx + t for t in tgt), sorted(pfx + t for t in inter))
                if exp != got:
                    chk.violation("script summary contradicts the per-statement reads/writes seen by the statement tap",
                                  {"kind": "sql-script", "sql": sql, "facts": facts, "summary": got, "expected": exp})
                    return n
            else:
                # histories with DROP/RENAME: the runner must agree with the assembler applied to freshly built holders of
                # the very statements it analysed (implementation vs implementation, no model)
                fresh = impl_outcome(hist)
                if "roles" in fresh:
                    exp = tuple(sorted(pfx + tname(x) for x in fresh["roles"][k]) for k in ("source", "target", "intermediate"))
                    # each statement analysed ALONE must give the abstract facts (then the fresh assembly is the reference)
                    solo = []
                    for s1 in hist:
                        h1 = LineageRunner(render_sql(s1) + ";", dialect="ansi")
                        h1.source_tables
                        hh = h1._stmt_holders[0]
                        solo.append({"read": sorted(str(t) for t in hh.read), "write": sorted(str(t) for t in hh.write),
                                     "drop": sorted(str(t) for t in hh.drop), "rename": sorted((str(a), str(b)) for a, b in hh.rename)})
                    if solo == want_facts and exp != got:
                        chk.violation("the script's summary differs from assembling its statements one by one (a statement was "
                                      "skipped, cached or applied out of order)",
                                      {"kind": "sql-script", "sql": sql, "facts": facts, "summary": got, "expected": exp})
                        return n
            if len(chk.stale) < 20:
                chk.stale.append({"kind": "sql-script", "sql": sql, "facts": facts, "want_facts": want_facts, "impl": got, "model": model_roles})
        elif n % 10 == 1:
            chk.sample({"sql": sql, "summary": got})
    return n


def _roles_sql(sql):
    from sqllineage.runner import LineageRunner
    lr = LineageRunner(sql, dialect="ansi")
    return {"source": sorted(str(t) for t in lr.source_tables), "target": sorted(str(t) for t in lr.target_tables),
            "intermediate": sorted(str(t) for t in lr.intermediate_tables)}


DROP_FRAME_POOL = ["INSERT INTO a VALUES (1)", "CREATE TABLE a (x int)", "INSERT INTO b SELECT * FROM c", "SELECT * FROM e",
                   "INSERT INTO t (c1) VALUES (1)", "CREATE TABLE t AS SELECT 1 AS x", "INSERT INTO t VALUES (1)",
                   "INSERT INTO d (k) SELECT k FROM t", "INSERT INTO t (c1) SELECT c1 FROM a"]


def part_drop_frame(chk):
    """"DROP ... never disturbs other tables", on the implementation alone (no model): for scripts over statements WITH columns
    (column lists, CTAS of constants - the abstract histories have none) the roles of every table other than `t` are the same
    with and without a final / interposed `DROP TABLE t` (added after seeded change C03-4)"""
    import itertools
    n = 0
    combos = [list(c) for k in (2, 3) for c in itertools.permutations(DROP_FRAME_POOL, k)]
    chk.rng.shuffle(combos)
    combos = combos[:200 if chk.tier == "thorough" else 40]
    # the systematic core: every pair (plain statement, statement giving t columns) followed by the DROP
    core = [[p1, p2] for p1 in DROP_FRAME_POOL[:4] for p2 in DROP_FRAME_POOL[4:7]]
    for stmts in core + combos:
        for pos in {len(stmts), max(1, len(stmts) - 1)}:
            with_drop = stmts[:pos] + ["DROP TABLE t"] + stmts[pos:]
            sql1 = ";\n".join(with_drop) + ";"
            sql0 = ";\n".join(stmts) + ";"
            try:
                r1, r0 = _roles_sql(sql1), _roles_sql(sql0)
            except Exception as e:  # noqa
                chk.stale.append({"kind": "drop-frame", "sql": sql1, "error": type(e).__name__})
                continue
            n += 1
            chk.count("dropframe:" + sql1, True)
            # a DROP placed last: every other table keeps exactly its roles
            if pos == len(stmts):
                strip = lambda r: {k: [x for x in v if x != "<default>.t"] for k, v in r.items()}
                if strip(r1) != strip(r0):
                    chk.violation("DROP TABLE t changes the roles of OTHER tables",
                                  {"kind": "drop-frame", "sql": sql1, "without_drop": sql0, "roles_with": r1, "roles_without": r0})
                    return n
    return n


def replay(chk, obj):
    if obj.get("replay", {}).get("kind") == "drop-frame":
        r = obj["replay"]
        r1, r0 = _roles_sql(r["sql"]), _roles_sql(r["without_drop"])
        strip = lambda x: {k: [y for y in v if y != "<default>.t"] for k, v in x.items()}
        print(json.dumps({"sql": r["sql"], "roles_with": r1, "roles_without": r0}, indent=1))
        return 1 if strip(r1) != strip(r0) else 0
    r = obj["replay"]
    if r.get("kind") == "history":
        out = impl_outcome(r["history"])
        fails = property_failures(r["history"], out)
        print(json.dumps({"impl": out, "failures": fails}, indent=1))
        return 1 if fails else 0
    if r.get("kind") == "multi-rename":
        outs = [impl_outcome(r["history"], o) for o in ([0, 1], [1, 0])]
        print(json.dumps({"impl_by_order": outs}, indent=1))
        return 1 if canon_json(outs[0]) != canon_json(outs[1]) else 0
    if r.get("kind") == "sql-script":
        from sqllineage.runner import LineageRunner
        lr = LineageRunner(r["sql"])
        got = [sorted(str(t) for t in lr.source_tables), sorted(str(t) for t in lr.target_tables), sorted(str(t) for t in lr.intermediate_tables)]
        print(json.dumps({"summary": got, "expected": r.get("expected")}, indent=1))
        return 1 if r.get("expected") and [list(x) for x in r["expected"]] != got else 0
    print("replay file names no concrete input:", json.dumps(r)[:600])
    return 1


def run(chk):
    if not chk.lean.driver_ok:
        chk.stale.append({"kind": "driver", "why": "model driver does not build"})
        return chk.finish(level="proof", rule="driver unavailable")
    drv = Driver()
    vals = statement_values()
    depth = 3
    total = 0
    exhaustive = True
    with mp.Pool(min(16, os.cpu_count() or 4)) as pool:
        for n in range(1, depth + 1):
            hs = [list(h) for h in itertools.product(vals, repeat=n)]
            total += len(hs)
            compare_histories(chk, drv, hs, pool)
            if chk.violations:
                break
        if chk.tier == "thorough" and not chk.violations:
            # length 4: 41^4 = 2.8M histories — stratified sample (first three statements exhaustive over a third, last random)
            budget = 400000
            hs = []
            allv = vals
            for _ in range(budget):
                hs.append([chk.rng.choice(allv) for _ in range(4)])
            exhaustive4 = False
            for i in range(0, len(hs), 50000):
                compare_histories(chk, drv, hs[i:i + 50000], pool)
                if chk.violations:
                    break
            total += len(hs)
            chk.coverage["length4_sampled"] = len(hs)
    nm = part_multi_rename(chk, drv) if not chk.violations else 0
    ns = part_sql(chk, drv) if not chk.violations else 0
    nd = part_drop_frame(chk) if not chk.violations else 0
    chk.coverage["drop_frame_scripts"] = nd
    chk.sample({"history": [["rw", ["a", "b"], "c"], ["rw", ["c"], "a"], ["drop", "b"]],
                "impl": impl_outcome([["rw", ["a", "b"], "c"], ["rw", ["c"], "a"], ["drop", "b"]])})
    chk.coverage.update({"exhaustive": exhaustive, "statement_values": len(vals), "histories_len_le3": sum(len(vals) ** k for k in range(1, depth + 1)),
                         "multi_rename_histories": nm, "sql_scripts": ns})
    chk.assumptions += ["networkx DiGraph/compose/relabel_nodes/remove_edge behave as modelled in Model/Graph.lean (tied by this correspondence)",
                        "set iteration order is modelled as an arbitrary order; only multi-pair renames are order-sensitive (D10)"]
    return chk.finish(
        level="proof",
        rule="all histories of length<=3 over the 41 abstract statement values on tables {a,b,c} (exhaustive), thorough: +400k random "
             "length-4 histories; every two-pair rename under both pair orders; random SQL scripts through LineageRunner with a statement "
             "tap. non-trivial = the result has at least one table edge / source / target; distinct by canonical JSON of the history",
        trusted_base=["Lean 4.33 kernel", "axioms: propext, Classical.choice, Quot.sound", "tools/translate.py (Gen/Const.lean)",
                      "harness/c03.py correspondence (public holder API, SQLLineageHolder.of)"])
