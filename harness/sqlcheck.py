"""Shared core of the SQL-level correspondences (C01, C02, C06, C09, C18 ...): evaluate generated typed-AST statements on the
Lean model/spec (driver) and on the real analyser under several dialects, classify, shrink."""
import collections
import copy
import json

import gensql
import sqlimpl
from common import Infra, canon_json, log

QUICK_DIALECTS = ["ansi", "sparksql", "tsql", "bigquery"]


def all_dialects():
    from sqlfluff.core import dialect_readout
    return [d.label for d in dialect_readout()]


def model_eval(drv, stmts_list, **opts):
    """stmts_list: list of scripts (each a list of statement ASTs).  Returns driver answers."""
    reqs = []
    for ss in stmts_list:
        r = {"cmd": "sql", "stmts": ss}
        r.update(opts)
        reqs.append(r)
    ans = drv.ask(reqs)
    for a in ans:
        if "error" in a and "out" not in a:
            raise Infra("model driver error: " + a["error"])
    return ans


def tables_of(res):
    return {k: sorted(res[k]) for k in ("source", "target", "intermediate")}


def model_tables(ans):
    o = ans["out"]
    if "error" in o:
        return {"error": o["error"].split(":")[0]}
    return tables_of(o["result"])


def spec_tables(ans):
    """single statement: the property's expected summary"""
    sp = ans["spec"][0]
    return {"source": sp["reads"], "target": sp["writes"], "intermediate": []}


def impl_tables(i):
    if "result" in i:
        return tables_of(i["result"])
    if "rejected" in i:
        return None
    return {"error": i["error"], "detail": {k: i.get(k) for k in ("etype", "site", "msg")}}


# --------------------------------------------------------------------------------------------------- shrinking
EXPR_TAGS = {"col", "star", "lit", "func", "cast", "case", "bin", "paren", "subq", "in", "exists"}


def _children_paths(node, path=()):
    """yield (path, node) for every list node in the JSON AST"""
    if isinstance(node, list):
        yield path, node
        for i, x in enumerate(node):
            yield from _children_paths(x, path + (i,))


def _get(root, path):
    for i in path:
        root = root[i]
    return root


def _set(root, path, val):
    root = copy.deepcopy(root)
    if not path:
        return val
    cur = root
    for i in path[:-1]:
        cur = cur[i]
    cur[path[-1]] = val
    return root


def shrink_candidates(stmt):
    """smaller statements obtained by one local simplification (AST stays well-formed)"""
    for path, n in _children_paths(stmt):
        if not n or not isinstance(n[0], str):
            continue
        tag = n[0]
        if tag == "select" and len(n) == 7:
            if n[4] is not None:
                yield _set(stmt, path + (4,), None)
            if n[6] is not None:
                yield _set(stmt, path + (6,), None)
            if n[5]:
                yield _set(stmt, path + (5,), [])
            if len(n[2]) > 1:
                for i in range(len(n[2])):
                    yield _set(stmt, path + (2,), n[2][:i] + n[2][i + 1:])
            if len(n[3]) > 1:
                for i in range(len(n[3])):
                    yield _set(stmt, path + (3,), n[3][:i] + n[3][i + 1:])
            for fi, fe in enumerate(n[3]):
                if fe[1]:
                    for ji in range(len(fe[1])):
                        yield _set(stmt, path + (3, fi, 1), fe[1][:ji] + fe[1][ji + 1:])
            if n[1]:
                yield _set(stmt, path + (1,), False)
        elif tag == "setop":
            rest = n[2]
            for i in range(len(rest)):
                if len(rest) > 1:
                    yield _set(stmt, path + (2,), rest[:i] + rest[i + 1:])
            # replace the set operation by one of its branches
            yield _set(stmt, path, n[1][0])
            for op, b in rest:
                yield _set(stmt, path, b[0])
        elif tag == "with":
            if len(n[1]) > 1:
                for i in range(len(n[1])):
                    yield _set(stmt, path + (1,), n[1][:i] + n[1][i + 1:])
            yield _set(stmt, path, n[2])
        elif tag == "derived":
            yield _set(stmt, path, ["table", ["t1"], n[2], n[3]])
        elif tag in EXPR_TAGS:
            if tag == "func":
                for a in n[3]:
                    yield _set(stmt, path, a)
                if n[4] is not None:
                    yield _set(stmt, path + (4,), None)
            elif tag == "cast" or tag == "paren":
                yield _set(stmt, path, n[1])
            elif tag == "bin":
                yield _set(stmt, path, n[2])
                yield _set(stmt, path, n[3])
            elif tag == "case":
                if n[2] is not None:
                    yield _set(stmt, path + (2,), None)
                if len(n[1]) > 1:
                    for i in range(len(n[1])):
                        yield _set(stmt, path + (1,), n[1][:i] + n[1][i + 1:])
                for w in n[1]:
                    yield _set(stmt, path, w[1])
            elif tag == "in":
                yield _set(stmt, path, ["exists", False, n[3]])
            elif tag in ("subq", "exists"):
                pass
            if tag not in ("col", "lit", "star"):
                yield _set(stmt, path, ["col", [], "a"])
    if stmt[0] in ("insert", "ctas", "create_view"):
        q = stmt[5] if stmt[0] == "insert" else (stmt[4] if stmt[0] == "ctas" else stmt[4])
        yield ["query", q, False]


def shrink(stmt, pred, budget=200):
    """greedy: apply the first candidate on which `pred` still holds; pred(candidate) -> bool"""
    cur = stmt
    n = 0
    improved = True
    while improved and n < budget:
        improved = False
        for cand in shrink_candidates(cur):
            n += 1
            if n > budget:
                break
            try:
                if pred(cand):
                    cur = cand; improved = True; break
            except Infra:
                raise
            except Exception:
                continue
    return cur


class Stats:
    def __init__(self):
        self.c = collections.Counter()
        self.accept = collections.Counter()
        self.reject = collections.Counter()

    def as_dict(self):
        return {"counts": dict(self.c), "accepted_by_dialect": dict(self.accept), "rejected_by_dialect": dict(self.reject)}
