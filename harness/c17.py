"""C17 — the visualisation server only discloses files under its roots.

The real WSGI callable `sqllineage.drawing.app(environ, start_response)` is driven in-process against a scratch
directory tree (mkdtemp, removed afterwards).  Every file of the tree has a unique token in its content and every
directory has a uniquely named entry, so whatever a response discloses can be attributed to a place in the tree.

L. library correspondence (ties the model's pathlib layer; independent of the repository): for every enumerated
   spelling, `str(Path(s))`, `.parent`, `.absolute()`, `Path(s).resolve()` (real file system, no symlinks),
   `".." in s`, `s.strip("/")`  vs  `Model.PathSec` (driver command `pathlib`).
P. POST, bounded-exhaustive: every path of <= N segments over the POST alphabet, relative and absolute spelling
   (the 8 kinds of the property + the root's own name + '~')
   x {/script f, /directory f, /directory d, /lineage f} x {POST, OPTIONS, PUT, GET} x 3 root settings; plus mixed
   payloads (f and d, f and e, d on /script).  Status and a canonical body classification are compared with the model
   of the REPAIRED code (driver command `pathbatch`).
G. GET, bounded-exhaustive: every PATH_INFO of <= N segments over the GET alphabet, with and without leading slash.
O. oracle on the implementation alone (never mentions the model): a response that contains the token of a file or
   directory entry outside the root the request is entitled to (SQL root for POST, static folder for GET), or a 200/400
   answer whose content cannot be attributed to the tree at all, is a failing input.  Failing inputs are shrunk by
   dropping path segments (each candidate re-run on the implementation).
"""
import hashlib
import io
import itertools
import json
import logging
import os
import re
import shutil
import sys
import tempfile
import time
from pathlib import Path

from common import Check, Driver, Infra, REPO, canon_json, leanchecker, log

POST_ALPHABET = ["..", ".", "child", "nested", "root_sib", "outside", "f.sql", "", "root", "~"]
GET_ALPHABET = ["..", ".", "child", "nested", "static_sib", "outside", "f.sql", "", "static", "a..b", "..."]
ALPHABET_ROLES = {
    "..": "parent", ".": "self", "child": "child directory of the root", "nested": "child of the child",
    "root_sib": "sibling of the SQL root whose name starts with the root's name", "static_sib": "same for the static folder",
    "outside": "directory outside the root", "f.sql": "a file (exists in every directory): as last segment a file, "
    "before another segment a file used as a directory", "": "empty segment (doubled / leading / trailing slash)",
    "root": "the SQL root's own name (a path can leave the root and come back)", "static": "the static folder's own name",
    "a..b": "a file whose name contains '..'", "...": "a directory named '...'",
    "~": "an ordinary (non-existent) name for pathlib and the OS; HOME points at the outside directory during the run, so code "
         "that expands it after the check would leave the root",
}
ROUTES = ["/script", "/directory", "/lineage"]
FIXED_BODY = {
    403: b'{"message": "File Not Allowed For Accessing"}',
    404: b'{"message": "File Not Found"}',
    405: b'{"message": "Method Not Allowed"}',
}
TOKEN_RE = re.compile(r"c17t[0-9a-f]{10}")
SQL, MARK, STAT = "sql", "marker", "static"

# directory layout below the scratch directory T.  SQL: tiny valid statement naming a unique table; MARK: not SQL.
LAYOUT = {
    "f.sql": MARK,
    "root": {"f.sql": SQL, "child": {"f.sql": SQL, "nested": {"f.sql": SQL}}},
    "root_sib": {"f.sql": MARK, "child": {"f.sql": MARK, "nested": {"f.sql": MARK}}},
    "outside": {"f.sql": MARK, "child": {"f.sql": MARK, "nested": {"f.sql": MARK}}, "root": {"f.sql": MARK}},
    "child": {"f.sql": MARK, "nested": {"f.sql": MARK}},
    "nested": {"f.sql": MARK},
    "static": {"index.html": STAT, "f.sql": STAT, "a..b": STAT, "...": {"f.sql": STAT},
               "child": {"f.sql": STAT, "nested": {"f.sql": STAT}}},
    "static_sib": {"f.sql": MARK, "child": {"f.sql": MARK}},
}


class Tree:
    """the scratch tree; knows which token belongs to which place (used by the oracle) and renders itself for the model"""

    def __init__(self, rng):
        self.T = os.path.realpath(tempfile.mkdtemp(prefix="c17-"))
        if self.T.startswith(os.path.realpath(REPO) + os.sep) or self.T.startswith("/verif/"):
            raise Infra("scratch directory inside the repository")
        self.rng = rng
        self.owner = {}        # token -> path relative to T of the file / directory entry it identifies
        self.by_content = {}   # bytes -> file id
        self.files = {}        # id -> (relative path, kind)
        self.next_id = 1
        self.model_fs = self._build("", LAYOUT)
        # the model sees the tree from "/" down; nothing else of the machine's file system is modelled
        node = self.model_fs
        for name in reversed([s for s in self.T.split("/") if s]):
            node = {"d": [[name, node]]}
        self.model_root = node
        self.R = self.T + "/root"
        self.S = self.T + "/static"

    def _token(self, rel):
        while True:
            t = "c17t" + "%010x" % self.rng.getrandbits(40)
            if t not in self.owner:
                self.owner[t] = rel
                return t

    def _kind(self, rel):
        if self._under(rel, "root"):
            return SQL
        if self._under(rel, "static"):
            return STAT
        return MARK

    def _build(self, rel, spec):
        here = os.path.join(self.T, rel) if rel else self.T
        os.makedirs(here, exist_ok=True)
        kids = []
        for name, sub in sorted(spec.items()):
            r = f"{rel}/{name}" if rel else name
            if isinstance(sub, dict):
                kids.append([name, self._build(r, sub)])
            else:
                kids.append([name, self._file(r, sub)])
        # every directory gets a uniquely named entry, so that a listing identifies the directory it came from
        tok = self._token(None)
        ename = "entry_" + tok
        r = f"{rel}/{ename}" if rel else ename
        self.owner[tok] = r
        kids.append([ename, self._file(r, self._kind(r))])
        return {"d": kids}

    @staticmethod
    def _under(rel, top):
        return rel == top or rel.startswith(top + "/")

    def _file(self, rel, kind):
        tok = self._token(rel)
        if kind == SQL:
            content = f"insert into w_{tok} select * from {tok}"
        elif kind == STAT:
            content = f"/* static asset {tok} */"
        else:
            content = f"@@ {tok} ~ this is not SQL @@"
        with open(os.path.join(self.T, rel), "w") as f:
            f.write(content)
        fid = self.next_id
        self.next_id += 1
        self.files[fid] = (rel, kind)
        self.by_content[content.encode()] = fid
        return {"f": fid, "sql": kind == SQL}

    def remove(self):
        shutil.rmtree(self.T, ignore_errors=True)


class App:
    """the real application pointed at the scratch tree; everything it touches is restored by `close`"""

    def __init__(self, tree):
        self.tree = tree
        self.saved_cwd = os.getcwd()
        self.saved_env = os.environ.get("SQLLINEAGE_DIRECTORY")
        self.saved_home = os.environ.get("HOME")
        logging.disable(logging.CRITICAL)        # helpers.py logs a traceback per refused file; not under test
        import sqllineage.drawing as drawing
        if not os.path.realpath(drawing.__file__).startswith(os.path.realpath(REPO) + os.sep):
            raise Infra(f"sqllineage imported from {drawing.__file__}, not from {REPO}")
        self.drawing = drawing
        self.saved_static = drawing.STATIC_FOLDER
        self.saved_root = drawing.app.root_path
        # Path(pkgdir).joinpath(Path(<absolute>)) is the absolute path: the static folder is the scratch one
        drawing.STATIC_FOLDER = tree.S
        os.environ["SQLLINEAGE_DIRECTORY"] = tree.R
        os.environ["HOME"] = tree.T + "/outside"
        self.pkg_dir = os.path.dirname(drawing.__file__)
        self.setting = None

    def settings(self):
        t = self.tree
        return [
            {"name": "A: root_path absolute, cwd = root/child", "cwd": t.R + "/child", "root_path": t.R},
            {"name": "B: root_path relative and un-normalised ('child/..'), cwd = root", "cwd": t.R, "root_path": "child/.."},
            # the working directory OUTSIDE the root: relative spellings are then anchored outside it (a check that resolves
            # them against the root instead of the working directory would pass `outside/f.sql`)
            {"name": "C: root_path absolute, cwd = parent of the root (outside it)", "cwd": t.T, "root_path": t.R},
        ]

    def use(self, setting):
        os.chdir(setting["cwd"])
        self.drawing.app.root_path = Path(setting["root_path"])
        self.setting = setting

    def setting_portable(self):
        return json.loads(json.dumps(self.setting).replace(self.tree.T, "$T"))

    def world(self):
        s = self.setting
        return {"fs": self.tree.model_root, "cwd": s["cwd"], "root": s["root_path"], "defaultDir": self.tree.R,
                "pkgDir": self.pkg_dir, "static": self.tree.S}

    def call(self, method, path_info, payload=None):
        """-> (status int | 'EXC', body bytes | exception type name)"""
        got = []
        env = {"REQUEST_METHOD": method, "PATH_INFO": path_info}
        if payload is not None:
            body = json.dumps(payload).encode()
            env["CONTENT_LENGTH"] = str(len(body))
            env["wsgi.input"] = io.BytesIO(body)
        try:
            out = self.drawing.app(env, lambda status, headers, exc_info=None: got.append(status))
            return int(got[0].split()[0]), b"".join(out)
        except KeyboardInterrupt:
            raise
        except BaseException as e:  # noqa: an exception leaving the WSGI callable is an outcome (the server says 500)
            return "EXC", type(e).__name__

    def close(self):
        os.chdir(self.saved_cwd)
        self.drawing.STATIC_FOLDER = self.saved_static
        self.drawing.app.root_path = self.saved_root
        if self.saved_env is None:
            os.environ.pop("SQLLINEAGE_DIRECTORY", None)
        else:
            os.environ["SQLLINEAGE_DIRECTORY"] = self.saved_env
        if self.saved_home is None:
            os.environ.pop("HOME", None)
        else:
            os.environ["HOME"] = self.saved_home
        logging.disable(logging.NOTSET)


# ------------------------------------------------------------------------------------ canonical classification
def classify(tree, req, status, body):
    """canonical form of what the implementation answered, in the vocabulary of the model's `Resp`"""
    method, path_info = req[0], req[1]
    payload = req[2] if len(req) > 2 and req[2] is not None else {}
    if status == "EXC":
        return ["crash", body]
    if status in FIXED_BODY:
        return [str(status)] if body == FIXED_BODY[status] else [f"{status}-unexpected-body", body[:120].decode("latin1")]
    if method == "OPTIONS" and status == 200:
        return ["options"] if body == b"" else ["options-with-body", body[:120].decode("latin1")]
    if method == "GET" and status == 200:
        fid = tree.by_content.get(body)
        return ["file", fid] if fid is not None else ["unknown-200", body[:120].decode("latin1")]
    if method == "POST":
        try:
            data = json.loads(body)
        except ValueError:
            return ["unparsable-body", status, body[:120].decode("latin1")]
        if path_info == "/script" and status == 200 and isinstance(data, dict):
            content = data.get("content")
            if isinstance(content, str):
                fid = tree.by_content.get(content.encode())
                if fid is not None:
                    return ["file", fid]
                if not payload.get("f") and content == (payload.get("e") or ""):
                    return ["fromPayload"]
            return ["unknown-200", body[:120].decode("latin1")]
        if path_info == "/lineage" and status in (200, 400) and isinstance(data, dict):
            text = data.get("verbose", "") if status == 200 else data.get("message", "")
            fids = sorted({fid for fid, (rel, _) in tree.files.items()
                           for tok in set(TOKEN_RE.findall(text)) if tree.owner.get(tok) == rel})
            if len(fids) == 1:
                return ["analysis" if status == 200 else "analysisError", fids[0]]
            if not fids and status == 200 and not payload.get("f"):
                return ["fromPayload"]
            return [f"unknown-{status}", body[:120].decode("latin1")]
        if path_info == "/directory" and status == 200 and isinstance(data, dict):
            kids = sorted([c.get("name"), bool(c.get("is_dir"))] for c in data.get("children", []))
            return ["listing", data.get("id"), kids]
    return [f"unknown-{status}", body[:120].decode("latin1") if isinstance(body, bytes) else body]


def canon_model(resp):
    if resp[0] == "listing":
        return ["listing", resp[1], sorted(resp[2])]
    return resp


# ------------------------------------------------------------------------------------ oracle (implementation only)
def disclosed_outside(tree, req, status, body):
    """what the response reveals that does not belong to the root this request is entitled to (empty list = nothing).
    Uses only the scratch tree's token registry – never the model."""
    if status == "EXC" or not isinstance(body, bytes):
        return []
    if status in FIXED_BODY and body == FIXED_BODY[status]:
        return []
    method = req[0]
    top = "static" if method == "GET" else "root"
    text = body.decode("latin1")
    out = []
    toks = set(TOKEN_RE.findall(text))
    # tokens the request itself carried are not disclosures
    sent = set(TOKEN_RE.findall(json.dumps(req)))
    for tok in sorted(toks - sent):
        rel = tree.owner.get(tok)
        if rel is None:
            continue
        if not Tree._under(rel, top):
            out.append(f"{'entry' if '/entry_' in '/' + rel else 'content of'} {rel}")
    if not toks and status in (200, 400) and body:
        # data was returned that cannot be attributed to the scratch tree: decide whether it came from a file at all
        cls = classify(tree, req, status, body)
        if cls[0] in ("unknown-200", "unknown-400", "unparsable-body") or \
                (cls[0] == "listing" and method == "POST"):
            # (not quoted: it is real content of the machine the check runs on)
            out.append(f"content or listing of something outside the scratch tree ({cls[0]}, {len(body)} bytes, "
                       f"sha1 {hashlib.sha1(body).hexdigest()[:12]})")
    return out


def excerpt(tree, body):
    """start of the body when it is about the scratch tree; otherwise only its size (foreign content is not copied)"""
    if not isinstance(body, bytes):
        return body
    if TOKEN_RE.search(body.decode("latin1")) or body in FIXED_BODY.values():
        return body[:300].decode("latin1").replace(tree.T, "$T")
    return f"<{len(body)} bytes not attributable to the scratch tree>"


def shape_of_failure(tree, app, req):
    """coarse class of a failing input, computed with os.path on the request (not with the model): used to report one
    replay per kind of hole instead of thousands"""
    method, path_info = req[0], req[1]
    payload = req[2] if len(req) > 2 and req[2] else {}
    if method != "POST":
        return f"{method} static"
    keys = "+".join(k for k in ("f", "d") if payload.get(k))
    root = os.path.normpath(os.path.join(app.setting["cwd"], app.setting["root_path"]))

    def inside(p):
        q = os.path.normpath(os.path.join(app.setting["cwd"], p))
        while q.startswith("//"):
            q = q[1:]
        return q == root or q.startswith(root + "/")
    validated_inside = all(inside(payload[k]) for k in ("f", "d") if k in payload)
    return f"POST {path_info} {keys}: " + ("every validated parameter resolves inside the root, another path was accessed"
                                           if validated_inside else "a validated parameter resolves outside the root")


# ------------------------------------------------------------------------------------ enumeration
def spellings(alphabet, maxlen):
    for n in range(maxlen + 1):
        for segs in itertools.product(alphabet, repeat=n):
            yield list(segs)


def post_forms(segs, cwd):
    rel = "/".join(segs)
    return [("rel", rel), ("abs", cwd + ("/" + rel if segs else ""))]


def post_requests(p, all_methods):
    reqs = [
        ["POST", "/script", {"f": p}],
        ["POST", "/directory", {"f": p}],
        ["POST", "/directory", {"d": p}],
        ["POST", "/lineage", {"f": p}],
    ]
    if all_methods:
        extra = []
        for r in reqs:
            for m in ("OPTIONS", "PUT", "GET"):
                extra.append([m, r[1], r[2]])
        reqs += extra
    return reqs


def mixed_requests(p, q, with_lineage=True):
    e = "select * from payload_tab"
    reqs = [
        ["POST", "/directory", {"f": p, "d": q}],
        ["POST", "/script", {"f": p, "d": q}],
        ["POST", "/script", {"d": p}],
        ["POST", "/script", {"f": p, "e": e}],
        ["POST", "/nosuchroute", {"f": p}],
        ["POST", "/", {"f": p}],
    ]
    if with_lineage:
        reqs += [["POST", "/lineage", {"d": p, "e": e}], ["POST", "/lineage", {"f": p, "d": q, "e": e}]]
    return reqs


def get_forms(segs):
    rel = "/".join(segs)
    return [("abs", "/" + rel), ("rel", rel)]


class Rec:
    """what one work unit measured (picklable: units run in forked worker processes and are merged by the parent)"""

    def __init__(self):
        self.evaluations = 0
        self.keys = set()          # distinct non-trivial cases
        self.samples = []
        self.stale = []            # impl != model on an input where the implementation discloses nothing outside
        self.stale_more = 0
        self.dist = {}             # "METHOD route -> class" -> count
        self.failing = {}          # failure shape -> [count, what, replay object]  (first input of that shape, shrunk)
        self.lineage_real = 0
        self.t_impl = self.t_model = 0.0
        self.n = {"P": 0, "M": 0, "G": 0, "L": 0, "R": 0}


class Runner:
    def __init__(self, rec, tree, app, drv):
        self.rec, self.tree, self.app, self.drv = rec, tree, app, drv

    # -- one batch: ask the model, run the implementation, compare, apply the oracle
    def batch(self, reqs, part, compare=True):
        if not reqs:
            return
        rec, tree, app = self.rec, self.tree, self.app
        rec.n[part] += len(reqs)
        answers = None
        if self.drv is not None and compare:
            t0 = time.time()
            ans = self.drv.ask([{"cmd": "pathbatch", "world": app.world(), "check": "fixed", "reqs": reqs[i:i + 4000]}
                                for i in range(0, len(reqs), 4000)], chunk=50)
            rec.t_model += time.time() - t0
            answers = []
            for a in ans:
                if "error" in a:
                    raise Infra("model driver error: " + a["error"])
                answers.extend(a["answers"])
        t0 = time.time()
        tag = app.setting["name"][0]
        for i, req in enumerate(reqs):
            status, body = app.call(req[0], req[1], req[2] if len(req) > 2 else None)
            impl = classify(tree, req, status, body)
            served = impl[0] in ("file", "analysis", "analysisError", "listing")
            rec.evaluations += 1
            if served or impl[0] == "403":
                rec.keys.add(f"{tag}|{req[0]}|{req[1]}|{canon_json(req[2]) if len(req) > 2 else ''}")
            dk = f"{req[0]} {req[1] if req[0] != 'GET' or req[1] in ROUTES else '<static>'} -> {impl[0]}"
            rec.dist[dk] = rec.dist.get(dk, 0) + 1
            if req[1] == "/lineage" and impl[0] in ("analysis", "analysisError"):
                rec.lineage_real += 1
            bad = disclosed_outside(tree, req, status, body)
            if bad:
                self.failing(req)
                continue
            if answers is None:
                continue
            model = canon_model(answers[i][0])
            if model != impl:
                if len(rec.stale) < 5:
                    rec.stale.append({"kind": "request", "setting": app.setting, "request": self.relativise(req),
                                      "impl": impl, "model": model, "model_accessed": answers[i][2],
                                      "model_resolved": answers[i][3],
                                      "note": "the implementation discloses nothing outside the root on this input"})
                else:
                    rec.stale_more += 1
            elif len(rec.samples) < 2 and (served or impl[0] == "403") and rec.evaluations % 997 == 1:
                rec.samples.append(self.relativise(
                    {"setting": app.setting["name"], "request": req, "response": impl, "accessed": answers[i][2],
                     "resolved": answers[i][3], "inside_root": answers[i][4]}))
        rec.t_impl += time.time() - t0

    # -- a failing input: shrink, keep the first of each shape
    def failing(self, req):
        shape0 = shape_of_failure(self.tree, self.app, req)
        if shape0 in self.rec.failing:
            self.rec.failing[shape0][0] += 1
            return
        small = self.shrink(req)
        shape = shape_of_failure(self.tree, self.app, small)
        status, body = self.app.call(small[0], small[1], small[2] if len(small) > 2 else None)
        bad = disclosed_outside(self.tree, small, status, body)
        shown = self.relativise(small)
        what = (f"{shown[0]} {shown[1]} {json.dumps(shown[2]) if len(shown) > 2 else ''} under setting "
                f"'{self.app.setting['name']}' answered {status} and disclosed {bad[:3]} [{shape}]")
        entry = [1, what, {"kind": "request", "setting": self.app.setting_portable(), "request": shown,
                           "status": status, "disclosed": bad, "shape": shape,
                           "body_excerpt": self.excerpt(body)}]
        self.rec.failing[shape0] = entry
        if shape != shape0:
            self.rec.failing.setdefault(shape, [0, what, entry[2]])

    def excerpt(self, body):
        return excerpt(self.tree, body)

    def relativise(self, req):
        """replace the scratch directory by $T so that a replay can rebuild the tree anywhere"""
        return json.loads(json.dumps(req).replace(self.tree.T, "$T"))

    def fails(self, req):
        status, body = self.app.call(req[0], req[1], req[2] if len(req) > 2 else None)
        return bool(disclosed_outside(self.tree, req, status, body))

    def shrink(self, req):
        """drop path segments (of PATH_INFO for GET, of each payload path for POST) and payload members while the
        oracle still fails on the implementation"""
        cur = json.loads(json.dumps(req))

        def variants(s):
            parts = s.split("/")
            for i in range(len(parts)):
                yield "/".join(parts[:i] + parts[i + 1:])
        changed = True
        while changed:
            changed = False
            cands = []
            if cur[0] == "GET":
                cands = [[cur[0], v] + cur[2:] for v in variants(cur[1])]
            elif len(cur) > 2 and isinstance(cur[2], dict):
                for k in ("e", "d", "f"):
                    if k in cur[2]:
                        rest = {kk: vv for kk, vv in cur[2].items() if kk != k}
                        if rest:
                            cands.append([cur[0], cur[1], rest])
                        if k != "e" and isinstance(cur[2][k], str):
                            cands += [[cur[0], cur[1], dict(cur[2], **{k: v})] for v in variants(cur[2][k])]
            for c in cands:
                if c != cur and self.fails(c):
                    cur, changed = c, True
                    break
        return cur


# ------------------------------------------------------------------------------------ work units
def bounds(tier):
    if tier == "thorough":
        return dict(post=5, get=5, other_methods=3, mixed=2, mixed_lineage=2, lib=5)
    return dict(post=4, get=4, other_methods=2, mixed=1, mixed_lineage=1, lib=4)


def spellings_from(alphabet, first, maxlen):
    """spellings of 1..maxlen segments whose first segment is alphabet[first]; first=None: the empty spelling only"""
    if first is None:
        yield []
        return
    for n in range(0, maxlen):
        for rest in itertools.product(alphabet, repeat=n):
            yield [alphabet[first]] + list(rest)


def regression_requests(tree):
    """the witnesses of the repaired defects D22 / D23 (and their relatives), as ordinary cases"""
    R, T = tree.R, tree.T
    up = "/..".join([""] * 12)
    return [
        ["POST", "/script", {"f": R + up + "/etc/passwd"}],           # D22: '..' after the root, out of the scratch tree
        ["POST", "/script", {"f": R + "/../f.sql"}],
        ["POST", "/script", {"f": R + "_sib/f.sql"}],                  # D22: sibling with common prefix
        ["POST", "/directory", {"d": R + "_sib"}],
        ["POST", "/lineage", {"f": R + "/../outside/f.sql"}],
        ["POST", "/directory", {"f": R}],                              # D23: f is the root itself
        ["POST", "/directory", {"f": R + "/"}],
        ["POST", "/directory", {"f": R + "/child/.."}],
        ["POST", "/directory", {"f": R + "/child/../../root"}],
        ["POST", "/directory", {"d": T}], ["POST", "/directory", {"d": "/"}], ["POST", "/directory", {"f": "/etc/passwd"}],
        ["POST", "/directory", {}], ["POST", "/script", {}], ["POST", "/script", {"e": "select 1"}],
        ["POST", "/lineage", {"e": "select * from payload_tab"}],
    ]


def robustness_requests(tree):
    """payload values outside the modelled domain (not strings): only the oracle is applied"""
    R = tree.R
    vals = [5, 0, None, True, ["a"], [R + "/../f.sql"], {"x": 1}, 1.5]
    out = []
    for v in vals:
        for route in ROUTES:
            out += [["POST", route, {"f": v}], ["POST", route, {"d": v}], ["POST", route, {"f": v, "d": R}]]
    return out


def unit_list(app, b):
    units = []
    for si in range(len(app.settings())):
        for first in [None] + list(range(len(POST_ALPHABET))):
            units.append(("L", si, first))
            units.append(("P", si, first))
        for k in range(8):
            units.append(("M", si, k))
        for first in [None] + list(range(len(GET_ALPHABET))):
            units.append(("G", si, first))
    return units


def run_unit(tree, app, use_driver, b, unit):
    part, si, arg = unit
    rec = Rec()
    drv = Driver() if use_driver else None
    setting = app.settings()[si]
    app.use(setting)
    run_ = Runner(rec, tree, app, drv)
    flush = 40000
    reqs = []
    if part == "P":
        if arg is None:
            run_.batch(regression_requests(tree), "P")
            run_.batch(robustness_requests(tree), "R", compare=False)
        for segs in spellings_from(POST_ALPHABET, arg, b["post"]):
            for _, p in post_forms(segs, setting["cwd"]):
                reqs += post_requests(p, all_methods=len(segs) <= b["other_methods"])
            if len(reqs) >= flush:
                run_.batch(reqs, "P"); reqs = []
        run_.batch(reqs, "P")
    elif part == "M":
        small = [p for segs in spellings(POST_ALPHABET, b["mixed"]) for _, p in post_forms(segs, setting["cwd"])]
        small += [tree.R, tree.R + "/", tree.T, "/", tree.R + "_sib", tree.R + "/f.sql"]
        tiny = set(p for segs in spellings(POST_ALPHABET, b["mixed_lineage"]) for _, p in post_forms(segs, setting["cwd"]))
        for i, p in enumerate(small):
            if i % 8 != arg:
                continue
            for q in small:
                # requests that run the analyzer on the payload's own SQL cost milliseconds: shorter paths only
                reqs += mixed_requests(p, q, with_lineage=(p in tiny and q in tiny))
            if len(reqs) >= flush:
                run_.batch(reqs, "M"); reqs = []
        run_.batch(reqs, "M")
    elif part == "G":
        if arg is None:
            reqs = [["GET", "/"], ["GET", ""], ["GET", "//"], ["GET", "/index.html"], ["GET", "/index.html/"],
                    ["GET", "/" + tree.T + "/outside/f.sql"], ["GET", "/" + tree.S + "/f.sql"], ["GET", "/%2e%2e/f.sql"],
                    ["GET", tree.T + "/f.sql"], ["GET", "/..."], ["GET", "/.../f.sql"], ["GET", "/a..b"],
                    # spellings a decoding step placed after the '..' test would turn into '..'
                    ["GET", "/%2e%2e/static_sib/f.sql"], ["GET", "/child/%2e%2e/%2e%2e/f.sql"], ["GET", "/%2e%2e%2ff.sql"],
                    ["GET", "/..%2ff.sql"], ["GET", "/.%2e/f.sql"], ["GET", "/%252e%252e/f.sql"], ["GET", "/~/f.sql"],
                    ["GET", "/..\\f.sql"], ["GET", "/child\\..\\..\\f.sql"]]
        for segs in spellings_from(GET_ALPHABET, arg, b["get"]):
            for _, p in get_forms(segs):
                reqs.append(["GET", p])
            if len(reqs) >= flush:
                run_.batch(reqs, "G"); reqs = []
        run_.batch(reqs, "G")
    elif part == "L":
        part_l(rec, drv, setting, arg, b["lib"])
    return rec


def part_l(rec, drv, setting, first, maxlen):
    """the model's pathlib/resolve layer against the library itself (this is the trusted-base relation
    `Path.resolve()` = lexical resolution on a symlink-free tree, checked on every enumerated spelling)"""
    if drv is None:
        return
    paths = []
    for segs in spellings_from(POST_ALPHABET, first, maxlen):
        for _, p in post_forms(segs, setting["cwd"]):
            paths.append(p)
        paths.append("/" + "/".join(segs))
    paths = sorted(set(paths))
    t0 = time.time()
    ans = drv.ask([{"cmd": "pathlib", "cwd": setting["cwd"], "paths": paths[i:i + 5000]}
                   for i in range(0, len(paths), 5000)], chunk=50)
    rec.t_model += time.time() - t0
    flat = []
    for a in ans:
        if "error" in a:
            raise Infra("model driver error: " + a["error"])
        flat.extend(a["answers"])
    tag = setting["name"][0]
    for p, m in zip(paths, flat):
        P = Path(p)
        lib = [str(P), str(P.parent), str(P.absolute()), str(P.resolve()), ".." in p, p.strip("/")]
        rec.evaluations += 1
        rec.n["L"] += 1
        if ".." in p:
            rec.keys.add(f"L|{tag}|{p}")
        if lib != m:
            if len(rec.stale) < 5:
                rec.stale.append({"kind": "pathlib", "cwd": setting["cwd"], "path": p, "library": lib, "model": m,
                                  "columns": ["str", "parent", "absolute", "resolve", "'..' in s", "strip('/')"]})
            else:
                rec.stale_more += 1


_CTX = {}


def _worker(unit):
    try:
        return run_unit(_CTX["tree"], _CTX["app"], _CTX["use_driver"], _CTX["b"], unit)
    except Infra as e:
        return ("infra", str(e))
    except BaseException as e:  # noqa
        import traceback
        return ("infra", "worker crashed: " + "".join(traceback.format_exception(type(e), e, e.__traceback__))[-1500:])


def jobs():
    try:
        n = int(os.environ.get("VERIF_JOBS", "0"))
    except ValueError:
        n = 0
    if n <= 0:
        # single process: quick ~1 min, thorough ~30 min; the default keeps thorough under ~6 min on >= 6 cores
        n = max(1, min(6, os.cpu_count() or 1))
    return n


# ------------------------------------------------------------------------------------ run / replay
def run(chk):
    b = bounds(chk.tier)
    use_driver = bool(chk.lean.driver_ok)
    if use_driver:
        Driver()
    else:
        chk.stale.append({"kind": "driver", "why": "model driver does not build"})
    if chk.tier == "thorough" and chk.lean.build_ok:
        ok, out = leanchecker(["SqlLineage.Props.C17", "SqlLineage.Model.PathSec"])
        chk.coverage["leanchecker"] = "accepted" if ok else "REJECTED: " + out[-300:]
        if not ok:
            chk.lean.forbidden.append("leanchecker rejected SqlLineage.Props.C17: " + out[-300:])
    tree = Tree(chk.rng)
    app = None
    try:
        app = App(tree)
        units = unit_list(app, b)
        nj = jobs()
        _CTX.update(tree=tree, app=app, use_driver=use_driver, b=b)
        t0 = time.time()
        if nj > 1:
            import multiprocessing
            # fork: the workers inherit the imported application and the scratch tree; each has its own cwd
            with multiprocessing.get_context("fork").Pool(nj) as pool:
                recs = pool.map(_worker, units, chunksize=1)
        else:
            recs = [_worker(u) for u in units]
        log(f"[c17] {len(units)} work units on {nj} process(es): {time.time() - t0:.1f}s")
        total = Rec()
        for u, r in zip(units, recs):
            if isinstance(r, tuple):
                raise Infra(f"unit {u}: {r[1]}")
            chk.evaluations += r.evaluations
            chk.nontrivial |= r.keys
            for smp in r.samples:
                chk.sample(smp, limit=8)
            for st in r.stale:
                if len(chk.stale) < 20:
                    chk.stale.append(st)
                else:
                    total.stale_more += 1
            total.stale_more += r.stale_more
            for k, v in r.dist.items():
                total.dist[k] = total.dist.get(k, 0) + v
            for shape, (n, what, rep) in r.failing.items():
                if shape in total.failing:
                    total.failing[shape][0] += n
                else:
                    total.failing[shape] = [n, what, rep]
            total.lineage_real += r.lineage_real
            total.t_impl += r.t_impl
            total.t_model += r.t_model
            for k in total.n:
                total.n[k] += r.n[k]
        seen = set()
        for shape, (n, what, rep) in sorted(total.failing.items()):
            key = canon_json(rep["request"])
            if key in seen:
                continue
            seen.add(key)
            chk.violation(what, rep)
        chk.coverage.update({
            "exhaustive": True,
            "post_alphabet": POST_ALPHABET, "get_alphabet": GET_ALPHABET, "segment_roles": ALPHABET_ROLES,
            "max_segments": {"post": b["post"], "get": b["get"], "pathlib_layer": b["lib"],
                             "OPTIONS/PUT/GET on the POST routes": b["other_methods"],
                             "mixed payloads (each path)": b["mixed"],
                             "mixed payloads that analyze the payload's own SQL (each path)": b["mixed_lineage"]},
            "root_settings": [s_["name"] for s_ in app.settings()],
            "requests_post_routes": total.n["P"], "requests_mixed_payloads": total.n["M"],
            "requests_get_static": total.n["G"], "pathlib_layer_cases": total.n["L"],
            "requests_non_string_payload_oracle_only": total.n["R"],
            "lineage_requests_that_ran_the_real_analyzer_on_a_file": total.lineage_real,
            "response_distribution": dict(sorted(total.dist.items())),
            "failing_inputs_by_shape": {k: v[0] for k, v in sorted(total.failing.items())},
            "stale_beyond_those_listed": total.stale_more,
            "cpu_seconds_in_implementation": round(total.t_impl, 1), "cpu_seconds_in_model_driver": round(total.t_model, 1),
            "worker_processes": nj,
        })
    finally:
        if app is not None:
            app.close()
        tree.remove()
    chk.assumptions += [
        "no symbolic links below or above the served roots (then Path.resolve() is the lexical resolution the theorems are about; "
        "part L compares the two on every enumerated spelling)",
        "the POST body is a JSON object whose f/d/e members are strings; other JSON types raise TypeError in Path(...) before any "
        "file is touched (exercised with the oracle only, not modelled); CONTENT_LENGTH present and correct",
        "POSIX paths; the process may read everything in the scratch tree (no PermissionError branch)",
        "file contents are text the default codec decodes",
        "existence of directories outside the root can be probed through paths that leave the root and come back "
        "(200 vs 404 for root/../<name>/../root/f.sql): no content or entry names are returned, the property does not cover it",
    ]
    return chk.finish(
        level="proof",
        rule="P: every path of <= N segments over post_alphabet, as relative spelling (cwd inside the tree) and as absolute "
             "spelling (cwd + '/' + path), x {/script f, /directory f, /directory d, /lineage f} x POST (all lengths) and "
             "OPTIONS/PUT/GET (short paths) x 3 root settings, plus the D22/D23 witnesses and mixed payloads (M); G: every PATH_INFO "
             "of <= N segments over get_alphabet with and without leading slash; L: pathlib layer vs library.  Real app "
             "in-process vs Lean model of the repaired code (status + canonical body class), and an oracle on the "
             "implementation alone (token of anything outside the entitled root in the body).  non-trivial = the request "
             "reached the containment decision with a path: served (file/listing/analysis) or refused 403 (P, M, G), spelling "
             "containing '..' (L); distinct by (setting, method, route, payload).  /lineage f runs the real analyzer on "
             "every served file (no sampling); only the mixed payloads whose SQL comes from the request itself are limited to "
             "shorter paths.",
        trusted_base=["Lean 4.33 kernel", "axioms: propext, Classical.choice, Quot.sound",
                      "Model.PathSec mirrors pathlib.PurePosixPath parsing / absolute() / parent / str and POSIX path resolution "
                      "without symlinks (checked against the library and the real app by parts L, P, M, G on every run)",
                      "(T1) Path.resolve() + is_relative_to of the repaired code = model `resolve` + prefix on segment lists, for "
                      "symlink-free trees",
                      "(T2) the OS resolves a path string component by component as Model.PathSec.osResolve",
                      "harness/c17.py (tree, tokens, classification, oracle)", "tools/translate.py (Gen/Const.lean: STATIC_FOLDER)"],
    )


def replay(chk, obj):
    r = obj["replay"]
    if r.get("kind") != "request":
        print("replay file names no concrete input:", json.dumps(r)[:1500])
        return 1
    tree = Tree(chk.rng)
    app = None
    try:
        app = App(tree)
        setting = None
        for s_ in app.settings():
            if s_["name"] == r["setting"]["name"]:
                setting = s_
        if setting is None:
            raise Infra("unknown setting in replay file")
        app.use(setting)
        req = json.loads(json.dumps(r["request"]).replace("$T", tree.T))
        status, body = app.call(req[0], req[1], req[2] if len(req) > 2 else None)
        bad = disclosed_outside(tree, req, status, body)
        print(json.dumps({"request": req, "setting": setting, "status": status,
                          "class": classify(tree, req, status, body),
                          "body_excerpt": excerpt(tree, body),
                          "disclosed_outside_root": bad}, indent=1))
        return 1 if bad else 0
    finally:
        if app is not None:
            app.close()
        tree.remove()
