"""Corpus for C11: every (sql, dialect, metadata, config) the repository's test-suite hands to the analyser, harvested from the
SOURCE TEXT of `<repo>/tests` with `ast` (nothing is imported from the tests), plus the bundled TPC-DS queries.

A test function is read as a tiny straight-line program: `pytest.mark.parametrize` decorators give the bindings of its
parameters (all combinations), assignments of string expressions (constants, f-strings, `+`, `%`) give local names, and every
call of `assert_table_lineage_equal` / `assert_column_lineage_equal` / `LineageRunner` gives one case per analyser the helper
would run (`dialect=` under sqlfluff, and the `non-validating` sqlparse analyser unless `test_sqlparse=False`).  Module level
`providers = generate_metadata_providers({...})` gives the metadata dict of tests parametrised over `provider`.  A call inside
`with SQLLineageConfig(K=V, ...)` carries that configuration (`config`), a test under `@patch.dict(os.environ, {SQLLINEAGE_...})`
carries those environment variables (`env`).  Anything that is not statically evaluable is skipped and counted.
"""
import ast
import glob
import itertools
import os

HELPERS = {"assert_table_lineage_equal": "table", "assert_column_lineage_equal": "column", "LineageRunner": "runner",
           "assert_lr_graphs_match": None}
SQLPARSE = "non-validating"


class _Skip(Exception):
    pass


def _ev(node, env):
    """evaluate a literal-ish expression in `env` (no builtins); raises _Skip when it is not static"""
    try:
        code = compile(ast.Expression(body=node), "<corpus11>", "eval")
        return eval(code, {"__builtins__": {}}, dict(env))   # noqa: S307  (expressions of the repo's own tests, no builtins)
    except Exception as e:   # NameError, TypeError ...
        raise _Skip(str(e))


def _param_bindings(fn, module_env):
    """list of environments from the parametrize decorators of `fn` (cartesian product)"""
    axes = []
    for dec in fn.decorator_list:
        if not (isinstance(dec, ast.Call) and isinstance(dec.func, ast.Attribute) and dec.func.attr == "parametrize"):
            continue
        if len(dec.args) < 2:
            continue
        try:
            names = _ev(dec.args[0], {})
        except _Skip:
            continue
        names = [n.strip() for n in names.split(",")] if isinstance(names, str) else list(names)
        vals_node = dec.args[1]
        if isinstance(vals_node, ast.Name) and vals_node.id in module_env:
            vals = module_env[vals_node.id]
        else:
            try:
                vals = _ev(vals_node, module_env)
            except _Skip:
                continue
        axis = []
        for v in vals:
            if len(names) == 1:
                axis.append({names[0]: v})
            else:
                axis.append(dict(zip(names, v)))
        axes.append(axis)
    if not axes:
        return [{}]
    out = []
    for combo in itertools.product(*axes):
        e = {}
        for d in combo:
            e.update(d)
        out.append(e)
    return out


def _patched_environ(fn):
    """`@patch.dict(os.environ, {"SQLLINEAGE_X": "1"})` -> {"SQLLINEAGE_X": "1"} (the configuration the test runs under)"""
    out = {}
    for dec in fn.decorator_list:
        if isinstance(dec, ast.Call) and isinstance(dec.func, ast.Attribute) and dec.func.attr == "dict" and len(dec.args) == 2:
            tgt = dec.args[0]
            if isinstance(tgt, ast.Attribute) and tgt.attr == "environ":
                try:
                    d = _ev(dec.args[1], {})
                except _Skip:
                    continue
                out.update({str(k): str(v) for k, v in d.items() if str(k).startswith("SQLLINEAGE_")})
    return out


class _Provider:
    """stands for one element of a module's `providers` list: only the dict-backed one is reproduced"""

    def __init__(self, md):
        self.md = md


def _module_env(tree):
    env = {}
    for st in tree.body:
        if isinstance(st, ast.Assign) and len(st.targets) == 1 and isinstance(st.targets[0], ast.Name):
            v = st.value
            name = st.targets[0].id
            if isinstance(v, ast.Call) and isinstance(v.func, ast.Name) and v.func.id == "generate_metadata_providers" and v.args:
                try:
                    env[name] = [_Provider(_ev(v.args[0], env))]
                except _Skip:
                    pass
            else:
                try:
                    env[name] = _ev(v, env)
                except _Skip:
                    pass
    return env


def _cases_of_call(call, env, cfg, where, stats):
    fname = call.func.id if isinstance(call.func, ast.Name) else (call.func.attr if isinstance(call.func, ast.Attribute) else None)
    kind = HELPERS.get(fname)
    if kind is None or not call.args and not any(k.arg == "sql" for k in call.keywords):
        return []
    kw = {k.arg: k.value for k in call.keywords if k.arg}
    sql_node = call.args[0] if call.args else kw["sql"]
    try:
        sql = _ev(sql_node, env)
    except _Skip:
        stats["skipped_not_static"] += 1
        return []
    if not isinstance(sql, str) or not sql.strip():
        return []

    def opt(name, default, pos=None):
        node = kw.get(name)
        if node is None and pos is not None and len(call.args) > pos:
            node = call.args[pos]
        if node is None:
            return default
        try:
            return _ev(node, env)
        except _Skip:
            return default
    md = None
    mp = opt("metadata_provider", None, 3 if kind == "column" else (2 if kind == "runner" else None))
    if isinstance(mp, _Provider):
        md = mp.md
    elif mp is not None:
        stats["skipped_provider"] += 1
    if kind == "runner":
        dialects = [opt("dialect", "ansi", 1)]
    else:
        dialect = opt("dialect", "ansi", 3 if kind == "table" else 2)
        dialects = []
        if opt("test_sqlfluff", True):
            dialects.append(dialect)
        if opt("test_sqlparse", True):
            dialects.append(SQLPARSE)
    out = []
    for d in dialects:
        if not isinstance(d, str):
            continue
        c = {"sql": sql, "dialect": d, "origin": where}
        if md is not None:
            c["metadata"] = md
        if cfg:
            c["config"] = dict(cfg)
        if kind == "runner" and opt("silent_mode", False):
            c["silent"] = True
        out.append(c)
    return out


def _walk_body(body, env, cfg, where, stats, out):
    for st in body:
        if isinstance(st, ast.Assign) and len(st.targets) == 1 and isinstance(st.targets[0], ast.Name):
            try:
                env[st.targets[0].id] = _ev(st.value, env)
            except _Skip:
                env.pop(st.targets[0].id, None)
        if isinstance(st, ast.With):
            cfg2 = dict(cfg)
            for it in st.items:
                ce = it.context_expr
                if isinstance(ce, ast.Call) and isinstance(ce.func, ast.Name) and ce.func.id == "SQLLineageConfig":
                    for k in ce.keywords:
                        try:
                            cfg2[k.arg] = _ev(k.value, env)
                        except _Skip:
                            pass
            _walk_body(st.body, env, cfg2, where, stats, out)
            continue
        if isinstance(st, (ast.For, ast.If, ast.Try)):
            # loops over literal lists: unroll
            if isinstance(st, ast.For) and isinstance(st.target, ast.Name):
                try:
                    vals = list(_ev(st.iter, env))
                except (_Skip, TypeError):
                    vals = []
                for v in vals:
                    env[st.target.id] = v
                    _walk_body(st.body, env, cfg, where, stats, out)
                continue
            for sub in (getattr(st, "body", []), getattr(st, "orelse", []), getattr(st, "finalbody", [])):
                _walk_body(sub, env, cfg, where, stats, out)
            continue
        for node in ast.walk(st):
            if isinstance(node, ast.Call):
                out.extend(_cases_of_call(node, env, cfg, where, stats))


def harvest(repo):
    """-> (cases, stats).  cases: dicts with sql, dialect, optional metadata / config / silent, origin"""
    stats = {"files": 0, "tests": 0, "skipped_not_static": 0, "skipped_provider": 0}
    cases = []
    for path in sorted(glob.glob(os.path.join(repo, "tests", "**", "*.py"), recursive=True)):
        try:
            with open(path, encoding="utf-8") as f:
                tree = ast.parse(f.read())
        except (OSError, SyntaxError):
            continue
        stats["files"] += 1
        menv = _module_env(tree)
        rel = os.path.relpath(path, repo)
        for fn in tree.body:
            if not isinstance(fn, ast.FunctionDef) or not fn.name.startswith("test"):
                continue
            stats["tests"] += 1
            osenv = _patched_environ(fn)
            for b in _param_bindings(fn, menv):
                env = dict(menv)
                env.update(b)
                got = []
                _walk_body(fn.body, env, {}, f"{rel}::{fn.name}", stats, got)
                for c in got:
                    if osenv:
                        c["env"] = dict(osenv)
                cases.extend(got)
    # distinct by content
    seen, uniq = set(), []
    for c in cases:
        k = repr((c["sql"], c["dialect"], sorted((c.get("metadata") or {}).items()), sorted((c.get("config") or {}).items()),
                  sorted((c.get("env") or {}).items()), c.get("silent", False)))
        if k not in seen:
            seen.add(k)
            uniq.append(c)
    stats["cases"] = len(uniq)
    return uniq, stats


def tpcds(repo):
    out = []
    for path in sorted(glob.glob(os.path.join(repo, "sqllineage", "data", "tpcds", "*.sql"))):
        with open(path, encoding="utf-8") as f:
            out.append({"sql": f.read(), "dialect": "ansi", "origin": "tpcds/" + os.path.basename(path)})
    return out


if __name__ == "__main__":
    import collections
    import sys
    cs, st = harvest(sys.argv[1] if len(sys.argv) > 1 else "/repo")
    print(st)
    print(collections.Counter(c["dialect"] for c in cs).most_common(12))
    print(sum(1 for c in cs if "metadata" in c), "with metadata;", sum(1 for c in cs if "config" in c or "env" in c), "with config")
    print(len(tpcds(sys.argv[1] if len(sys.argv) > 1 else "/repo")), "tpcds")
