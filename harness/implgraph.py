"""Canonical JSON views of the implementation's objects (nodes, graphs, roles), mirroring lean/SqlLineage/IO/Graph.lean."""
import common  # noqa: F401  (puts the repo on sys.path)


def models():
    from sqllineage.core import models as M
    return M


def ds_json(d):
    M = models()
    if isinstance(d, M.Table):
        return ["t", str(d.schema), d.raw_name]
    if isinstance(d, M.Path):
        return ["p", d.uri]
    if isinstance(d, M.SubQuery):
        return ["q", d.query_raw]
    raise TypeError(f"not a dataset: {d!r}")


def node_json(n):
    M = models()
    if isinstance(n, M.Column):
        return ["c", str(n), None if n.parent is None else ds_json(n.parent)]
    if isinstance(n, str):
        return ["s", n]
    return ds_json(n)


def column_payload(c):
    return {"raw": c.raw_name, "parents": [[ds_json(p), str(p)] for p in c.parent_candidates]}


def graph_json(g):
    """full dump in networkx iteration order"""
    M = models()
    nodes = []
    for n, attr in g.nodes(data=True):
        nodes.append({"n": node_json(n), "tags": {k: v for k, v in attr.items()},
                      "payload": column_payload(n) if isinstance(n, M.Column) else None})
    edges = []
    for u, v, attr in g.edges(data=True):
        edges.append({"u": node_json(u), "v": node_json(v), "type": attr.get("type"), "index": attr.get("index")})
    return {"nodes": nodes, "edges": edges}


def roles_json(holder):
    return {
        "source": [node_json(t) for t in holder.source_tables],
        "target": [node_json(t) for t in holder.target_tables],
        "intermediate": [node_json(t) for t in holder.intermediate_tables],
        "table_edges": [[node_json(u), node_json(v)] for u, v in holder.table_lineage_graph.edges],
    }


def sort_json_list(l):
    import json
    return sorted(l, key=lambda x: json.dumps(x, sort_keys=True))


def canon_roles(r):
    return {k: sort_json_list(v) for k, v in r.items()}


def canon_graph(gj):
    return {"nodes": sort_json_list(gj["nodes"]), "edges": sort_json_list(gj["edges"])}
