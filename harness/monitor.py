"""C06 invariant monitor: property C06 evaluated on an IMPLEMENTATION result alone (a `LineageRunner` after evaluation).

Nothing here uses the Lean model.  `check_runner(lr)` returns a list of failures, each `{"class": <short class>, "detail": ...}`;
an empty list means the result satisfies every clause of C06:

  paths      every reported path has >= 2 nodes, all `Column`s, no node twice; every hop is an edge of the combined graph with
             type LINEAGE; the first column has no `Column` predecessor (in-degree 0 in the column view); the last has no
             `Column` successor and its parent is a `Table`
  projection owner(last) is a target or intermediate table; the owner of a resolved first column (a `Table`/`Path` parent) is a
             source or intermediate table; `table_lineage_graph` has a path owner(first) -> owner(last)
  graph      every node n: `n in g`, `g.nodes[n]` works, an equal rebuilt object has the same hash and is found (`in`, `nodes[]`);
             every edge's end points are nodes; a `Column` whose `parent` is not None has exactly one `_parent`, and every
             HAS_COLUMN edge into it comes from that parent

Failure classes are stable strings; `harness/c06.py` maps the ones that are recorded findings (known_findings.json) to their ids
by class AND by an input-shape predicate, everything else is a VIOLATION with the SQL as replay.
"""
import copy

import common  # noqa: F401  (repo on sys.path)


def _imports():
    import networkx as nx
    from sqllineage.core.models import Column, Path, SubQuery, Table
    from sqllineage.utils.constant import EdgeType
    return nx, Column, Path, SubQuery, Table, EdgeType


def rebuild(n):
    """an equal object built afresh (same attribute values, different identity)"""
    _, Column, _, _, _, _ = _imports()
    if isinstance(n, str):
        return "".join(list(n))
    m = copy.copy(n)
    if isinstance(n, Column):
        m._parent = set(n._parent)
    return m


def check_graph(g):
    """graph-level consistency clauses"""
    nx, Column, Path, SubQuery, Table, EdgeType = _imports()
    fails = []

    def add(cls, **detail):
        if len(fails) < 40:
            fails.append({"class": cls, "detail": {k: (str(v) if not isinstance(v, (list, int, bool)) else v) for k, v in detail.items()}})

    nodes = list(g.nodes)
    for n in nodes:
        try:
            if n not in g:
                add("node not retrievable: `n in g` is False", node=repr(n))
                continue
            g.nodes[n]
        except Exception as e:  # noqa
            add("node not retrievable: g.nodes[n] raises", node=repr(n), error=type(e).__name__)
            continue
        try:
            m = rebuild(n)
            if m != n:
                add("node not equal to an identical rebuilt object", node=repr(n))
            elif hash(m) != hash(n):
                add("node hash differs from the hash of an equal rebuilt object", node=repr(n))
            elif m not in g:
                add("node not retrievable through an equal rebuilt object", node=repr(n))
            else:
                g.nodes[m]
        except Exception as e:  # noqa
            add("node not retrievable: rebuilt lookup raises", node=repr(n), error=type(e).__name__)
        if isinstance(n, Column):
            if n.parent is not None and len(n._parent) != 1:
                add("resolved column with several owners", node=repr(n), owners=sorted(str(p) for p in n._parent))
            owners = [u for u in g.predecessors(n) if g.edges[u, n].get("type") == EdgeType.HAS_COLUMN]
            if n.parent is not None and any(u != n.parent for u in owners):
                add("HAS_COLUMN edge from a node that is not the column's owner", node=repr(n),
                    owners=sorted(str(u) for u in owners), parent=str(n.parent))
            if len({id(u) for u in owners}) > 1 and n.parent is not None:
                add("resolved column owned by several graph nodes", node=repr(n), owners=sorted(str(u) for u in owners))
    seen = set(nodes)
    for u, v in g.edges:
        if u not in seen or v not in seen:
            add("edge end point is not a node", edge=[repr(u), repr(v)])
    return fails


def check_runner(lr, paths=None):
    """all clauses on a LineageRunner (evaluates it if needed); `paths` may pass an already computed get_column_lineage()"""
    nx, Column, Path, SubQuery, Table, EdgeType = _imports()
    if paths is None:
        paths = lr.get_column_lineage()
    holder = lr._sql_holder
    g = holder.graph
    fails = []

    def add(cls, **detail):
        if len(fails) < 40:
            fails.append({"class": cls, "detail": detail})

    paths = [tuple(p) for p in paths]
    if len(set(paths)) != len(paths):
        add("a path is reported twice")
    src_tabs, tgt_tabs, mid_tabs = set(lr.source_tables), set(lr.target_tables), set(lr.intermediate_tables)
    tg = holder.table_lineage_graph
    for p in paths:
        sp = [str(c) for c in p]
        if len(p) < 2:
            add("path without a hop", path=sp)
            continue
        if not all(isinstance(c, Column) for c in p):
            add("path contains a node that is not a Column", path=sp)
            continue
        if len(set(p)) != len(p) or len({id(c) for c in p}) != len(p):
            add("path repeats a node", path=sp)
        for u, v in zip(p, p[1:]):
            if not g.has_edge(u, v):
                add("hop is not an edge of the graph", path=sp, hop=[str(u), str(v)])
            elif g.edges[u, v].get("type") != EdgeType.LINEAGE:
                add("hop is not a LINEAGE edge", path=sp, hop=[str(u), str(v)], type=str(g.edges[u, v].get("type")))
        first, last = p[0], p[-1]
        if first not in g or last not in g:
            add("path end point is not a node of the graph", path=sp)
            continue
        if any(isinstance(u, Column) for u in g.predecessors(first)):
            add("first column is fed by another column", path=sp)
        if any(isinstance(v, Column) for v in g.successors(last)):
            add("last column feeds another column", path=sp)
        if not isinstance(last.parent, Table):
            add("last column is not a column of a Table", path=sp, parent=repr(last.parent))
            continue
        # ---- projection onto table lineage
        if last.parent not in tgt_tabs | mid_tabs:
            add("last column's table is neither target nor intermediate", path=sp, table=str(last.parent))
        fo = first.parent
        if isinstance(fo, (Table, Path)):
            if fo not in src_tabs | mid_tabs:
                add("first column's table is not in table lineage as source or intermediate", path=sp, table=str(fo))
            elif fo not in tg or last.parent not in tg or not nx.has_path(tg, fo, last.parent):
                add("table graph does not connect the first column's table to the last column's table", path=sp,
                    tables=[str(fo), str(last.parent)])
    fails += check_graph(g)
    fails += check_holders(lr)
    return fails


HOLDER_NOT_PROJ = "statement holder does not project: a column edge between table-owned columns does not go from a read table to the written table"


def check_holders(lr):
    """the hypothesis `Projection.HolderOK` of the Lean theorem `Props.C06.fold_projects`, evaluated on the IMPLEMENTATION's statement
    holders: a statement that is not a RENAME; every LINEAGE edge between two columns owned by a Table / Path goes from a column of
    a dataset the statement READS to a column of a dataset it WRITES; a holder with DROP tags has no such edge"""
    nx, Column, Path, SubQuery, Table, EdgeType = _imports()
    fails = []
    for i, h in enumerate(getattr(lr, "_stmt_holders", [])):
        g = h.graph
        rd, wr = h.read, h.write
        for u, v, attr in g.edges(data=True):
            if not (isinstance(u, Column) and isinstance(v, Column)):
                continue
            pu, pv = u.parent, v.parent
            if not (isinstance(pu, (Table, Path)) and isinstance(pv, (Table, Path))):
                continue
            bad = None
            if h.rename:
                bad = "a RENAME statement carries column lineage"
            elif h.drop:
                bad = "a DROP statement carries column lineage"
            elif pu not in rd:
                bad = "the source column's table is not read by the statement"
            elif pv not in wr:
                bad = "the target column's table is not written by the statement"
            if bad and len(fails) < 10:
                fails.append({"class": HOLDER_NOT_PROJ, "detail": {"statement": i, "why": bad, "edge": [str(u), str(v)],
                                                                   "path": [str(u), str(v)], "table": str(pu if "source" in bad else pv),
                                                                   "read": sorted(str(t) for t in rd), "write": sorted(str(t) for t in wr)}})
    return fails


def export(lr, paths=None):
    """the implementation's combined graph and its reported paths in the form driver cmd `chainpaths` reads: nodes in `g.nodes`
    order (JSON as lean/SqlLineage/IO/Graph.lean), edges by node index in `g.edges` order, paths as node-index lists (default
    arguments, and with exclude_subquery_columns=True)"""
    import implgraph as IG
    g = lr._sql_holder.graph
    nodes = list(g.nodes)
    index = {}
    for i, n in enumerate(nodes):
        index.setdefault(n, i)
    edges = [[index[u], index[v], str(attr.get("type"))] for u, v, attr in g.edges(data=True)]
    paths = lr.get_column_lineage() if paths is None else paths
    p_sub = lr.get_column_lineage(exclude_subquery_columns=True)
    return {"nodes": [IG.node_json(n) for n in nodes], "edges": edges,
            "paths": sorted([index[c] for c in p] for p in paths),
            "paths_excl_sub": sorted([index[c] for c in p] for p in p_sub)}


def run_sql(sql, dialect="ansi", metadata=None, provider=None, want_export=False):
    """run the real analyser and the monitor; returns {"rejected":..} | {"error":..} | {"fails": [...], "paths": [...], "n_nodes": int}"""
    import warnings
    import sqlimpl
    from sqllineage.runner import LineageRunner
    from sqllineage.core.metadata.dummy import DummyMetaDataProvider
    from sqllineage import exceptions as X
    kwargs = {}
    if provider is not None:
        kwargs["metadata_provider"] = provider
    elif metadata is not None:
        kwargs["metadata_provider"] = DummyMetaDataProvider(metadata)
    try:
        with warnings.catch_warnings():
            warnings.simplefilter("ignore")
            lr = LineageRunner(sql, dialect=dialect, **kwargs)
            paths = lr.get_column_lineage()
            fails = check_runner(lr, paths)
            # the other two views of the same result must satisfy the structural clauses too
            out = {"fails": fails,
                   "paths": sorted([sqlimpl.norm_name(str(c)) for c in p] for p in paths),
                   "n_nodes": lr._sql_holder.graph.number_of_nodes(),
                   "tables": {"source": sorted(sqlimpl.norm_name(str(t)) for t in lr.source_tables),
                              "target": sorted(sqlimpl.norm_name(str(t)) for t in lr.target_tables),
                              "intermediate": sorted(sqlimpl.norm_name(str(t)) for t in lr.intermediate_tables)}}
            if want_export:
                out["export"] = export(lr, paths)
            return out
    except X.InvalidSyntaxException as e:
        return {"rejected": str(e)[-200:]}
    except BaseException as e:  # noqa
        if isinstance(e, (KeyboardInterrupt, SystemExit)):
            raise
        return sqlimpl.classify_exception(e)


def run_case(case):
    """process-pool friendly: case = dict(sql, dialect, metadata)"""
    sql = case["sql"]
    if isinstance(sql, list):
        sql = ";\n".join(sql)
    r = run_sql(sql, case.get("dialect", "ansi"), case.get("metadata"), want_export=case.get("export", False))
    for f in r.get("fails", []):
        f["detail"] = {k: (v if isinstance(v, (list, int, bool, str)) else str(v)) for k, v in f["detail"].items()}
    return r


def run_cases(cases, chunksize=8):
    import sqlimpl
    if len(cases) < 8:
        return [run_case(c) for c in cases]
    return sqlimpl.pool().map(run_case, cases, chunksize=chunksize)
