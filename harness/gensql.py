"""Generators of typed-AST statements (JSON form read by lean/SqlLineage/IO/Sql.lean).

Identifiers are plain lower-case, keyword-free names so that every dialect accepts them; spellings are varied by the
properties that are about spelling (C07, C16), not here.  Two sources: `enumerate_shapes()` (bounded-exhaustive product of
statement kind x FROM shape x subquery position x nesting) and `Rand(rng)` (seeded random to a given depth).
"""
import itertools

TABLES = ["t1", "t2", "t3", "t4", "t5"]
SCHEMAS = [None, "s1", "s2"]
COLS = ["a", "b", "c", "d", "e"]
ALIASES = ["x", "y", "z", "w"]
CTES = ["c1", "c2", "c3"]
FUNCS = ["max", "min", "sum", "coalesce", "concat", "abs"]


def col(name, qual=None):
    return ["col", [qual] if qual else [], name]


def lit(t="1"):
    return ["lit", t]


def func(name, args, distinct=False, over=None):
    return ["func", name, distinct, args, over]


def item(e, alias=None, as_kw=True):
    return [e, alias, as_kw if alias else False]


def table(name, schema=None, alias=None, as_kw=False):
    return ["table", ([schema] if schema else []) + [name], alias, as_kw if alias else False]


def derived(q, alias, as_kw=False):
    return ["derived", q, alias, as_kw if alias else False]


def join(elem, on=None, kind="join", using=None):
    return [kind, elem, on, using or []]


def from_expr(base, joins=()):
    return [base, list(joins)]


def select(items, frm=(), wh=None, grp=(), hav=None, distinct=False):
    return ["select", distinct, list(items), list(frm), wh, list(grp), hav]


def setop(first, rest):
    """first: (query, bracketed); rest: [(op, (query, bracketed))]"""
    return ["setop", [first[0], first[1]], [[op, [b[0], b[1]]] for op, b in rest]]


def with_(ctes, body):
    return ["with", [[n, q] for n, q in ctes], body]


def eq(a, b):
    return ["bin", "=", a, b]


# ---------------------------------------------------------------------------------------------------------- random
class Rand:
    def __init__(self, rng, max_depth=3, allow=None):
        self.rng = rng
        self.max_depth = max_depth
        # feature switches (all on by default); the harness turns classes off to stay inside / outside fragments
        self.allow = {"subq_item": True, "subq_where": True, "subq_having": True, "subq_on": True, "comma_join": True,
                      "mixed_comma_join": True, "derived": True, "cte": True, "setop": True, "star": True, "window": True,
                      "schema": True, "cte_self_ref": False, "literal_first_branch": True, "derived_join_inside": False,
                      "unqualified_multi": True}
        if allow:
            self.allow.update(allow)
        self._alias_n = 0

    def pick(self, l):
        return l[self.rng.randrange(len(l))]

    def chance(self, p):
        return self.rng.random() < p

    def fresh_alias(self):
        # mostly fresh names; sometimes a name from a small pool so that the SAME alias is used for different relations in
        # different scopes of one statement (seeded mutant C02/3: columns of two same-alias subqueries must stay distinct)
        if self.allow.get("alias_reuse", True) and self.chance(0.12):
            return self.pick(ALIASES)
        self._alias_n += 1
        return f"q{self._alias_n}"

    # ---- scope: list of (qualifier used to reference it | None, kind)
    def table_ref(self, ctes=()):
        """returns (from_elem, qualifier) ; may reference a visible CTE"""
        if ctes and self.allow["cte"] and self.chance(0.4):
            name = self.pick(list(ctes))
            if self.chance(0.5):
                a = self.fresh_alias()
                return table(name, None, a, self.chance(0.5)), a
            return table(name), name
        name = self.pick(TABLES)
        schema = self.pick(SCHEMAS) if self.allow["schema"] else None
        if self.chance(0.5):
            a = self.fresh_alias()
            return table(name, schema, a, self.chance(0.5)), a
        return table(name, schema), name

    def from_elem(self, depth, ctes):
        if self.allow["derived"] and depth > 0 and self.chance(0.3):
            a = self.fresh_alias()
            q = self.query(depth - 1, ctes, allow_with=self.chance(0.2))
            if not self.allow["derived_join_inside"]:
                pass
            return derived(q, a, self.chance(0.5)), a
        return self.table_ref(ctes)

    def expr(self, depth, scope, allow_subq=False, ctes=()):
        """scope: list of qualifiers in scope"""
        r = self.rng.random()
        if depth <= 0 or r < 0.35:
            c = self.pick(COLS)
            if scope and (self.chance(0.6) or (len(scope) > 1 and not self.allow["unqualified_multi"])):
                return col(c, self.pick(scope))
            return col(c)
        if r < 0.42:
            return lit(self.pick(["1", "0", "'k'", "2.5"]))
        if r < 0.57:
            n = self.pick(FUNCS)
            args = [self.expr(depth - 1, scope, allow_subq, ctes) for _ in range(self.rng.randrange(1, 3))]
            over = None
            if self.allow["window"] and n in ("max", "min", "sum") and self.chance(0.3):
                over = [[self.expr(0, scope)], [self.expr(0, scope)] if self.chance(0.5) else []]
            return func(n, args, False, over)
        if r < 0.70:
            return ["bin", self.pick(["+", "-", "*", "||"]), self.expr(depth - 1, scope, allow_subq, ctes), self.expr(depth - 1, scope, allow_subq, ctes)]
        if r < 0.80:
            whens = [[self.cond(depth - 1, scope, allow_subq, ctes), self.expr(depth - 1, scope, allow_subq, ctes)]
                     for _ in range(self.rng.randrange(1, 3))]
            els = self.expr(depth - 1, scope, allow_subq, ctes) if self.chance(0.6) else None
            return ["case", whens, els]
        if r < 0.87:
            return ["cast", self.expr(depth - 1, scope, allow_subq, ctes), self.pick(["int", "varchar(10)"])]
        if r < 0.94 or not allow_subq:
            return ["paren", self.expr(depth - 1, scope, allow_subq, ctes)]
        return ["subq", self.scalar_query(depth - 1, ctes)]

    def cond(self, depth, scope, allow_subq=False, ctes=()):
        a = self.expr(min(depth, 1), scope, False, ctes)
        r = self.rng.random()
        if allow_subq and depth > 0 and r < 0.35:
            q = self.scalar_query(depth - 1, ctes)
            k = self.rng.randrange(3)
            if k == 0:
                return ["in", a, self.chance(0.2), q]
            if k == 1:
                return ["exists", self.chance(0.2), q]
            return ["bin", self.pick(["=", ">"]), a, ["subq", q]]
        c = ["bin", self.pick(["=", ">", "<"]), a, self.expr(min(depth, 1), scope, False, ctes)]
        if depth > 0 and self.chance(0.3):
            return ["bin", self.pick(["and", "or"]), c, self.cond(depth - 1, scope, allow_subq, ctes)]
        return c

    def scalar_query(self, depth, ctes):
        fe, q = self.table_ref(ctes)
        c = self.pick(COLS)
        it = item(func("max", [col(c, q if self.chance(0.5) else None)])) if self.chance(0.5) else item(col(c))
        wh = self.cond(depth, [q], allow_subq=self.allow["subq_where"] and depth > 0, ctes=ctes) if self.chance(0.4) else None
        return select([it], [from_expr(fe)], wh)

    def select_block(self, depth, ctes, n_items=None):
        # FROM
        frm = []
        scope = []
        shape = self.rng.random()
        n_from = 1
        if self.allow["comma_join"] and shape < 0.2:
            n_from = self.rng.randrange(2, 4)
        for i in range(n_from):
            base, q = self.from_elem(depth, ctes)
            scope.append(q)
            joins = []
            n_joins = 0
            if n_from == 1 or self.allow["mixed_comma_join"]:
                n_joins = self.pick([0, 0, 1, 1, 2]) if n_from == 1 else self.pick([0, 0, 0, 1])
            for _ in range(n_joins):
                e, jq = self.from_elem(depth, ctes)
                kind = self.pick(["join", "left join", "inner join", "left outer join", "cross join"])
                on = None
                using = None
                if kind != "cross join":
                    if self.chance(0.15):
                        using = [self.pick(COLS)]
                    else:
                        on = eq(col(self.pick(COLS), q), col(self.pick(COLS), jq))
                        if self.allow["subq_on"] and depth > 0 and self.chance(0.1):
                            on = ["bin", "and", on, ["in", col(self.pick(COLS), jq), False, self.scalar_query(depth - 1, ctes)]]
                scope.append(jq)
                joins.append(join(e, on, kind, using))
            frm.append(from_expr(base, joins))
        # items
        n_items = n_items or self.rng.randrange(1, 4)
        items = []
        used = set()
        for _ in range(n_items):
            if self.allow["star"] and self.chance(0.12):
                items.append(item(["star", [self.pick(scope)] if self.chance(0.5) else []]))
                continue
            e = self.expr(depth, scope, allow_subq=self.allow["subq_item"] and depth > 0, ctes=ctes)
            alias = None
            if e[0] != "col" or self.chance(0.3):
                alias = self.pick([c for c in COLS + ["f", "g", "h"] if c not in used] or ["zz"])
                used.add(alias)
            items.append(item(e, alias, self.chance(0.7)))
        wh = None
        if self.chance(0.5):
            wh = self.cond(depth, scope, allow_subq=self.allow["subq_where"] and depth > 0, ctes=ctes)
        grp, hav = [], None
        if self.chance(0.15):
            grp = [self.expr(0, scope)]
            if self.chance(0.5):
                hav = self.cond(depth, scope, allow_subq=self.allow["subq_having"] and depth > 0, ctes=ctes)
        return select(items, frm, wh, grp, hav, self.chance(0.1))

    def query(self, depth, ctes=(), allow_with=True, allow_setop=True):
        r = self.rng.random()
        if allow_with and self.allow["cte"] and depth > 0 and r < 0.2:
            n = self.rng.randrange(1, 3)
            names = self.rng.sample(CTES, n)
            defs = []
            visible = list(ctes)
            for nm in names:
                defs.append((nm, self.query(depth - 1, tuple(visible), allow_with=False)))
                visible.append(nm)
            return with_(defs, self.query(depth - 1, tuple(visible), allow_with=False))
        if allow_setop and self.allow["setop"] and depth > 0 and r < 0.4:
            k = self.rng.randrange(2, 4)
            n_items = self.rng.randrange(1, 3)
            brs = [(self.select_block(depth - 1, ctes, n_items), self.chance(0.2)) for _ in range(k)]
            if not self.allow["literal_first_branch"]:
                pass
            return setop(brs[0], [(self.pick(["union", "union all", "intersect", "except"]), b) for b in brs[1:]])
        return self.select_block(depth, ctes)

    def stmt(self, depth=None):
        depth = self.max_depth if depth is None else depth
        self._alias_n = 0
        r = self.rng.random()
        q = self.query(depth)
        tgt = ([self.pick(["s1", "s2"])] if self.chance(0.3) and self.allow["schema"] else []) + [self.pick(["tgt", "t1", "out1"])]
        if r < 0.2:
            return ["query", q, self.chance(0.1) and q[0] != "with"]
        if r < 0.55:
            cols = None
            br = self.chance(0.1)
            # `insert overwrite` / `insert into table` are Hive/Spark spellings, not core SQL: other dialects read them as
            # something else (tsql: a table called "overwrite"), so they are generated only by `spark_stmt`
            return ["insert", "into", False, tgt, cols, q, br]
        if r < 0.8:
            return ["ctas", tgt, False, self.chance(0.2), q, self.chance(0.15)]
        return ["create_view", tgt, self.chance(0.3), None, q]


    def spark_stmt(self, depth=None):
        s = self.stmt(depth)
        while s[0] != "insert":
            s = self.stmt(depth)
        s[1] = self.pick(["into", "overwrite"])
        s[2] = True if s[1] == "overwrite" else self.chance(0.5)
        return s


# ------------------------------------------------------------------------------------------------ enumeration
def enumerate_shapes(depth=1):
    """bounded-exhaustive: statement kind x FROM shape x subquery position (x one nesting level when depth=2)"""
    def leaf_select(t="t1", c="a", alias=None):
        return select([item(col(c))], [from_expr(table(t, None, alias))])

    inner_queries = [leaf_select("t3", "c"),
                     # a derived table / subquery with its own WITH whose CTE is a JOIN partner (seeded mutant C01/3)
                     with_([("w", leaf_select("t4", "c"))],
                           select([item(col("c", "t5"))], [from_expr(table("t5"), [join(table("w"), eq(col("c", "t5"), col("c", "w")))])]))]
    if depth >= 2:
        inner_queries += [
            select([item(col("c", "x"))], [from_expr(table("t3", None, "x"), [join(table("t4", "s1"), eq(col("c", "x"), col("c", "t4")))])]),
            select([item(col("c"))], [from_expr(derived(leaf_select("t5", "c"), "dd"))]),
            setop((leaf_select("t3", "c"), False), [("union all", (leaf_select("t4", "c"), False))]),
            select([item(col("c"))], [from_expr(table("t3"))], ["in", col("c"), False, leaf_select("t5", "c")]),
        ]
    from_shapes = []
    for iq in inner_queries:
        from_shapes += [
            ("single", [from_expr(table("t1"))]),
            ("single_schema_alias", [from_expr(table("t1", "s1", "x", True))]),
            ("comma", [from_expr(table("t1")), from_expr(table("t2", "s1", "y"))]),
            ("join", [from_expr(table("t1", None, "x"), [join(table("t2"), eq(col("a", "x"), col("a", "t2")))])]),
            ("left_join_using", [from_expr(table("t1"), [join(table("t2"), None, "left join", ["a"])])]),
            ("two_joins", [from_expr(table("t1"), [join(table("t2"), eq(col("a", "t1"), col("a", "t2"))), join(table("t3", "s2", "z"), eq(col("a", "t1"), col("a", "z")), "inner join")])]),
            ("comma_then_join", [from_expr(table("t1")), from_expr(table("t2"), [join(table("t3"), eq(col("a", "t2"), col("a", "t3")))])]),
            ("join_then_comma", [from_expr(table("t1"), [join(table("t2"), eq(col("a", "t1"), col("a", "t2")))]), from_expr(table("t3"))]),
            ("derived", [from_expr(derived(iq, "d"))]),
            ("derived_join", [from_expr(table("t1"), [join(derived(iq, "d", True), eq(col("a", "t1"), col("c", "d")))])]),
            ("derived_comma", [from_expr(derived(iq, "d")), from_expr(table("t2"))]),
        ]
    seen = set()
    uniq = []
    for nm, f in from_shapes:
        k = repr(f)
        if k not in seen:
            seen.add(k); uniq.append((nm, f))
    from_shapes = uniq
    sub_positions = [("none", None)]
    for iq in inner_queries:
        sub_positions += [
            ("where_in", ("where", ["in", col("a"), False, iq])),
            ("where_exists", ("where", ["exists", False, iq])),
            ("where_cmp", ("where", ["bin", "=", col("a"), ["subq", iq]])),
            ("where_and_in", ("where", ["bin", "and", ["bin", ">", col("b"), lit("1")], ["in", col("a"), True, iq]])),
            ("where_paren_in", ("where", ["paren", ["in", col("a"), False, iq]])),
            ("item_case_when", ("item", ["case", [[["in", col("a"), False, iq], lit("1")]], lit("0")])),
            ("item_case_then", ("item", ["case", [[["bin", ">", col("a"), lit("1")], ["subq", iq]]], None])),
            ("item_case_else", ("item", ["case", [[["bin", ">", col("a"), lit("1")], lit("1")]], ["subq", iq]])),
            ("item_func", ("item", func("coalesce", [["subq", iq], lit("0")]))),
            ("item_bare", ("item", ["subq", iq])),
            ("item_arith", ("item", ["bin", "+", col("a"), ["subq", iq]])),
            ("having", ("having", ["bin", ">", func("max", [col("b")]), ["subq", iq]])),
            ("join_on", ("on", ["in", col("a", "t1"), False, iq])),
        ]
    seen = set()
    sp = []
    for nm, p in sub_positions:
        k = repr(p)
        if k not in seen:
            seen.add(k); sp.append((nm, p))
    for (fn, frm), (sn, sub) in itertools.product(from_shapes, sp):
        items = [item(col("a")), item(["bin", "+", col("b"), lit("1")], "e", True)]
        wh = hav = None
        grp = []
        f2 = frm
        if sub:
            where, e = sub
            if where == "where":
                wh = e
            elif where == "item":
                items = items + [item(e, "f", True)]
            elif where == "having":
                grp = [col("a")]; hav = e
            elif where == "on":
                if fn != "join":
                    continue
                f2 = [from_expr(table("t1"), [join(table("t2"), ["bin", "and", eq(col("a", "t1"), col("a", "t2")), e])])]
        q = select(items, f2, wh, grp, hav)
        for kind in ("query", "insert", "ctas", "view", "insert_cols", "union", "cte", "cte_insert"):
            if kind == "query":
                yield (f"query/{fn}/{sn}", ["query", q, False])
            elif kind == "insert":
                yield (f"insert/{fn}/{sn}", ["insert", "into", False, ["tgt"], None, q, False])
            elif kind == "ctas":
                yield (f"ctas/{fn}/{sn}", ["ctas", ["s1", "tgt"], False, False, q, False])
            elif kind == "view":
                yield (f"view/{fn}/{sn}", ["create_view", ["tgt"], False, None, q])
            elif kind == "insert_cols" and sn == "none":
                yield (f"insert_cols/{fn}/{sn}", ["insert", "into", False, ["tgt"], ["p", "q"], q, False])
            elif kind == "union" and sn in ("none", "where_in"):
                q2 = select([item(col("c")), item(col("d"))], [from_expr(table("t5", "s2"))])
                yield (f"union/{fn}/{sn}", ["insert", "into", False, ["tgt"], None, setop((q, False), [("union all", (q2, False))]), False])
            elif kind == "cte" and sn in ("none", "where_in"):
                body = select([item(col("a")), item(col("e", "c1"))], [from_expr(table("c1"))])
                yield (f"cte/{fn}/{sn}", ["query", with_([("c1", q)], body), False])
            elif kind == "cte_insert" and sn == "none":
                body = select([item(col("a")), item(col("e", "k"))], [from_expr(table("c1", None, "k"))])
                yield (f"cte_insert/{fn}/{sn}", ["insert", "into", False, ["tgt"], None, with_([("c1", q)], body), False])


# ------------------------------------------------------------------------------------------------ shape predicates
def _walk(j):
    if isinstance(j, list):
        yield j
        for x in j:
            yield from _walk(x)


def _contains_subq(e):
    return any(isinstance(n, list) and n and n[0] in ("subq", "in", "exists") for n in _walk(e))


def item_has_subq(stmt):
    """a select item (at any query level) contains a subquery: `_get_column_from_subquery` territory (D2, column level)"""
    for n in _walk(stmt):
        if isinstance(n, list) and n and n[0] == "select" and len(n) == 7:
            for it in n[2]:
                if _contains_subq(it[0]):
                    return True
    return False


# ------------------------------------------------------------------------------------ column-level targeted families
def enumerate_columns():
    """bounded-exhaustive families aimed at the column layer: expression form x scope shape, set-operation arity x name
    order, explicit column lists, and alias reuse across scopes (each family grew out of a seeded mutant that random
    generation did not reach)"""
    # --- scope shapes: (from list, qualifiers usable)
    scopes = [
        ("one", [from_expr(table("t1", None, "x"))], ["x"]),
        ("two_join", [from_expr(table("t1", None, "x"), [join(table("t2", "s1", "y", True), eq(col("k", "x"), col("k", "y")))])], ["x", "y"]),
        ("two_comma", [from_expr(table("t1", None, "x")), from_expr(table("t2", None, "y"))], ["x", "y"]),
        ("two_noalias", [from_expr(table("t1"), [join(table("t2"), eq(col("k", "t1"), col("k", "t2")))])], ["t1", "t2"]),
    ]
    for sn, frm, qs in scopes:
        a, b = qs[0], qs[-1]
        exprs = [
            ("same_name_func", func("coalesce", [col("a", a), col("a", b)])),
            ("same_name_arith", ["bin", "+", col("a", a), col("a", b)]),
            ("same_name_case", ["case", [[["bin", ">", col("a", a), col("a", b)], col("b", a)]], col("b", b)]),
            ("nested_func", func("concat", [func("abs", [col("a", a)]), func("abs", [col("a", b)]), col("c", a)])),
            ("window", func("sum", [col("a", a)], False, [[col("a", b)], [col("c", a)]])),
            ("cast_paren", ["cast", ["paren", ["bin", "-", col("d", b), col("d", a)]], "int"]),
            ("distinct_func", func("max", [col("a", b)], True)),
            ("unqualified", func("coalesce", [col("m"), col("n")])),
            ("mixed", ["bin", "||", col("p"), col("p", a)]),
        ]
        for en, e in exprs:
            q = select([item(col("k", a)), item(e, "r", True), item(col("z", b), "w", False)], frm)
            yield (f"colexpr/{sn}/{en}/insert", ["insert", "into", False, ["tgt"], None, q, False])
            yield (f"colexpr/{sn}/{en}/view_cols", ["create_view", ["s1", "v"], False, ["c1", "c2", "c3"], q])
    # --- set operations: arity x name order x branches
    import itertools as _it
    name_orders = [["b", "a"], ["a", "b"], ["c", "a", "b"], ["z", "m", "a"]]
    for names in name_orders:
        for nb in (2, 3):
            brs = []
            for bi in range(nb):
                t = f"t{bi + 1}"
                its = []
                for j, nm in enumerate(names):
                    c = nm if bi == 0 else "efgh"[(bi + j) % 4]
                    its.append(item(col(c, t if (bi + j) % 2 else None)))
                brs.append((select(its, [from_expr(table(t, "s1" if bi == 1 else None))]), bi == 2))
            q = setop(brs[0], [("union all" if i % 2 else "union", b) for i, b in enumerate(brs[1:])])
            tag = "".join(names) + str(nb)
            yield (f"setop/{tag}/insert", ["insert", "into", False, ["tgt"], None, q, False])
            yield (f"setop/{tag}/ctas", ["ctas", ["tgt"], False, False, q, False])
            yield (f"setop/{tag}/insert_cols", ["insert", "into", False, ["tgt"], [f"k{j}" for j in range(len(names))], q, False])
            yield (f"setop/{tag}/derived", ["insert", "into", False, ["tgt"], None,
                                           select([item(col(n, "d")) for n in names], [from_expr(derived(q, "d"))]), False])
            yield (f"setop/{tag}/cte", ["insert", "into", False, ["tgt"], None,
                                       with_([("c1", q)], select([item(col(n)) for n in reversed(names)], [from_expr(table("c1"))])), False])
    # --- the same alias for different relations in different scopes
    def inner(t, c):
        return select([item(col(c, "s"), "a", True)], [from_expr(derived(select([item(col(c))], [from_expr(table(t))]), "s"))])
    two_sib = select([item(col("a", "l"), "x", True), item(col("a", "r"), "y", True)],
                     [from_expr(derived(inner("t1", "a"), "l"), [join(derived(inner("t2", "b"), "r"), eq(col("a", "l"), col("a", "r")))])])
    yield ("alias_reuse/siblings", ["insert", "into", False, ["tgt"], None, two_sib, False])
    outer_deeper = select([item(col("a", "s"), "x", True)],
                          [from_expr(derived(select([item(col("a", "s"))], [from_expr(derived(select([item(col("a"))], [from_expr(table("t1"))]), "s"))]), "s"))])
    yield ("alias_reuse/outer_and_deeper", ["ctas", ["tgt"], False, False, outer_deeper, False])
    cte_and_main = with_([("c1", select([item(col("a", "s"))], [from_expr(derived(select([item(col("a"))], [from_expr(table("t1"))]), "s"))]))],
                         select([item(col("a", "c1"), "x", True), item(col("a", "s"), "y", True)],
                                [from_expr(table("c1"), [join(derived(select([item(col("b"), "a", True)], [from_expr(table("t2"))]), "s"), eq(col("a", "c1"), col("a", "s")))])]))
    yield ("alias_reuse/cte_and_main", ["insert", "into", False, ["tgt"], None, cte_and_main, False])
    swapped = setop((select([item(col("a", "s"), "x", True), item(col("b", "s"), "y", True)],
                            [from_expr(derived(select([item(col("a")), item(col("b"))], [from_expr(table("t1"))]), "s"))]), False),
                    [("union all", (select([item(col("b", "s")), item(col("a", "s"))],
                                           [from_expr(derived(select([item(col("a")), item(col("b"))], [from_expr(table("t2"))]), "s"))]), False))])
    yield ("alias_reuse/union_branches", ["insert", "into", False, ["tgt"], None, swapped, False])


# ------------------------------------------------------------------------------------------ UPDATE / MERGE families
def enumerate_dml():
    """UPDATE (ansi `UPDATE t SET .. FROM ..`) and MERGE statements: target/source forms x SET / VALUES forms"""
    srcs = [
        ("table", ["table", ["s1", "src"], "y"], "y"),
        ("table_noalias", ["table", ["src"], None], "src"),
        ("derived", ["derived", select([item(col("a")), item(col("b")), item(col("c"))], [from_expr(table("t2", "s1"))]), "y"], "y"),
        ("derived_join", ["derived", select([item(col("a", "p")), item(col("b", "q"))],
                                              [from_expr(table("t2", None, "p"), [join(table("t3", None, "q"), eq(col("k", "p"), col("k", "q")))])]), "y"], "y"),
    ]
    for sn, src, q in srcs:
        on = eq(col("a", "x"), col("a", q))
        ups = [
            ("col", [[["b"], col("b", q)]]),
            ("two", [[["b"], col("b", q)], [["c"], col("c", q)]]),
            ("expr", [[["b"], ["bin", "+", col("b", q), lit("1")]], [["c"], col("c", q)]]),
            ("unqual", [[["b"], col("b")]]),
        ]
        ins = [
            ("match", [[["a"], ["b"]], [col("a", q), col("b", q)]]),
            ("lit", [[["a"], ["b"], ["c"]], [col("a", q), lit("1"), ["bin", "+", col("c", q), col("d", q)]]]),
            ("func_shift", [[["a"], ["b"], ["c"]], [col("a", q), func("coalesce", [col("b", q), lit("0")]), col("c", q)]]),
        ]
        for un, u in ups:
            yield (f"merge/{sn}/upd_{un}", ["merge", ["tgt"], "x", src, on, [u], []])
        for iname, i in ins:
            yield (f"merge/{sn}/ins_{iname}", ["merge", ["s2", "tgt"], "x", src, on, [], [i]])
        yield (f"merge/{sn}/both", ["merge", ["tgt"], "x", src, on, [ups[1][1]], [ins[0][1]]])
        # two WHEN NOT MATCHED clauses whose column lists differ in order and content: each clause pairs ITS values with ITS columns
        yield (f"merge/{sn}/two_ins", ["merge", ["tgt"], "x", src, on, [],
                                       [[[["a"], ["b"]], [col("a", q), col("b", q)]], [[["b"], ["c"], ["a"]], [col("c", q), col("a", q), col("b", q)]]]])
    froms = [
        ("none", []),
        ("one", [from_expr(table("src", "s1", "y"))]),
        ("join", [from_expr(table("src", None, "y"), [join(table("t3"), eq(col("k", "y"), col("k", "t3")))])]),
        ("comma", [from_expr(table("src", None, "y")), from_expr(table("t3", "s2"))]),
        ("derived", [from_expr(derived(select([item(col("a")), item(col("b"))], [from_expr(table("t4"))]), "y"))]),
    ]
    for fn, frm in froms:
        q = "y" if frm else None
        sets = [
            ("col", [[["b"], col("b", q) if q else col("c")]]),
            ("two", [[["b"], col("b", q) if q else col("c")], [["c"], col("d")]]),
            ("expr", [[["b"], ["bin", "+", col("b", q) if q else col("c"), lit("1")]]]),
            ("lit", [[["b"], lit("1")]]),
        ]
        for sname, st in sets:
            wh = ["bin", "=", col("a", "tgt"), col("a", q)] if q else None
            yield (f"update/{fn}/{sname}", ["update", ["tgt"], None, st, frm, wh])
        if frm:
            yield (f"update/{fn}/where_subq", ["update", ["s1", "tgt"], None, sets[0][1], frm,
                                                ["in", col("a", "tgt"), False, select([item(col("a"))], [from_expr(table("t5"))])]])
