"""C07 — lineage is invariant under layout, comments, letter case, quoting of lower-case identifiers and trailing semicolons.

Metamorphic differential, oracle = implementation vs implementation (DESIGN §2.5): for every statement/script of
  (a) the generators (`gensql`, rendered to text by the Lean driver; plus MERGE / UPDATE / COPY text templates, which the typed
      AST does not cover) and
  (b) the corpus (`corpus07`: every SQL text + dialect of the repository's tests, and the TPC-DS queries),
token-level rewrites (`rewrite07`) are applied and `LineageRunner(original)` is compared with `LineageRunner(variant)`:
source / target / intermediate tables must be equal, and the complete set of column lineage paths must be equal after
masking ONLY what the property exempts: `subquery_<hash>` names and display names of un-aliased expression columns (a
column name that is not the normalised spelling of any identifier token of the text; for generated statements without an
un-aliased expression item nothing is masked).  A variant the dialect's parser rejects is a rejection, never a failure.
For generated statements the model's single answer (table level) is compared with the implementation's as well.

Direct correspondences tie the Lean layers the theorems are about to the code: `Segments.listChildSegments` vs
`utils.list_child_segments` / `is_negligible` on real sqlfluff trees (with and without injected noise), `Ident.escape` vs
`escape_identifier_name`, the `;`-piece filter vs `helpers.split`.
"""
import collections
import json
import random
import warnings

import common
import corpus07
import gensql
import rewrite07 as R
import sqlcheck
import sqlimpl
from common import Driver, Infra, canon_json, log

QUICK_DIALECTS = ["ansi", "sparksql", "tsql", "bigquery", "mysql"]
THOROUGH_EXTRA = ["postgres", "snowflake", "hive", "redshift", "trino"]
EXPR_MASK = "<expr>"


# ------------------------------------------------------------------------------------------------ implementation side
def run_struct(sql, dialect):
    """real LineageRunner -> {"tables": {...}, "paths": [[[parent, raw_name], ...], ...]} | {"rejected"} | {"error", ...}"""
    LineageRunner, _, _, X = sqlimpl._imports()
    from sqllineage.core.models import Path
    try:
        with warnings.catch_warnings():
            warnings.simplefilter("ignore")
            lr = LineageRunner(sql, dialect=dialect)
            tables = {"source": sorted(sqlimpl.norm_name(str(t)) for t in lr.source_tables),
                      "target": sorted(sqlimpl.norm_name(str(t)) for t in lr.target_tables),
                      "intermediate": sorted(sqlimpl.norm_name(str(t)) for t in lr.intermediate_tables)}
            paths = []
            for p in lr.get_column_lineage():
                row = []
                for c in p:
                    par = c.parent
                    if par is None:
                        ps = "?" + "|".join(sorted(sqlimpl.norm_name(str(x)) for x in c.parent_candidates))
                    elif isinstance(par, Path):
                        ps = "path:" + str(par)
                    else:
                        ps = sqlimpl.norm_name(str(par))
                    row.append([ps, c.raw_name])
                paths.append(row)
        return {"tables": tables, "paths": paths}
    except X.InvalidSyntaxException as e:
        return {"rejected": str(e)[-160:]}
    except BaseException as e:  # noqa
        if isinstance(e, (KeyboardInterrupt, SystemExit)):
            raise
        return sqlimpl.classify_exception(e)


def canon(res, names, strict):
    """comparable form; `names` = normalised identifier spellings of the text (None / strict: nothing is masked)"""
    if "tables" not in res:
        return {"error": res.get("error"), "etype": res.get("etype"), "site": res.get("site")}
    paths = set()
    for p in res["paths"]:
        row = []
        for par, raw in p:
            if not strict and names is not None and raw not in names:
                raw = EXPR_MASK
            row.append(par + "." + raw)
        paths.add(tuple(row))
    return {"tables": res["tables"], "paths": sorted(paths)}


def differs(a, b):
    """which part of two canonical results differs: None | 'error' | 'tables' | 'columns'"""
    if "error" in a or "error" in b:
        return None if a == b else "error"
    if a["tables"] != b["tables"]:
        return "tables"
    if a["paths"] != b["paths"]:
        return "columns"
    return None


def kind_of(rw):
    ks = {r[0] for r in rw}
    return next(iter(ks)) if len(ks) == 1 and len(rw) == 1 else ("multi:" + "+".join(sorted(ks)))


def dedupe(rw):
    seen, out = {}, []
    for r in rw:
        k = (r[0], r[1]) if r[0] != "semi" else ("semi",)
        seen[k] = r
    for r in rw:
        k = (r[0], r[1]) if r[0] != "semi" else ("semi",)
        if seen.get(k) is r:
            out.append(r)
    return out


def in_scalar_subquery(path):
    """the token sits in a bracketed query that is (part of) a select item"""
    try:
        i = path.index("select_clause_element")
    except ValueError:
        return False
    rest = path[i + 1:]
    return "bracketed" in rest and any(t in rest[rest.index("bracketed"):] for t in ("select_statement", "set_expression"))


def finding_territory(cl, s):
    """a single rewrite that sits where one of the structural finding classes lives (gap at a dot: D40/D41/D42; inside one of
    several identical query texts: D43; function-call gap in a scalar subquery of a select item: D44).  Such rewrites are
    exercised one at a time; the larger rewrite sets are drawn from the others, so that a set is not voided — and its
    minimisation not made expensive — by a member whose effect is already known."""
    if s[0] == "semi":
        return False
    i = s[1]
    if s[0] == "gap":
        if "." in (cl.toks[i - 1][1], cl.toks[i][1]):
            return True
        pa = cl.parents[i - 1]
        if pa and pa[-1] == "function_name" and cl.toks[i][1] == "(" and in_scalar_subquery(cl.parents[i]):
            return True
    for grp in cl.dup_groups:
        for (a, b) in grp:
            if (a < i < b) if s[0] == "gap" else (a <= i < b):
                return True
    return False


def sample_variants(rng, cl, singles, n):
    """n seeded rewrite sets: single rewrites, small sets, dense sets, uniform sweeps"""
    out = []
    if not singles:
        return out
    all_singles = singles
    clean = [s for s in singles if not finding_territory(cl, s)]
    gaps = [s for s in all_singles if s[0] == "gap"]
    cases = [s for s in all_singles if s[0] == "case"]
    quotes = [s for s in all_singles if s[0] == "quote"]
    semis = [s for s in all_singles if s[0] == "semi"]
    cgaps = [s for s in clean if s[0] == "gap"]
    ccases = [s for s in clean if s[0] == "case"]
    cquotes = [s for s in clean if s[0] == "quote"]
    for i in range(n):
        r = rng.random()
        if r < 0.30 or not clean:
            # one rewrite (any position), the kind chosen first so that rare kinds are not drowned by the many gap rewrites
            pools = [p for p in (gaps, gaps, cases, quotes, semis) if p]
            out.append([rng.choice(rng.choice(pools))])
        elif r < 0.55:
            out.append(dedupe([rng.choice(clean) for _ in range(rng.randrange(2, 6))]))
        elif r < 0.85:
            p = rng.choice([0.2, 0.5, 0.9])
            rw = [s for s in clean if s[0] != "semi" and rng.random() < p / (5 if s[0] == "gap" else 3 if s[0] == "case" else 2)]
            if semis and rng.random() < 0.5:
                rw.append(rng.choice(semis))
            out.append(dedupe(rw))
        else:
            f = rng.randrange(len(R.FILLERS))
            m = rng.choice(R.CASE_MODES)
            which = rng.choice(["gaps", "kw", "ident", "quotes", "all"])
            rw = []
            if which in ("gaps", "all"):
                rw += [s for s in cgaps if s[2] == f and (cl.gaps[s[1]] != "" or rng.random() < 0.3)]
            if which in ("kw", "all"):
                rw += [s for s in ccases if s[2] == m and cl.cls[s[1]] == "kw"]
            if which in ("ident", "all"):
                rw += [s for s in ccases if s[2] == m and cl.cls[s[1]] == "ident"]
            if which == "quotes":
                rw += [s for s in cquotes if s[2] == 0]
            if which == "all" and semis:
                rw.append(rng.choice(semis))
            out.append(dedupe(rw))
    return [v for v in out if v]


def prepare(sql, dialect):
    """-> (status, base result, Classified | None)"""
    base = run_struct(sql, dialect)
    if "rejected" in base:
        return "orig-rejected", base, None
    if "error" in base:
        return "orig-error:" + str(base["error"]), base, None
    try:
        toks, gaps = R.tokenize(sql, dialect)
    except R.Untokenizable as e:
        return "untokenizable", base, None
    try:
        cl = R.classify(sql, dialect, toks, gaps)
    except Exception as e:  # noqa
        return "unclassifiable", base, None
    if cl is None:
        return "unclassifiable", base, None
    return "ok", base, cl


def pair_fails(sql, dialect, rewrites, strict, prepared=None):
    """the property evaluated on the implementation alone for one (statement, rewrite set): None (holds / rejected) or what differs"""
    status, base, cl = prepared or prepare(sql, dialect)
    if status != "ok":
        return None
    text = cl.apply(rewrites)
    if text == sql:
        return None
    v = run_struct(text, dialect)
    if "rejected" in v:
        return None
    return differs(canon(base, cl.ident_names(), strict), canon(v, cl.ident_names(rewrites), strict))


def work(job):
    """one (statement, dialect): evaluate the original once, then its variants (never raises: a harness-side problem with one input
    is reported as a status and counted, it is not a verdict about the implementation)"""
    try:
        return _work(job)
    except BaseException as e:  # noqa
        if isinstance(e, (KeyboardInterrupt, SystemExit)):
            raise
        import traceback
        return {"status": "worker-error", "error": "".join(traceback.format_exception_only(type(e), e))[-300:], "variants": 0,
                "rejected": 0, "by_kind": {}, "rej_by_kind": {}, "failures": [], "n_fail": 0, "nontrivial": False,
                "base_tables": None, "ntok": 0, "singles": 0, "singles_run": 0, "classes": {}}


def _work(job):
    sql, d = job["sql"], job["dialect"]
    strict = job.get("strict", False)
    out = {"status": "ok", "variants": 0, "rejected": 0, "by_kind": {}, "rej_by_kind": {}, "failures": [], "n_fail": 0,
           "nontrivial": False, "base_tables": None, "ntok": 0, "singles": 0, "singles_run": 0}
    status, base, cl = prepare(sql, d)
    out["status"] = status
    if "tables" in base:
        out["base_tables"] = base["tables"]
        out["nontrivial"] = bool(base["paths"] or any(base["tables"].values()))
    if status != "ok":
        return out
    rng = random.Random(job["seed"])
    singles = cl.singles(tuple(job.get("kinds") or ("gap", "case", "quote", "semi")))
    out["ntok"], out["singles"] = len(cl.toks), len(singles)
    variants = []
    if job.get("mode") == "single":
        cap = job.get("cap", 10 ** 9)
        chosen = singles if len(singles) <= cap else rng.sample(singles, cap)
        variants += [[s] for s in chosen]
        out["singles_run"] = len(chosen)
    variants += sample_variants(rng, cl, singles, job.get("n", 0))
    base_c = canon(base, cl.ident_names(), strict)
    prepared = (status, base, cl)
    seen = set()
    out["classes"] = {}
    kept = set()
    n_min = 0
    for rw in variants:
        text = cl.apply(rw)
        if text == sql or text in seen:
            continue
        seen.add(text)
        v = run_struct(text, d)
        k = kind_of(rw)
        out["variants"] += 1
        out["by_kind"][k] = out["by_kind"].get(k, 0) + 1
        if "rejected" in v:
            out["rejected"] += 1
            out["rej_by_kind"][k] = out["rej_by_kind"].get(k, 0) + 1
            continue
        what = differs(base_c, canon(v, cl.ident_names(rw), strict))
        if what:
            out["n_fail"] += 1
            # minimise the rewrite set and name its class here, in the worker (the original is already prepared)
            small = rw
            if len(rw) > 1:
                if n_min >= 3:
                    # rewrite sets are drawn outside the structural finding classes, so a failing set is news already; the first
                    # three per (statement, dialect) are minimised and classified, the rest only counted
                    out["classes"]["(not minimised)"] = out["classes"].get("(not minimised)", 0) + 1
                    continue
                n_min += 1
                small = R.ddmin(rw, lambda x: pair_fails(sql, d, x, strict, prepared) is not None)
            ctxs = [cl.context(r) for r in small]
            cname = failure_class(sql, d, strict, prepared, small, ctxs)
            key = cname or "UNCLASSIFIED"
            out["classes"][key] = out["classes"].get(key, 0) + 1
            sig = key if cname else canon_json([[{a: b for a, b in c.items() if a not in ("before", "after", "token")} for c in ctxs], what])
            if sig not in kept and len(out["failures"]) < 12:
                kept.add(sig)
                out["failures"].append({"rewrites": small, "what": what, "class": cname, "context": ctxs})
    return out


def failure_class(sql, dialect, strict, prepared, small, ctxs):
    """name of the (decidable) class a minimal failing rewrite set falls in, or None.  Every class is a statement about the
    input pair only; none consults the Lean model."""
    cl = prepared[2]
    variant = cl.apply(small)
    gaps_only = all(c["rewrite"] == "gap" for c in ctxs)
    if gaps_only and all(c["before_parent"] in ("table_reference", "object_reference") and
                         c["after_parent"] in ("table_reference", "object_reference") for c in ctxs):
        return "gap-inside-qualified-table-name"
    if gaps_only and all(c["before_parent"] == "wildcard_identifier" and c["after_parent"] == "wildcard_identifier" for c in ctxs):
        return "gap-inside-qualified-wildcard"
    if R.shape_of(variant, dialect) != cl.shape:
        # the dialect's parser builds a different tree for the variant (third party)
        if gaps_only and all(c["before"] == "." or c["after"] == "." for c in ctxs):
            return "parser-reads-gap-at-dot-differently"
        return "parser-builds-different-tree"
    mirrored = cl.mirror(small)
    if mirrored != [list(r) for r in small] and pair_fails(sql, dialect, mirrored, strict, prepared) is None:
        # the same rewrite applied to every occurrence of the repeated query text keeps the result
        return "rewrite-inside-one-of-several-identical-query-texts"
    if gaps_only and all((c["before_parent"] == "function_name" and c["after"] == "(") or "." in (c["before"], c["after"]) for c in ctxs) and \
            all(in_scalar_subquery(cl.parents[r[1]]) and in_scalar_subquery(cl.parents[r[1] - 1]) for r in small):
        # the subquery's raw text goes to the sqlparse-based analyzer, which is sensitive to these two gaps
        return "function-call-or-dot-gap-inside-scalar-subquery-of-select-item"
    return None


# ------------------------------------------------------------------------------------------------ inputs
def has_unaliased_expr(stmt):
    """some select item (at any level) is an un-aliased expression other than a column reference or star"""
    for n in gensql._walk(stmt):
        if isinstance(n, list) and n and n[0] == "select" and len(n) == 7:
            for it in n[2]:
                if it[1] is None and it[0][0] not in ("col", "star"):
                    return True
    return False


def ddl_statements():
    return [
        ("ddl/create_table", ["create_table", ["s1", "tgt"], False, [["a", "int"], ["b", "varchar(10)"]]]),
        ("ddl/create_table_ine", ["create_table", ["tgt"], True, [["a", "int"]]]),
        ("ddl/create_table_like", ["create_table_like", ["tgt"], ["s1", "t1"]]),
        ("ddl/drop_table", ["drop", False, True, ["s1", "t1"]]),
        ("ddl/drop_view", ["drop", True, False, ["t1"]]),
        ("ddl/alter_rename", ["alter_rename", ["s1", "t1"], ["s1", "t2"]]),
        ("ddl/insert_values", ["insert_values", ["s1", "tgt"], ["a", "b"], [[["lit", "1"], ["lit", "'k'"]]]]),
        ("ddl/insert_values_nocols", ["insert_values", ["tgt"], None, [[["lit", "1"]], [["lit", "2"]]]]),
    ]


# statements the typed AST does not cover (no renderer input form): written out; {x} marks nothing, these are plain texts
TEMPLATES = [
    ("merge/table", "merge into tgt using src on tgt.k = src.k when matched then update set tgt.v = src.v", None),
    ("merge/table_alias", "merge into s1.tgt t using s2.src s on t.k = s.k when matched then update set t.v = s.v "
                          "when not matched then insert (k, v) values (s.k, s.v)", None),
    ("merge/subquery_alias", "merge into tgt using (select k, max(v) as v from src group by k) as b on tgt.k = b.k "
                             "when matched then update set tgt.v = b.v when not matched then insert (k, v) values (b.k, b.v)", None),
    ("merge/subquery_bare_alias", "merge into tgt t using (select k, v from s1.src) b on t.k = b.k when matched then update set t.v = b.v", None),
    ("merge/subquery_cte", "merge into tgt t using (with base as (select id, max(value) as value from src group by id) "
                           "select id, value from base) s on t.id = s.id when matched then update set t.value = s.value", None),
    ("update/plain", "update tab1 set col1 = 1 where col2 = 2", None),
    ("update/from", "update tab1 set col1 = t2.col3 from tab2 t2 where tab1.id = t2.id", ["ansi", "tsql", "postgres", "snowflake", "redshift", "duckdb"]),
    ("update/subquery", "update tab1 set col1 = (select max(c) from tab2) where id in (select id from tab3)", None),
    ("update/join_mysql", "update tab1 a inner join tab2 b on a.id = b.id set a.col1 = b.col2", ["mysql", "mariadb"]),
    ("copy/postgres", "copy tab1 from 's3://bucket/path/file.csv'", ["postgres", "redshift"]),
    ("select_into/tsql", "select a, b into s1.tgt from s2.src x where x.c > 1", ["tsql", "postgres"]),
    ("insert_overwrite_dir", "insert overwrite directory 'hdfs://p/q' select a, b from s1.t1", ["sparksql", "hive", "databricks"]),
    ("cache", "cache table c1 select a from t1", ["sparksql", "databricks"]),
    ("swap", "alter table tab1 swap with tab2", ["snowflake"]),
    ("exchange", "alter table tab1 exchange partition (p = 1) with table tab2", ["hive", "sparksql"]),
    ("rename/mysql", "rename table tab1 to tab2, s1.tab3 to s1.tab4", ["mysql", "mariadb"]),
    ("ctas_like_clone", "create table tgt clone s1.src", ["snowflake", "bigquery"]),
    ("script/tmp", "create table tmp as select a, b from s1.t1; insert into tgt select a, b from tmp; drop table tmp", None),
    ("script/three", "insert into t2 select a from t1; insert into t3 select a from t2; insert into t4 select a from t3", None),
    ("lateral", "select x.a, e.b from t1 x lateral view explode(x.arr) e as b", ["sparksql", "hive", "databricks"]),
    ("values_alias", "insert into tgt select v.a from (values (1), (2)) as v (a)", ["ansi", "postgres", "tsql", "sparksql"]),
    ("cast_pg", "insert into tgt select a::int, b::varchar as bb from t1", ["postgres", "redshift", "snowflake", "duckdb"]),
    ("window", "insert into tgt select a, row_number() over (partition by b order by c desc) as rn from s1.t1", None),
    ("case_subq", "insert into tgt select case when a in (select a from t2) then (select max(b) from t3) else 0 end as f from t1", None),
    ("union_paren", "insert into tgt (select a from t1) union all (select a from t2)", ["ansi", "postgres", "sparksql", "mysql"]),
    ("create_view_cols", "create view v1 (p, q) as select a, b from t1", None),
    ("ctas_if_not_exists", "create table if not exists s1.tgt as select a from t1", None),
    ("cte_insert", "with c1 as (select a from t1), c2 as (select a from c1) insert into tgt select a from c2", ["ansi", "postgres", "tsql", "sparksql"]),
    ("insert_cte_after", "insert into tgt with c1 as (select a from t1) select a from c1", None),
]


def build_inputs(chk, drv):
    """-> list of {"name","sql","dialects":[..],"strict":bool,"ast":ast|None,"model":tables|None,"origin"}"""
    rng = chk.rng
    thorough = chk.tier == "thorough"
    gen = []
    shapes = list(gensql.enumerate_shapes(1))
    rng.shuffle(shapes)
    gen += shapes[: (50 if thorough else 22)]
    Rg = gensql.Rand(rng, max_depth=3 if thorough else 2)
    for i in range(60 if thorough else 30):
        gen.append((f"rand-{i}", Rg.stmt(rng.choice([1, 2, 2, 3]) if thorough else rng.choice([1, 2]))))
    for i in range(8 if thorough else 4):
        gen.append((f"spark-{i}", Rg.spark_stmt(rng.choice([1, 2]))))
    gen += ddl_statements()
    uppers = [rng.random() < 0.25 for _ in gen]
    ans_l = sqlcheck.model_eval(drv, [[s] for _, s in gen])
    ans_u = sqlcheck.model_eval(drv, [[s] for _, s in gen], upper=True)
    inputs = []
    base_d = QUICK_DIALECTS + (THOROUGH_EXTRA if thorough else [])
    for (name, s), up, al, au in zip(gen, uppers, ans_l, ans_u):
        a = au if up else al
        ds = ["sparksql", "hive", "databricks"] if name.startswith("spark-") else list(base_d)
        inputs.append({"name": name, "sql": a["sql"][0], "dialects": ds, "strict": not has_unaliased_expr(s), "ast": s,
                       "model": sqlcheck.model_tables(a), "spec": sqlcheck.spec_tables(a), "deviations": a["spec"][0]["deviations"],
                       "origin": "gensql" + ("/upper" if up else "")})
    for name, sql, ds in TEMPLATES:
        inputs.append({"name": "tmpl/" + name, "sql": sql, "dialects": ds or (list(base_d) if thorough else QUICK_DIALECTS),
                       "strict": False, "ast": None, "model": None, "origin": "template"})
    corp = corpus07.corpus()
    if not thorough:
        # seeded sample, stratified so that the rarer statement kinds and dialects are always present
        by = collections.defaultdict(list)
        for e in corp:
            head = e["sql"].strip().split(None, 1)[0].lower() if e["sql"].strip() else ""
            by[(head if head in ("merge", "update", "copy", "alter", "rename", "drop", "with", "create", "insert") else "other",
                e["dialect"] if e["dialect"] in ("ansi", "tsql", "sparksql", "bigquery", "mysql") else "x")].append(e)
        pick = []
        keys = sorted(by)
        while len(pick) < 75 and keys:
            for k in list(keys):
                if by[k]:
                    pick.append(by[k].pop(rng.randrange(len(by[k]))))
                else:
                    keys.remove(k)
                if len(pick) >= 75:
                    break
        corp = pick
    for e in corp:
        inputs.append({"name": "corpus/" + e["origin"], "sql": e["sql"], "dialects": [e["dialect"]], "strict": False, "ast": None,
                       "model": None, "origin": "tpcds" if "tpcds" in e["origin"] else "tests"})
    return inputs


def build_jobs(chk, inputs):
    rng = chk.rng
    thorough = chk.tier == "thorough"
    jobs = []
    for ii, inp in enumerate(inputs):
        ds = inp["dialects"]
        big = len(inp["sql"]) > 1500
        if thorough:
            for di, d in enumerate(ds):
                primary = di == (ii % len(ds))
                jobs.append({"input": ii, "sql": inp["sql"], "dialect": d, "strict": inp["strict"], "seed": rng.randrange(2 ** 31),
                             "mode": "single" if primary or len(ds) == 1 else "sample",
                             "cap": 24 if big else 200, "n": (4 if big else 14) if primary or len(ds) == 1 else 5})
        else:
            per = max(2, -(-30 // len(ds)))
            for d in ds:
                jobs.append({"input": ii, "sql": inp["sql"], "dialect": d, "strict": inp["strict"], "seed": rng.randrange(2 ** 31),
                             "mode": "sample", "n": 12 if big else per})
    return jobs


# ------------------------------------------------------------------------------------------------ failures
def finding_for(chk, cls_name):
    """a minimal failing rewrite set belongs to a listed finding when it falls in the finding's class"""
    for e in chk.findings:
        if e.get("status") == "finding" and cls_name is not None and e.get("class") == cls_name:
            return e["id"]
    return None


def minimise(inp, dialect, rewrites):
    prepared = prepare(inp["sql"], dialect)
    if prepared[0] != "ok":
        return rewrites, None, prepared
    fails = lambda rw: pair_fails(inp["sql"], dialect, rw, inp["strict"], prepared) is not None
    if not fails(rewrites):
        return None, None, prepared
    small = R.ddmin(rewrites, fails) if len(rewrites) > 1 else rewrites
    return small, [prepared[2].context(r) for r in small], prepared


def single_scan_fails(sql, dialect, strict, like):
    """does some single rewrite of the same kind/filler/mode as `like` break the property on `sql` outside the listed classes?
    (predicate for AST shrinking)"""
    prepared = prepare(sql, dialect)
    if prepared[0] != "ok":
        return None
    cl = prepared[2]
    for s in cl.singles((like[0],)):
        if s[2] == like[2] and pair_fails(sql, dialect, [s], strict, prepared):
            return s
    return None


def shrink_ast(drv, inp, dialect, like, cls_name):
    def still(cand_sql, cand):
        s = single_scan_fails(cand_sql, dialect, not has_unaliased_expr(cand), like)
        if s is None:
            return None
        prepared = prepare(cand_sql, dialect)
        if failure_class(cand_sql, dialect, not has_unaliased_expr(cand), prepared, [s], [prepared[2].context(s)]) != cls_name:
            return None
        return s

    def pred(cand):
        sql = sqlcheck.model_eval(drv, [[cand]])[0]["sql"][0]
        return still(sql, cand) is not None
    small = sqlcheck.shrink(inp["ast"], pred, budget=60)
    sql = sqlcheck.model_eval(drv, [[small]])[0]["sql"][0]
    s = still(sql, small)
    return (small, sql, [s]) if s else None


def report_failure(chk, drv, inp, dialect, rec, seen_classes):
    """a failing pair outside every listed finding: shrink (AST for generated statements) and record the violation"""
    small, cls_name = rec["rewrites"], rec["class"]
    sql, ast = inp["sql"], inp["ast"]
    prepared = prepare(sql, dialect)
    if prepared[0] != "ok" or pair_fails(sql, dialect, small, inp["strict"], prepared) is None:
        return   # not reproducible in this process (everything is deterministic: should not happen)
    if ast is not None and len(small) == 1 and small[0][0] != "semi" and drv is not None and len(chk.violations) < 2:
        try:
            r = shrink_ast(drv, inp, dialect, small[0], cls_name)
        except Infra:
            r = None
        if r:
            ast, sql, small = r
            prepared = prepare(sql, dialect)
    cl = prepared[2]
    ctxs = [cl.context(x) for x in small]
    variant = cl.apply(small)
    base = run_struct(sql, dialect)
    var = run_struct(variant, dialect)
    strict = (not has_unaliased_expr(ast)) if ast is not None else inp["strict"]
    what = differs(canon(base, cl.ident_names(), strict), canon(var, cl.ident_names(small), strict))
    key = canon_json([[{k: v for k, v in c.items() if k not in ("before", "after", "token")} for c in ctxs], what, cls_name])
    if key in seen_classes:
        return
    seen_classes.add(key)
    chk.violation(
        f"a token-level rewrite the property allows changes the reported lineage ({what}) under dialect {dialect}"
        + (f" [class {cls_name}]" if cls_name else ""),
        {"kind": "c07-pair", "sql": sql, "dialect": dialect, "rewrites": small, "strict": strict, "variant": variant,
         "context": ctxs, "class": cls_name, "original_result": canon(base, cl.ident_names(), strict),
         "variant_result": canon(var, cl.ident_names(small), strict), "ast": ast, "origin": inp["origin"], "name": inp["name"]})


# ------------------------------------------------------------------------------------------------ direct correspondences
def seg_json(seg, noise=None, rng=None, depth=0):
    """real sqlfluff segment -> JSON tree of the Lean `Seg` model"""
    return {"t": seg.type, "r": seg.raw if not seg.segments else "", "w": bool(seg.is_whitespace), "c": bool(seg.is_comment),
            "m": bool(seg.is_meta), "k": [seg_json(s) for s in seg.segments]}


NOISY_TSQL = [
    "select x from s . t", "select x from s. t", "select x from s/*c;*/.t", "insert into s . t select * from a. b x join c -- c;\n . d . e y on x.i = y.i",
    "select a into s1.\ttgt from [s2] . [src] x", "select x from s.t",
]


def direct_segments(chk, drv, inputs):
    """`Segments.listChildSegments` (both values of check_bracketed) vs `utils.list_child_segments`, `isNegligible` vs
    `is_negligible` on every child, `tableParts` vs `SqlFluffTable.of` — on the nodes of real sqlfluff trees"""
    from sqlfluff.core import Linter
    from sqllineage.core.parser.sqlfluff import utils as U
    from sqllineage.core.parser.sqlfluff.models import SqlFluffTable
    from sqllineage.utils.helpers import escape_identifier_name as esc
    reqs, expect = [], []
    n_trees = 0
    todo = [(inp["sql"], inp["dialects"][0]) for inp in inputs] + [(q, "tsql") for q in NOISY_TSQL]
    todo = todo[-len(NOISY_TSQL):] + todo[:-len(NOISY_TSQL)]
    limit = 6000 if chk.tier == "thorough" else 1500
    for sql, d in todo:
        if len(reqs) > limit:
            break
        try:
            p = Linter(dialect=d).parse_string(sql)
        except Exception:  # noqa
            continue
        if p.tree is None or p.violations:
            continue
        n_trees += 1
        stack = [p.tree]
        while stack:
            seg = stack.pop()
            if not seg.segments:
                continue
            stack.extend(seg.segments)
            table = None
            if seg.type in ("table_reference", "object_reference"):
                try:
                    table = str(SqlFluffTable.of(seg))
                except Exception:  # noqa
                    table = None
            for cb in (True, False):
                try:
                    res = U.list_child_segments(seg, cb)
                except Exception:  # noqa
                    continue
                reqs.append({"cmd": "seglist", "seg": seg_json(seg), "check_bracketed": cb})
                expect.append(([[s.type, s.raw] for s in res], [bool(U.is_negligible(s)) for s in seg.segments], table if cb else None))
    bad = 0
    tables = pre_repair = 0
    if reqs:
        ans = drv.ask(reqs)
        for rq, a, (e, neg, table) in zip(reqs, ans, expect):
            chk.count("seg:" + canon_json(rq), bool(e))
            if "error" in a:
                raise Infra("seglist: " + a["error"])
            ok = a["out"] == e and a["negligible"] == neg
            if table is not None:
                tables += 1
                def printed(parts):
                    sch = "".join(esc(x) for x in parts[0]) if parts[0] else "<default>"
                    return sch + "." + esc(parts[1])
                if table != printed(a["table_parts"]):
                    if table == printed(a["table_parts_raw"]):
                        pre_repair += 1       # the code before the repair D40 (the model carries both)
                    else:
                        ok = False
            if not ok:
                bad += 1
                if len(chk.stale) < 10:
                    chk.stale.append({"kind": "segments", "request": rq, "impl": [e, neg, table], "model": a})
    return {"trees": n_trees, "nodes_compared": len(reqs), "table_references": tables, "table_names_as_before_repair_D40": pre_repair,
            "disagreements": bad}


def direct_escape(chk, drv):
    """`Ident.escape` vs `escape_identifier_name` on a bounded-exhaustive alphabet"""
    import itertools
    from sqllineage.utils.helpers import escape_identifier_name
    alpha = ["a", "B", "_", "1", '"', "`", "'", "[", "]", ".", " "]
    names = [""]
    for n in range(1, 5 if chk.tier == "thorough" else 4):
        names += ["".join(t) for t in itertools.product(alpha, repeat=n)]
    ans = drv.ask([{"cmd": "identbatch", "names": names}])[0]
    if "error" in ans:
        raise Infra("identbatch: " + ans["error"])
    bad = 0
    for nm, m in zip(names, ans["out"]):
        e = escape_identifier_name(nm)
        chk.count("esc:" + nm, nm != e)
        if e != m:
            bad += 1
            if len(chk.stale) < 10:
                chk.stale.append({"kind": "escape", "name": nm, "impl": e, "model": m})
    return {"names": len(names), "disagreements": bad}


def direct_split(chk, drv):
    """`Segments.splitModel` (sqlparse's level-0 statement splitter + the piece filter of `helpers.split`) vs the real
    `helpers.split`: every script of up to n tokens over statements, semicolons, blanks, line breaks and comments"""
    import itertools
    from sqllineage.utils.helpers import split
    parts = [("code", "select 1"), ("semi", ";"), ("blank", " "), ("newline", "\n"), ("block_comment", "/*c;*/"),
             ("line_comment", "-- c;\n"), ("code", "insert into t select a from s")]
    scripts = []
    for n in range(1, 7 if chk.tier == "thorough" else 6):
        scripts += [list(t) for t in itertools.product(range(len(parts)), repeat=n)]
    # two statements must not be glued into one word
    scripts = [s for s in scripts if not any(parts[a][0] == "code" and parts[b][0] == "code" for a, b in zip(s, s[1:]))]
    reqs = [{"cmd": "splitkeep", "tokens": [list(parts[i]) for i in s]} for s in scripts]
    ans = drv.ask(reqs)
    bad = 0
    for s, a in zip(scripts, ans):
        if "error" in a:
            raise Infra("splitkeep: " + a["error"])
        text = "".join(parts[i][1] for i in s)
        impl = [x.strip() for x in split(text.strip())]
        model = [x.strip() for x in a["out"]]
        chk.count("split:" + text, len(impl) > 0)
        if impl != model:
            bad += 1
            if len(chk.stale) < 10:
                chk.stale.append({"kind": "split", "text": text, "impl": impl, "model": model})
    return {"scripts": len(scripts), "disagreements": bad}


# ------------------------------------------------------------------------------------------------ the check
def run(chk):
    drv = None
    if chk.lean.driver_ok:
        drv = Driver()
    else:
        chk.stale.append({"kind": "driver", "why": "model driver does not build"})
        return chk.finish(level="proof", rule="driver unavailable")
    inputs = build_inputs(chk, drv)
    jobs = build_jobs(chk, inputs)
    log(f"[c07] {len(inputs)} statements/scripts, {len(jobs)} (statement, dialect) jobs")
    # known findings first: the stored witness must still fail as recorded
    for e in chk.findings:
        if e.get("status") == "finding" and e.get("witness", {}).get("kind") == "c07-pair":
            w = e["witness"]
            if pair_fails(w["sql"], w["dialect"], w["rewrites"], w.get("strict", False)):
                chk.known(e["id"])
            else:
                chk.stale.append({"kind": "known-finding-no-longer-fails", "id": e["id"], "witness": w})
    # longest first, so that the large TPC-DS scripts do not end up as stragglers
    jobs.sort(key=lambda j: -len(j["sql"]) * (j.get("cap", 0) if j.get("mode") == "single" else 0) - len(j["sql"]) * j.get("n", 1))
    results = []
    for i, r in enumerate(sqlimpl.pool().imap(work, jobs, chunksize=1)):
        results.append(r)
        if (i + 1) % 250 == 0:
            log(f"[c07] {i + 1}/{len(jobs)} jobs")
    st = sqlcheck.Stats()
    by_kind, rej_kind = collections.Counter(), collections.Counter()
    singles_total = singles_run = 0
    fails = []
    class_counts = collections.Counter()
    worker_errors = 0
    for job, r in zip(jobs, results):
        inp = inputs[job["input"]]
        d = job["dialect"]
        st.c["status:" + r["status"].split(":")[0]] += 1
        if r["status"] == "orig-rejected":
            st.reject[d] += 1
            continue
        if r["status"] == "worker-error":
            log(f"[c07] harness-side error on {inp['name']} ({d}): {r.get('error')}")
            worker_errors += 1
        if r["status"] != "ok":
            continue
        st.accept[d] += 1
        st.c["origin:" + inp["origin"].split("/")[0]] += 1
        # one case per distinct text handed to the analyser: the original and each (distinct) variant of it
        for vi in range(r["variants"] + 1):
            chk.count((job["input"], d, vi), r["nontrivial"])
        for k, v in r["by_kind"].items():
            by_kind[k.split(":")[0]] += v
        for k, v in r["rej_by_kind"].items():
            rej_kind[k.split(":")[0]] += v
        singles_total += r["singles"]; singles_run += r["singles_run"]
        if inp["model"] is not None and r["base_tables"] is not None and "error" not in inp["model"]:
            if r["base_tables"] == inp["model"]:
                st.c["impl(original)=model"] += 1
            elif inp["deviations"] or r["base_tables"] == inp["spec"]:
                # outside the fragment the walk model tracks known deviations that may since have been repaired (C01's business)
                st.c["impl(original)!=model (outside Frag01 or impl=spec: left to C01)"] += 1
            else:
                st.c["impl(original)!=model"] += 1
                if len(chk.stale) < 10:
                    chk.stale.append({"kind": "sql-tables", "sql": inp["sql"], "dialect": d, "impl": r["base_tables"],
                                      "model": inp["model"], "spec": inp["spec"]})
        if r["n_fail"]:
            st.c["pairs-failing"] += r["n_fail"]
            for cname, n in r["classes"].items():
                class_counts[cname] += n
            for f in r["failures"]:
                fails.append((inp, d, f))
        elif st.c["status:ok"] % 60 == 1:
            chk.sample({"sql": inp["sql"][:300], "dialect": d, "variants_compared": r["variants"] - r["rejected"],
                        "rejected": r["rejected"], "origin": inp["origin"]})
    seen_classes = set()
    for cname, n in sorted(class_counts.items()):
        fid = finding_for(chk, cname)
        if fid:
            chk.known(fid, n)
    # smallest witnesses first (generated statements can be shrunk further, corpus scripts cannot)
    fails.sort(key=lambda x: (len(x[0]["sql"]), x[0]["ast"] is None))
    for inp, d, f in fails:
        if finding_for(chk, f["class"]):
            continue
        report_failure(chk, drv, inp, d, f, seen_classes)
        if len(chk.violations) >= 5:
            break
    # (the model's single answer: a variant cannot differ from the original without the differential noticing, so the model is
    # compared on the original rendering only, above)
    if worker_errors > max(3, len(jobs) // 50):
        raise Infra(f"{worker_errors} of {len(jobs)} jobs failed inside the harness")
    seg = direct_segments(chk, drv, inputs)
    if seg["table_names_as_before_repair_D40"]:
        # `SqlFluffTable.of` still counts positions over the raw child list on this tree
        if chk.finding("D40"):
            chk.known("D40", seg["table_names_as_before_repair_D40"])
        else:
            chk.stale.append({"kind": "segments", "why": "SqlFluffTable.of reads table names positionally over raw segments "
                              "(the model describes the repaired code D40)", "cases": seg["table_names_as_before_repair_D40"]})
    esc = direct_escape(chk, drv)
    spl = direct_split(chk, drv)
    sqlimpl.close_pool()
    chk.coverage.update({
        "statements": len(inputs), "jobs": len(jobs), "dialects": sorted({j["dialect"] for j in jobs}),
        "variants_by_rewrite_kind": dict(by_kind), "rejected_by_rewrite_kind": dict(rej_kind),
        "single_rewrites_eligible": singles_total, "single_rewrites_run": singles_run,
        "distribution": st.as_dict(), "failing_pairs_by_class": dict(class_counts),
        "direct": {"segments": seg, "escape": esc, "split": spl},
        "exhaustive": False})
    chk.assumptions += [
        "sqlfluff's lexer and parser are not modelled: which rewrites are eligible is decided with the dialect's own parser, and a "
        "variant it rejects is a rejection",
        "the theorems cover the normalisation (escape), filtering (is_negligible / list_child_segments), keyword matching and "
        "`;`-piece layers; everything between them and the result is covered by the metamorphic differential only",
        "identifier case changes are applied per token (not consistently), metadata providers are not used"]
    return chk.finish(
        level="proof",
        rule="statements: seeded sample of gensql.enumerate_shapes + gensql.Rand (+ Hive/Spark inserts, DDL) rendered by the Lean driver "
             "(25% with upper-case keywords), MERGE/UPDATE/COPY/script text templates, and the harvested corpus (tests + TPC-DS; "
             "quick: a stratified seeded sample of 75, thorough: all). variants per (statement, dialect): quick ~30 seeded rewrite sets "
             "spread over the dialects (single rewrites, small sets, dense sets, uniform sweeps); thorough: every single rewrite at every "
             "eligible token boundary / word token for the statement's primary dialect (capped at 200, 24 for scripts > 1500 chars: "
             "then a seeded sample) + seeded combinations on every dialect. evaluations = LineageRunner runs (originals + variants) plus "
             "direct-correspondence cases; non-trivial = the original reports at least one table or column path; distinct by (SQL text, dialect)",
        trusted_base=["Lean 4.33 kernel", "axioms: propext, Classical.choice, Quot.sound", "tools/translate.py (Gen/Const.lean, Gen/Dispatch.lean)",
                      "harness/c07.py + rewrite07.py + corpus07.py (tokenizer, eligibility, masking, comparison)"])


def replay(chk, obj):
    r = obj["replay"]
    if r.get("kind") == "c07-pair":
        prepared = prepare(r["sql"], r["dialect"])
        if prepared[0] != "ok":
            print("original no longer analysable:", prepared[0])
            return 0
        cl = prepared[2]
        variant = cl.apply(r["rewrites"])
        base, var = prepared[1], run_struct(variant, r["dialect"])
        what = None if "rejected" in var else differs(canon(base, cl.ident_names(), r.get("strict", False)),
                                                      canon(var, cl.ident_names(r["rewrites"]), r.get("strict", False)))
        print(json.dumps({"original": r["sql"], "variant": variant, "dialect": r["dialect"],
                          "original_result": canon(base, cl.ident_names(), r.get("strict", False)),
                          "variant_result": var if "rejected" in var else canon(var, cl.ident_names(r["rewrites"]), r.get("strict", False)),
                          "differs": what}, indent=1))
        return 1 if what else 0
    print("replay file names no concrete input:", json.dumps(r)[:600])
    return 1
