"""Run the REAL analyser on SQL text and canonicalise its answers the way lean/SqlLineage/IO/Sql.lean prints the model's.

`run_case(case)` is process-pool friendly: case = dict(sql=str | [str], dialect=str, metadata=dict|None, default_schema=str|None,
silent=bool, want=('tables','columns','cyto')).  Returns {"result": {...}} | {"error": kind, "etype":..., "site":...} |
{"rejected": msg} (the dialect's parser does not accept the text: a rejection, never a failure).
"""
import os
import re
import sys
import traceback
import warnings

import common  # noqa: F401  (repo on sys.path)

_SUBQ = re.compile(r"subquery_-?\d+")


def norm_name(s):
    return _SUBQ.sub("subquery_?", s)


def _imports():
    from sqllineage.runner import LineageRunner
    from sqllineage.core.metadata.dummy import DummyMetaDataProvider
    from sqllineage.config import SQLLineageConfig
    from sqllineage import exceptions as X
    return LineageRunner, DummyMetaDataProvider, SQLLineageConfig, X


def classify_exception(e):
    """library exception -> small enum; anything else -> internal + innermost sqllineage/sqlfluff frame (function name)"""
    _, _, _, X = _imports()
    if isinstance(e, X.InvalidSyntaxException):
        return {"error": "invalidSyntax"}
    if isinstance(e, X.UnsupportedStatementException):
        return {"error": "unsupported"}
    if isinstance(e, X.ConfigException):
        return {"error": "config"}
    if isinstance(e, X.MetaDataProviderException):
        return {"error": "provider"}
    if isinstance(e, X.SQLLineageException):
        return {"error": "lineage"}
    site = None
    for fr in reversed(traceback.extract_tb(e.__traceback__)):
        fn = fr.filename.replace("\\", "/")
        if "/sqllineage/" in fn or "/sqlfluff/" in fn or "/networkx/" in fn or "/sqlparse/" in fn:
            site = f"{os.path.basename(fn)}:{fr.name}"
            break
    return {"error": "internal", "etype": type(e).__name__, "site": site, "msg": str(e)[:200]}


def result_of(lr, want=("tables", "columns", "cyto")):
    from sqllineage.core.models import Column
    out = {}
    out["source"] = sorted(norm_name(str(t)) for t in lr.source_tables)
    out["target"] = sorted(norm_name(str(t)) for t in lr.target_tables)
    out["intermediate"] = sorted(norm_name(str(t)) for t in lr.intermediate_tables)
    if "columns" in want:
        out["paths"] = sorted([norm_name(str(c)) for c in p] for p in lr.get_column_lineage())
    if "cyto" in want:
        ct = lr.to_cytoscape()
        out["cyto_table"] = {
            "nodes": sorted(norm_name(n["data"]["id"]) for n in ct if "source" not in n["data"]),
            "edges": sorted([norm_name(n["data"]["source"]), norm_name(n["data"]["target"])] for n in ct if "source" in n["data"]),
        }
        from sqllineage.utils.constant import LineageLevel
        cc = lr.to_cytoscape(LineageLevel.COLUMN)
        nodes = [n["data"] for n in cc if "source" not in n["data"]]
        out["cyto_column"] = {
            "nodes": sorted(([norm_name(n["id"]), norm_name(n["parent"]),
                              sorted([norm_name(p["name"]), p["type"]] for p in n["parent_candidates"])]
                             for n in nodes if "parent" in n), key=repr),
            "parents": sorted([norm_name(n["id"]), n["type"]] for n in nodes if "parent" not in n),
            "edges": sorted([norm_name(n["data"]["source"]), norm_name(n["data"]["target"])] for n in cc if "source" in n["data"]),
            "ids": [norm_name(n["id"]) for n in nodes],
        }
    return out


def canon_model_result(r):
    """bring the model's `result` object to the same canonical form"""
    out = {"source": sorted(r["source"]), "target": sorted(r["target"]), "intermediate": sorted(r["intermediate"])}
    if "paths" in r:
        out["paths"] = sorted(r["paths"])
    if "cyto_table" in r:
        out["cyto_table"] = {"nodes": sorted(r["cyto_table"]["nodes"]), "edges": sorted(r["cyto_table"]["edges"])}
    if "cyto_column" in r:
        cc = r["cyto_column"]
        out["cyto_column"] = {
            "nodes": sorted(([n["id"], n["parent"], sorted(n["parent_candidates"])] for n in cc["nodes"]), key=repr),
            "parents": sorted(cc["parents"]),
            "edges": sorted(cc["edges"]),
        }
    return out


def run_case(case):
    LineageRunner, DummyMetaDataProvider, SQLLineageConfig, X = _imports()
    sql = case["sql"]
    if isinstance(sql, list):
        sql = ";\n".join(sql)
    dialect = case.get("dialect", "ansi")
    md = case.get("metadata")
    want = case.get("want", ("tables", "columns", "cyto"))
    kwargs = {}
    if md is not None:
        kwargs["metadata_provider"] = DummyMetaDataProvider(md)
    if case.get("silent"):
        kwargs["silent_mode"] = True
    cfg = {}
    if case.get("default_schema"):
        cfg["DEFAULT_SCHEMA"] = case["default_schema"]
    try:
        with warnings.catch_warnings():
            warnings.simplefilter("ignore")
            if cfg:
                with SQLLineageConfig(**cfg):
                    lr = LineageRunner(sql, dialect=dialect, **kwargs)
                    res = result_of(lr, want)
            else:
                lr = LineageRunner(sql, dialect=dialect, **kwargs)
                res = result_of(lr, want)
        out = {"result": res}
        if case.get("stmts"):
            out["stmts"] = [{"read": sorted(norm_name(str(t)) for t in h.read), "write": sorted(norm_name(str(t)) for t in h.write),
                             "drop": sorted(str(t) for t in h.drop),
                             "rename": sorted([str(a), str(b)] for a, b in h.rename)} for h in lr._stmt_holders]
        return out
    except X.InvalidSyntaxException as e:
        return {"rejected": str(e)[-200:]}
    except BaseException as e:  # noqa
        if isinstance(e, (KeyboardInterrupt, SystemExit)):
            raise
        return classify_exception(e)


_POOL = None


def pool(n=None):
    global _POOL
    if _POOL is None:
        import multiprocessing as mp
        _POOL = mp.Pool(n or min(16, os.cpu_count() or 4))
    return _POOL


def run_cases(cases, chunksize=8):
    if len(cases) < 8:
        return [run_case(c) for c in cases]
    return pool().map(run_case, cases, chunksize=chunksize)


def close_pool():
    global _POOL
    if _POOL is not None:
        _POOL.close(); _POOL.join(); _POOL = None
