"""C01 — single-statement table lineage is exact.

Three-way per generated statement and dialect: implementation (real LineageRunner on the SQL text Lean rendered), Lean model
(`Walk.analyze` + assembler) and Lean specification (`Spec.reads/writes`), plus the syntactic deviation classes
(`Spec.deviations`, the complement of `Frag01`).  Classification per DESIGN §2.5.
"""
import collections
import json
import random

import gensql
import sqlcheck
import sqlimpl
from common import Check, Driver, Infra, canon_json, log

NOOP_SAMPLES = {
    # statement type (must be in the generated NoopExtractor table) -> [(dialect, sql)]
    "delete_statement": [("ansi", "delete from t1 where a = 1"), ("sparksql", "delete from s1.t1")],
    "truncate_table": [("ansi", "truncate table t1")],
    "use_statement": [("ansi", "use db1"), ("sparksql", "use db1")],
    "show_statement": [("sparksql", "show tables"), ("mysql", "show tables")],
    "describe_statement": [("ansi", "describe t1"), ("sparksql", "describe table t1")],
    "set_statement": [("ansi", "set x = 1"), ("sparksql", "set a.b = c")],
    "analyze_statement": [("sparksql", "analyze table t1 compute statistics")],
    "refresh_statement": [("sparksql", "refresh table t1")],
    "cache_table": [("sparksql", "cache table t1")],
    "uncache_table": [("sparksql", "uncache table t1")],
    "create_function_statement": [("ansi", "create function f(a int) returns int language sql as 'select 1'")],
    "drop_function_statement": [("ansi", "drop function f")],
    "declare_segment": [("tsql", "declare @a int")],
    "add_jar_statement": [("sparksql", "add jar '/tmp/x.jar'")],
}


NOOP_STRICT = {"delete_statement", "truncate_table", "show_statement", "use_statement"}   # named by the property


def gen_cases(chk):
    cases = []
    depth = 2 if chk.tier == "thorough" else 1
    for name, s in gensql.enumerate_shapes(depth):
        cases.append((name, s))
    for name, s in gensql.enumerate_dml():
        cases.append((name, s))
    n_rand = 4000 if chk.tier == "thorough" else 250
    for prof, allow, share in (
        ("frag", {"subq_item": False, "subq_having": False, "subq_on": False, "mixed_comma_join": False}, 0.6),
        ("any", {}, 0.4),
    ):
        R = gensql.Rand(chk.rng, max_depth=3 if chk.tier == "thorough" else 2, allow=allow)
        for i in range(int(n_rand * share)):
            d = chk.rng.choice([1, 2, 2, 3, 4]) if chk.tier == "thorough" else chk.rng.choice([1, 2])
            cases.append((f"rand-{prof}-{i}", R.stmt(d)))
    return cases


def evaluate(drv, stmt, dialects):
    ans = sqlcheck.model_eval(drv, [[stmt]])[0]
    sql = ans["sql"][0]
    impl = sqlimpl.run_cases([{"sql": sql, "dialect": d, "want": ("tables",)} for d in dialects])
    return ans, impl


def property_fails(drv, stmt, dialect):
    """oracle for shrinking / replay: implementation vs SPEC (model not consulted)"""
    ans = sqlcheck.model_eval(drv, [[stmt]])[0]
    i = sqlimpl.run_case({"sql": ans["sql"][0], "dialect": dialect, "want": ("tables",)})
    it = sqlcheck.impl_tables(i)
    if it is None:
        return False
    return it != sqlcheck.spec_tables(ans)


# C09 classes (decidable predicates of `Spec/Agreement.lean`) under which ONE sqlfluff dialect reads core SQL into a tree that blinds
# an extractor: class -> dialects.  Seen by C01 when its thorough tier runs every dialect; listed in known_findings.json under C01.
DIALECT_CLASSES = {"K1": ["clickhouse"]}


def dialect_classes(drv, stmt, cache):
    k = canon_json(stmt)
    if k not in cache:
        out = drv.ask1({"cmd": "shape", "stmts": [stmt]})["out"][0]
        cache[k] = list(out["classes"]) if out else []
    return cache[k]


def run(chk):
    if not chk.lean.driver_ok:
        chk.stale.append({"kind": "driver", "why": "model driver does not build"})
        return chk.finish(level="proof", rule="driver unavailable")
    drv = Driver()
    dialects = sqlcheck.all_dialects() if chk.tier == "thorough" else list(sqlcheck.QUICK_DIALECTS)
    dialects = [d for d in dialects] + ["non-validating"]
    cases = gen_cases(chk)
    answers = sqlcheck.model_eval(drv, [[s] for _, s in cases])
    jobs = []
    for ci, ((name, s), a) in enumerate(zip(cases, answers)):
        for d in dialects:
            jobs.append((ci, d))
    impl = sqlimpl.run_cases([{"sql": answers[ci]["sql"][0], "dialect": d, "want": ("tables",)} for ci, d in jobs], chunksize=16)
    st = sqlcheck.Stats()
    listed = {e["id"] for e in chk.findings if e.get("status") == "finding"}
    per_class = collections.Counter()
    class_cache = {}
    first_fail = None
    for (ci, d), i in zip(jobs, impl):
        name, s = cases[ci]
        a = answers[ci]
        it = sqlcheck.impl_tables(i)
        if it is None:
            st.reject[d] += 1
            continue
        st.accept[d] += 1
        mt = sqlcheck.model_tables(a)
        sp = sqlcheck.spec_tables(a)
        devs = a["spec"][0]["deviations"]
        kind = name.split("/")[0].split("-")[0]
        nontrivial = bool(sp["source"] or sp["target"])
        chk.count(canon_json([a["sql"][0], d]), nontrivial)
        st.c["kind:" + kind] += 1
        if d == "non-validating":
            # legacy analyzer: compared by C09; here only counted
            st.c["non-validating:" + ("=model" if it == mt else "!=model")] += 1
            continue
        if it == mt:
            if mt == sp:
                st.c["agree"] += 1
                if st.c["agree"] % 400 == 1:
                    chk.sample({"sql": a["sql"][0], "dialect": d, "tables": it})
            else:
                if not devs:
                    st.c["VIOLATION:frag"] += 1
                    if first_fail is None:
                        first_fail = (s, d, "statement inside Frag01 but implementation (= model) differs from the specification")
                else:
                    for c in devs:
                        per_class[c] += 1
                    unl = [c for c in devs if c not in listed]
                    if unl:
                        st.c["VIOLATION:unlisted-class"] += 1
                        if first_fail is None:
                            first_fail = (s, d, f"deviation class {unl} is not a listed finding")
                    else:
                        st.c["known-deviation"] += 1
        else:
            if it == sp:
                st.c["stale(impl=spec)"] += 1
                if len(chk.stale) < 20:
                    chk.stale.append({"kind": "sql", "sql": a["sql"][0], "dialect": d, "impl": it, "model": mt, "ast": s})
            else:
                # a dialect whose tree shape blinds an extractor (C09's classes, `Spec/Agreement.lean`): listed for this dialect?
                cls = [c for c in dialect_classes(drv, s, class_cache) if d in DIALECT_CLASSES.get(c, []) and c in listed]
                if cls:
                    for c in cls:
                        per_class[c] += 1
                    st.c["known-dialect-class"] += 1
                    continue
                st.c["impl!=model,impl!=spec"] += 1
                if first_fail is None:
                    first_fail = (s, d, "implementation differs from model AND from the specification")
    # known findings
    for c, n in per_class.items():
        if c in listed:
            chk.known(c, n)
    # every listed finding: replay its stored witness on the implementation against the recorded SPECIFICATION answer
    # (model not consulted).  Still deviating -> KNOWN-FINDING; no longer deviating -> the code changed there: the model
    # still carries the deviation, so the correspondence is stale.
    for e in chk.findings:
        w = e.get("witness", {})
        if e.get("status") != "finding" or w.get("kind") != "sql-tables":
            continue
        it = sqlcheck.impl_tables(sqlimpl.run_case({"sql": w["sql"], "dialect": w["dialect"], "want": ("tables",)}))
        if isinstance(it, dict) and "source" in it and it["source"] != sorted(w["spec_source"]):
            if e["id"] not in chk.known_hits:
                chk.known(e["id"])
        else:
            chk.stale.append({"kind": "finding-no-longer-reproduces", "id": e["id"], "witness": w, "impl": it})
    if first_fail is not None:
        s, d, why = first_fail
        small = sqlcheck.shrink(s, lambda c: property_fails(drv, c, d))
        a, im = evaluate(drv, small, [d])
        devs = a["spec"][0]["deviations"]
        it = sqlcheck.impl_tables(im[0])
        mt = sqlcheck.model_tables(a)
        # after shrinking the witness may have become an instance of a listed finding: then report the un-shrunk one
        if devs and all(c in listed for c in devs) and it == mt:
            a, im = evaluate(drv, s, [d]); small = s
        chk.violation("table lineage of a statement is not exact: " + why,
                      {"kind": "sql-tables", "sql": a["sql"][0], "dialect": d, "ast": small,
                       "impl": sqlcheck.impl_tables(im[0]), "spec": sqlcheck.spec_tables(a), "model": sqlcheck.model_tables(a),
                       "deviation_classes": a["spec"][0]["deviations"]})
    # the text family (constructs outside the typed AST: join spellings, UPDATE / MERGE / COPY spellings, ...) under EVERY installed
    # sqlfluff dialect in both tiers, against the tables the property's reading of core SQL gives them (written down by hand in
    # c09_texts.EXPECTED_TABLES; the model is not consulted)
    import c09_texts
    text_listed = {(tp[0], tp[1]): e["id"] for e in chk.findings if e.get("status") == "finding" for tp in e.get("text_pairs", [])}
    tjobs = [(tid, sql, d) for tid, sql in c09_texts.TEXTS if tid in c09_texts.EXPECTED_TABLES for d in sqlcheck.all_dialects()]
    tres = sqlimpl.run_cases([{"sql": sql, "dialect": d, "want": ("tables",)} for _, sql, d in tjobs], chunksize=16)
    text_reported = 0
    for (tid, sql, d), r in zip(tjobs, tres):
        it = sqlcheck.impl_tables(r)
        if it is None:
            continue
        es, et = c09_texts.EXPECTED_TABLES[tid]
        exp = {"source": sorted(x if x.startswith("/") else "<default>." + x for x in es), "target": sorted("<default>." + x for x in et),
               "intermediate": []}
        chk.count(canon_json(["text", tid, d]), True)
        st.c["text-family"] += 1
        if it == exp:
            continue
        fid = text_listed.get((tid, d))
        if fid is not None:
            chk.known(fid)
        elif text_reported < 3:
            text_reported += 1
            chk.violation(f"table lineage of a core statement (text family `{tid}`) under dialect {d} is not exact",
                          {"kind": "sql-tables", "sql": sql, "dialect": d, "impl": it, "spec": exp, "text_id": tid})
    # statements that move no data (over the generated NoopExtractor table)
    noop_checked = 0
    types = drv.ask1({"cmd": "dispatch"})
    for ty in types["noop"]:
        for d, sql in NOOP_SAMPLES.get(ty, []):
            i = sqlimpl.run_case({"sql": sql, "dialect": d, "want": ("tables",)})
            if "rejected" in i:
                continue
            noop_checked += 1
            chk.count("noop:" + sql + d, False)
            it = sqlcheck.impl_tables(i)
            if it.get("error") == "unsupported" and ty not in NOOP_STRICT:
                # the sample text is not of this statement type under this dialect (types are dialect specific); only the
                # kinds the property names must be recognised
                continue
            if it != {"source": [], "target": [], "intermediate": []}:
                chk.violation(f"a statement that moves no data ({ty}) reports lineage",
                              {"kind": "sql-text", "sql": sql, "dialect": d, "impl": it,
                               "spec": {"source": [], "target": [], "intermediate": []}})
    sqlimpl.close_pool()
    chk.coverage.update({"statements": len(cases), "dialects": dialects, "distribution": st.as_dict(),
                         "deviation_classes_seen": dict(per_class), "noop_samples_checked": noop_checked,
                         "exhaustive": False})
    chk.assumptions += ["text -> tree (sqlfluff grammars) is not modelled: it is covered by running the real parser on the rendered text",
                        "the typed AST covers query / INSERT..SELECT / CTAS / CREATE VIEW / CREATE TABLE / UPDATE / MERGE / DROP / RENAME / no-op "
                        "statements; COPY (dialect specific) and SELECT INTO are exercised by the corpus-based checks only"]
    return chk.finish(
        level="proof",
        rule="bounded-exhaustive enumerate_shapes(depth 1 quick / 2 thorough): statement kind x FROM shape x subquery position x nesting, "
             "+ seeded random statements (depth<=2 quick / <=4 thorough; 60% inside Frag01), each rendered by Lean and run through the real "
             "LineageRunner under the listed dialects. non-trivial = the specification expects at least one source or target table; "
             "distinct by (SQL text, dialect)",
        trusted_base=["Lean 4.33 kernel", "axioms: propext, Classical.choice, Quot.sound", "tools/translate.py (Gen/Dispatch.lean)",
                      "harness/c01.py + sqlimpl.py (canonicalisation, classification)"])


def replay(chk, obj):
    r = obj["replay"]
    if r.get("kind") == "sql-tables" and "ast" not in r:
        i = sqlimpl.run_case({"sql": r["sql"], "dialect": r["dialect"], "want": ("tables",)})
        it = sqlcheck.impl_tables(i)
        print(json.dumps({"sql": r["sql"], "impl": it, "spec": r["spec"]}, indent=1))
        return 1 if it is not None and it != r["spec"] else 0
    if r.get("kind") == "sql-tables":
        drv = Driver()
        a = sqlcheck.model_eval(drv, [[r["ast"]]])[0]
        i = sqlimpl.run_case({"sql": a["sql"][0], "dialect": r["dialect"], "want": ("tables",)})
        it = sqlcheck.impl_tables(i)
        sp = sqlcheck.spec_tables(a)
        print(json.dumps({"sql": a["sql"][0], "impl": it, "spec": sp}, indent=1))
        return 1 if it is not None and it != sp else 0
    if r.get("kind") == "sql-text":
        i = sqlimpl.run_case({"sql": r["sql"], "dialect": r["dialect"], "want": ("tables",)})
        it = sqlcheck.impl_tables(i)
        print(json.dumps({"impl": it, "spec": r["spec"]}, indent=1))
        return 1 if it != r["spec"] else 0
    print("replay file names no concrete input:", json.dumps(r)[:600])
    return 1
