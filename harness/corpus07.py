"""Corpus for C07: every (SQL text, dialect) the repository's own tests hand to the analyser, harvested from the *source text* of
`<repo>/tests/**/*.py` with Python's `ast` (nothing is imported or executed), plus `sqllineage/data/tpcds/*.sql`.

Recognised call shapes (tests/helpers.py): `assert_table_lineage_equal(sql, src, tgt, dialect=…)`,
`assert_column_lineage_equal(sql, lineages, dialect=…)`, `assert_lr_graphs_match(...)`, `LineageRunner(sql, dialect=…)`, and any
other call whose first argument evaluates to a string that looks like SQL.  The SQL argument may be a literal, a name bound to
a literal earlier in the same function or module, or a concatenation / parenthesised sequence of those; anything else
(f-strings with run-time values, `%` formatting) is skipped.  `dialect` may be a literal, the default (`ansi`), or the name of a
`@pytest.mark.parametrize("dialect", [...])` argument, which yields one entry per listed dialect.
"""
import ast
import glob
import os

import common

SQL_HEADS = ("select", "insert", "create", "with", "merge", "update", "delete", "drop", "alter", "copy", "truncate", "use",
             "refresh", "cache", "uncache", "show", "describe", "set", "analyze", "rename", "declare", "(", "--", "/*",
             "replace", "from", "lock", "msck", "explain", "grant", "swap")
CALLS_SQL_FIRST = {"assert_table_lineage_equal": 3, "assert_column_lineage_equal": 2, "assert_lr_graphs_match": None,
                   "LineageRunner": 1}


def _const_str(node, env):
    """string value of an expression built from literals and names bound to literals; None if not static"""
    if isinstance(node, ast.Constant) and isinstance(node.value, str):
        return node.value
    if isinstance(node, ast.Name):
        return env.get(node.id)
    if isinstance(node, ast.BinOp) and isinstance(node.op, ast.Add):
        a, b = _const_str(node.left, env), _const_str(node.right, env)
        return a + b if a is not None and b is not None else None
    if isinstance(node, ast.JoinedStr):
        out = []
        for v in node.values:
            if isinstance(v, ast.Constant):
                out.append(v.value)
            elif isinstance(v, ast.FormattedValue) and v.format_spec is None:
                s = _const_str(v.value, env)
                if s is None:
                    return None
                out.append(s)
            else:
                return None
        return "".join(out)
    return None


def _looks_like_sql(s):
    t = s.strip().lower()
    return len(t) > 5 and t.startswith(SQL_HEADS) and " " in t


def _param_dialects(fn):
    """{'dialect': [..]} from @pytest.mark.parametrize("dialect", [...]) decorators"""
    out = {}
    for dec in fn.decorator_list:
        if isinstance(dec, ast.Call) and isinstance(dec.func, ast.Attribute) and dec.func.attr == "parametrize" and len(dec.args) >= 2:
            names = dec.args[0]
            vals = dec.args[1]
            if isinstance(names, ast.Constant) and isinstance(names.value, str) and "," not in names.value:
                if isinstance(vals, (ast.List, ast.Tuple)):
                    lst = [v.value for v in vals.elts if isinstance(v, ast.Constant) and isinstance(v.value, str)]
                    if lst and len(lst) == len(vals.elts):
                        out[names.value] = lst
    return out


def _harvest_function(fn, module_env, path, out):
    env = dict(module_env)
    params = _param_dialects(fn)
    for node in ast.walk(fn):
        if isinstance(node, ast.Assign) and len(node.targets) == 1 and isinstance(node.targets[0], ast.Name):
            s = _const_str(node.value, env)
            if s is not None:
                env[node.targets[0].id] = s
    for node in ast.walk(fn):
        if not isinstance(node, ast.Call) or not node.args:
            continue
        fname = node.func.id if isinstance(node.func, ast.Name) else (node.func.attr if isinstance(node.func, ast.Attribute) else None)
        sql = _const_str(node.args[0], env)
        if sql is None or not _looks_like_sql(sql):
            continue
        dialects = None
        for kw in node.keywords:
            if kw.arg == "dialect":
                if isinstance(kw.value, ast.Constant) and isinstance(kw.value.value, str):
                    dialects = [kw.value.value]
                elif isinstance(kw.value, ast.Name) and kw.value.id in params:
                    dialects = params[kw.value.id]
                else:
                    dialects = []
        pos = CALLS_SQL_FIRST.get(fname)
        if dialects is None and pos is not None and len(node.args) > pos:
            a = node.args[pos]
            if isinstance(a, ast.Constant) and isinstance(a.value, str):
                dialects = [a.value]
            elif isinstance(a, ast.Name) and a.id in params:
                dialects = params[a.id]
        if dialects is None:
            dialects = ["ansi"]
        for d in dialects:
            if d == "non-validating":
                continue
            out.append({"sql": sql, "dialect": d, "origin": f"{os.path.relpath(path, common.REPO)}::{fn.name}"})


def harvest_tests(repo=None):
    repo = repo or common.REPO
    out = []
    for path in sorted(glob.glob(os.path.join(repo, "tests", "**", "*.py"), recursive=True)):
        try:
            with open(path, encoding="utf-8") as f:
                tree = ast.parse(f.read())
        except (OSError, SyntaxError):
            continue
        module_env = {}
        for node in tree.body:
            if isinstance(node, ast.Assign) and len(node.targets) == 1 and isinstance(node.targets[0], ast.Name):
                s = _const_str(node.value, module_env)
                if s is not None:
                    module_env[node.targets[0].id] = s
        for node in ast.walk(tree):
            if isinstance(node, (ast.FunctionDef, ast.AsyncFunctionDef)):
                _harvest_function(node, module_env, path, out)
    return out


def harvest_tpcds(repo=None):
    repo = repo or common.REPO
    out = []
    for path in sorted(glob.glob(os.path.join(repo, "sqllineage", "data", "tpcds", "*.sql"))):
        try:
            with open(path, encoding="utf-8") as f:
                out.append({"sql": f.read(), "dialect": "ansi", "origin": os.path.relpath(path, repo)})
        except OSError:
            continue
    return out


def corpus(repo=None):
    """deduplicated list of {"sql","dialect","origin"}, in a fixed order"""
    seen, out = set(), []
    for e in harvest_tests(repo) + harvest_tpcds(repo):
        k = (e["sql"], e["dialect"])
        if k not in seen:
            seen.add(k)
            out.append(e)
    return out


if __name__ == "__main__":
    import collections
    c = corpus()
    print(len(c), "entries;", collections.Counter(e["dialect"] for e in c).most_common())
