"""Token-level rewrites of SQL text for C07 (layout / comments / letter case / quoting / trailing semicolons).

A small tokenizer of our own splits a script into tokens and the gaps between them (text == gap0 tok0 gap1 tok1 ... gapN; checked,
inputs that do not round-trip or contain characters we do not handle are skipped).  The dialect's own parser is consulted only to
decide which rewrites are *eligible* (is this word a keyword or an identifier? is this position a boundary between two lexer
tokens of the dialect?) — never for the oracle, which is implementation vs implementation.

Atomic rewrites (JSON-serialisable lists, so a failing set can be delta-debugged and replayed):
  ["gap", b, f]     replace the gap before token b (1 <= b < ntokens) by FILLERS[f]
  ["case", t, m]    re-case word token t: m in upper / lower / mixed
  ["quote", t, q]   quote the (already lower-case, unquoted) identifier token t with quote style q of the dialect
  ["semi", k, s]    append k semicolons, each preceded by SEPS[s]
"""
import re

FILLERS = [" ", "\n", "\t", " /*c;*/ ", " -- c;\n"]
SEPS = ["", " ", "\n", " /*c;*/ ", " -- c;\n"]
CASE_MODES = ["upper", "lower", "mixed"]
OPCHARS = set("+-*/<>=!|&^%~:?")
PUNCT = set("(),;.[]")
WORD_START = re.compile(r"[A-Za-z_@]")
WORD_CHAR = re.compile(r"[A-Za-z0-9_@$]")
PLAIN_WORD = re.compile(r"^[A-Za-z_][A-Za-z0-9_]*$")
NUMBER = re.compile(r"\d+(\.\d+)?([eE][+-]?\d+)?")
HASH_COMMENT_DIALECTS = {"mysql", "mariadb", "bigquery", "doris", "starrocks"}


class Untokenizable(Exception):
    pass


def tokenize(sql, dialect="ansi"):
    """-> (tokens [(kind, text)], gaps [str]) with len(gaps) == len(tokens) + 1; kinds: word num str qid punct op"""
    toks, gaps = [], []
    gap = []
    i, n = 0, len(sql)
    bracket_ident = dialect == "tsql"

    def emit(kind, text):
        gaps.append("".join(gap)); gap.clear()
        toks.append((kind, text))

    while i < n:
        c = sql[i]
        if ord(c) > 126 or c in "{}\\" or (ord(c) < 32 and c not in "\n\r\t"):
            raise Untokenizable(f"character {c!r}")
        if c in " \n\r\t":
            gap.append(c); i += 1
        elif sql.startswith("--", i):
            j = sql.find("\n", i)
            j = n if j < 0 else j
            gap.append(sql[i:j]); i = j
        elif sql.startswith("/*", i):
            j = sql.find("*/", i + 2)
            if j < 0:
                raise Untokenizable("unterminated block comment")
            gap.append(sql[i:j + 2]); i = j + 2
        elif c == "#":
            if dialect in HASH_COMMENT_DIALECTS:
                j = sql.find("\n", i)
                j = n if j < 0 else j
                gap.append(sql[i:j]); i = j
            elif dialect == "tsql":
                j = i + 1
                while j < n and (WORD_CHAR.match(sql[j]) or sql[j] == "#"):
                    j += 1
                emit("word", sql[i:j]); i = j
            else:
                raise Untokenizable("#")
        elif c == "$":
            raise Untokenizable("$")
        elif c == "'":
            j = i + 1
            while True:
                j = sql.find("'", j)
                if j < 0:
                    raise Untokenizable("unterminated string")
                if sql.startswith("''", j):
                    j += 2
                    continue
                break
            emit("str", sql[i:j + 1]); i = j + 1
        elif c in '"`' or (c == "[" and bracket_ident):
            close = "]" if c == "[" else c
            j = i + 1
            while True:
                j = sql.find(close, j)
                if j < 0:
                    raise Untokenizable("unterminated quoted identifier")
                if sql.startswith(close + close, j):
                    j += 2
                    continue
                break
            emit("qid", sql[i:j + 1]); i = j + 1
        elif c.isdigit():
            m = NUMBER.match(sql, i)
            j = m.end()
            if j < n and WORD_CHAR.match(sql[j]):
                # 1a, 2day ...: let the word run on; such a token is never rewritten
                while j < n and WORD_CHAR.match(sql[j]):
                    j += 1
                emit("other", sql[i:j])
            else:
                emit("num", sql[i:j])
            i = j
        elif WORD_START.match(c):
            j = i + 1
            while j < n and WORD_CHAR.match(sql[j]):
                j += 1
            emit("word", sql[i:j]); i = j
        elif c in PUNCT:
            emit("punct", c); i += 1
        elif c in OPCHARS:
            j = i + 1
            while j < n and sql[j] in OPCHARS and not sql.startswith("--", j) and not sql.startswith("/*", j):
                j += 1
            emit("op", sql[i:j]); i = j
        else:
            raise Untokenizable(f"character {c!r}")
    gaps.append("".join(gap))
    if "".join(g + t[1] for g, t in zip(gaps, toks)) + gaps[-1] != sql:
        raise Untokenizable("round trip")
    return toks, gaps


def token_offsets(toks, gaps):
    offs, p = [], 0
    for g, (_, t) in zip(gaps, toks):
        p += len(g)
        offs.append((p, p + len(t)))
        p += len(t)
    return offs


# ------------------------------------------------------------------------------------------------ classification
_QUOTE_CACHE = {}


def _linter(dialect):
    from sqlfluff.core import Linter
    return Linter(dialect=dialect)


def quote_styles(dialect):
    """quote pairs under which the dialect's grammar reads `<q>zq<q>` as an *identifier* (not a string literal), found by asking
    the dialect's parser once"""
    if dialect in _QUOTE_CACHE:
        return _QUOTE_CACHE[dialect]
    out = []
    lt = _linter(dialect)
    for o, c in (('"', '"'), ("`", "`"), ("[", "]")):
        try:
            p = lt.parse_string(f"select {o}zq{c} from {o}zt{c}")
            if p.violations or p.tree is None:
                continue
            segs = [s for s in p.tree.raw_segments if s.raw in (f"{o}zq{c}", f"{o}zt{c}")]
            if len(segs) == 2 and all(s.type == "identifier" for s in segs):
                out.append((o, c))
        except Exception:  # noqa
            continue
    _QUOTE_CACHE[dialect] = out
    return out


class Classified:
    """tokens + what may be rewritten where"""

    def __init__(self, toks, gaps, cls, boundary_ok, dialect, parents=None, dup_groups=None, shape=None):
        self.toks, self.gaps, self.cls, self.boundary_ok, self.dialect = toks, gaps, cls, boundary_ok, dialect
        self.parents = parents or [()] * len(toks)      # per token: ancestor segment types, outermost first
        self.dup_groups = dup_groups or []              # [[(first token, last token + 1), ...]] query texts occurring more than once
        self.shape = shape                              # noise-free shape of the parse tree

    def mirror(self, rewrites):
        """apply each rewrite that sits inside one occurrence of a repeated query text to every other occurrence as well"""
        out = [list(r) for r in rewrites]
        for r in rewrites:
            if r[0] == "semi":
                continue
            i = r[1]
            for grp in self.dup_groups:
                for (a, b) in grp:
                    inside = (a < i < b) if r[0] == "gap" else (a <= i < b)
                    if inside:
                        for (a2, b2) in grp:
                            if (a2, b2) != (a, b):
                                out.append([r[0], i - a + a2, r[2]])
        seen, res = set(), []
        for r in out:
            k = (r[0], r[1]) if r[0] != "semi" else ("semi",)
            if k not in seen:
                seen.add(k); res.append(r)
        return res

    def context(self, rw):
        """where a rewrite sits, in the parser's terms: used to name the class of a failure"""
        if rw[0] == "gap":
            b = rw[1]
            pa, pb = self.parents[b - 1], self.parents[b]
            common = []
            for x, y in zip(pa, pb):
                if x != y:
                    break
                common.append(x)
            return {"rewrite": "gap", "filler": FILLERS[rw[2]], "before": self.toks[b - 1][1], "after": self.toks[b][1],
                    "before_parent": pa[-1] if pa else None, "after_parent": pb[-1] if pb else None,
                    "common_parent": common[-1] if common else None}
        if rw[0] in ("case", "quote"):
            t = rw[1]
            return {"rewrite": rw[0], "mode": rw[2], "token": self.toks[t][1], "class": self.cls[t],
                    "parent": self.parents[t][-1] if self.parents[t] else None}
        return {"rewrite": "semi", "count": rw[1], "sep": SEPS[rw[2]]}

    def singles(self, kinds=("gap", "case", "quote", "semi")):
        """every atomic rewrite that changes the text"""
        out = []
        if "gap" in kinds:
            for b in range(1, len(self.toks)):
                if self.boundary_ok[b]:
                    for f in range(len(FILLERS)):
                        if FILLERS[f] != self.gaps[b]:
                            out.append(["gap", b, f])
        for t, (kind, text) in enumerate(self.toks):
            c = self.cls[t]
            if c in ("kw", "ident") and "case" in kinds:
                for m in CASE_MODES:
                    if recase(text, m) != text:
                        out.append(["case", t, m])
            if c == "ident" and "quote" in kinds and text == text.lower():
                for q in range(len(quote_styles(self.dialect))):
                    out.append(["quote", t, q])
        if "semi" in kinds:
            for k in (1, 2, 3):
                for s in range(len(SEPS)):
                    out.append(["semi", k, s])
        return out

    def apply(self, rewrites):
        toks = [t[1] for t in self.toks]
        gaps = list(self.gaps)
        tail = ""
        quoted = {}
        for r in rewrites:
            if r[0] == "quote":
                quoted[r[1]] = r[2]
        for r in rewrites:
            if r[0] == "gap":
                gaps[r[1]] = FILLERS[r[2]]
            elif r[0] == "case" and r[1] not in quoted:
                toks[r[1]] = recase(toks[r[1]], r[2])
            elif r[0] == "semi":
                tail = "".join(SEPS[r[2]] + ";" for _ in range(r[1]))
        qs = quote_styles(self.dialect)
        for t, q in quoted.items():
            o, c = qs[q]
            toks[t] = o + self.toks[t][1] + c
        body = "".join(g + t for g, t in zip(gaps, toks))
        if tail:
            # the trailing gap may end in a line comment: keep it terminated
            end = gaps[-1]
            if "--" in end.split("\n")[-1] or "#" in end.split("\n")[-1]:
                end += "\n"
            return body + end + tail
        return body + gaps[-1]

    def ident_names(self, rewrites=()):
        """normalised names of every identifier token of the (rewritten) text: what a *named* column can be called"""
        names = {"*"}
        quoted = {r[1]: r[2] for r in rewrites if r[0] == "quote"}
        cased = {r[1]: r[2] for r in rewrites if r[0] == "case"}
        qs = quote_styles(self.dialect)
        for t, (kind, text) in enumerate(self.toks):
            if kind == "qid":
                names.add(ref_escape(text))
            elif kind == "word" and self.cls[t] in ("ident", "frozen"):
                if t in quoted:
                    o, c = qs[quoted[t]]
                    names.add(ref_escape(o + text + c))
                elif t in cased:
                    names.add(ref_escape(recase(text, cased[t])))
                else:
                    names.add(ref_escape(text))
        return names


def recase(text, mode):
    if mode == "upper":
        return text.upper()
    if mode == "lower":
        return text.lower()
    out, up = [], True
    for ch in text:
        if ch.isalpha():
            out.append(ch.upper() if up else ch.lower()); up = not up
        else:
            out.append(ch)
    return "".join(out)


def ref_escape(name):
    """reference statement of the normalisation rule (what the property calls 'the same name'): quotes are removed and the case
    kept; an unquoted name is lower-cased.  Written here independently of the implementation."""
    if len(name) >= 2 and ((name[0] == name[-1] and name[0] in '"`') or (name[0] == "[" and name[-1] == "]")):
        return name[1:-1]
    return name.lower()


def classify(sql, dialect, toks=None, gaps=None):
    """-> Classified | None (the dialect's parser does not accept the text, or the lexers disagree everywhere)"""
    if toks is None:
        toks, gaps = tokenize(sql, dialect)
    p = _linter(dialect).parse_string(sql)
    from sqlfluff.core import SQLLexError, SQLParseError
    if p.tree is None or any(isinstance(e, (SQLLexError, SQLParseError)) for e in p.violations):
        return None
    # raw segments of the dialect's lexer with their character offsets (no templating: the raws concatenate to the text)
    raws, pos = [], 0
    ok = True
    for s in p.tree.raw_segments:
        r = s.raw
        if not sql.startswith(r, pos):
            ok = False
            break
        if r:
            raws.append((pos, pos + len(r), s))
        pos += len(r)
    if not ok or pos != len(sql):
        return None
    anc = {}

    def walk(seg, path):
        if not seg.segments:
            anc[id(seg)] = tuple(path)
        for ch in seg.segments:
            walk(ch, path + [seg.type])
    walk(p.tree, [])
    # query-like segments whose exact text occurs more than once (sqllineage identifies a subquery by its raw text)
    seg_pos = {}
    pos = 0
    for sg in p.tree.raw_segments:
        seg_pos[id(sg)] = pos
        pos += len(sg.raw)
    by_raw = {}

    def collect(seg):
        if seg.segments:
            if seg.type in ("bracketed", "select_statement", "set_expression", "with_compound_statement") and \
                    any(True for _ in seg.recursive_crawl("select_clause")):
                first = seg.raw_segments[0]
                by_raw.setdefault(seg.raw, set()).add((seg_pos[id(first)], seg_pos[id(first)] + len(seg.raw)))
            for ch in seg.segments:
                collect(ch)
    collect(p.tree)
    starts = {a: (b, s) for a, b, s in raws}
    code_starts = {a for a, b, s in raws if not (s.is_whitespace or s.is_comment)}
    offs = token_offsets(toks, gaps)
    cls = []
    parents = []
    for (kind, text), (a, b) in zip(toks, offs):
        c = "frozen"
        hit = starts.get(a)
        parents.append(anc.get(id(hit[1]), ()) if hit is not None else ())
        if hit is not None and hit[0] == b:
            seg = hit[1]
            if kind == "word" and PLAIN_WORD.match(text):
                if seg.type == "identifier":
                    c = "ident"
                elif seg.type in ("keyword", "binary_operator", "word", "raw", "null_literal", "boolean_literal", "data_type_identifier",
                                  "function_name_identifier", "bare_function", "date_part", "datetime_type_identifier"):
                    c = "kw"
            elif kind in ("punct", "op", "num", "str", "qid"):
                c = "fixed"
        cls.append(c)
    # a boundary is eligible when both neighbours start/end exactly at lexer-token boundaries of the dialect
    boundary_ok = [False] * (len(toks) + 1)
    ends = _ends(raws)
    for b in range(1, len(toks)):
        boundary_ok[b] = offs[b - 1][1] in ends and offs[b][0] in code_starts
    dup_groups = []
    for raw, spans in by_raw.items():
        if len(spans) > 1:
            grp = []
            for (a, b) in sorted(spans):
                ts = [i for i, (x, y) in enumerate(offs) if x >= a and y <= b]
                if ts:
                    grp.append((ts[0], ts[-1] + 1))
            if len(grp) > 1 and len({b - a for a, b in grp}) == 1:
                dup_groups.append(grp)
    return Classified(toks, gaps, cls, boundary_ok, dialect, parents, dup_groups, tree_shape(p.tree))


def tree_shape(seg):
    """the parse tree without whitespace, comments, meta segments and `;`, leaves compared up to letter case and quoting"""
    if seg.is_whitespace or seg.is_comment or seg.is_meta:
        return None
    if not seg.segments:
        if seg.raw == ";":
            return None
        return (seg.type, ref_escape(seg.raw).lower() if seg.type == "identifier" else seg.raw.lower())
    kids = tuple(k for k in (tree_shape(x) for x in seg.segments) if k is not None)
    if seg.type == "statement_terminator" and not kids:
        return None
    return (seg.type, kids)


def shape_of(sql, dialect):
    try:
        p = _linter(dialect).parse_string(sql)
    except Exception:  # noqa
        return None
    if p.tree is None:
        return None
    return tree_shape(p.tree)


def _ends(raws):
    return {b for _, b, s in raws if not (s.is_whitespace or s.is_comment)}


def ddmin(items, fails):
    """delta debugging: a 1-minimal sublist of `items` on which `fails` still holds"""
    items = list(items)
    n = 2
    while len(items) >= 2:
        chunk = max(1, len(items) // n)
        subsets = [items[i:i + chunk] for i in range(0, len(items), chunk)]
        reduced = False
        for s in subsets:
            if len(s) < len(items) and fails(s):
                items, n, reduced = s, 2, True
                break
        if not reduced:
            for s in subsets:
                comp = [x for x in items if x not in s]
                if comp and len(comp) < len(items) and fails(comp):
                    items, n, reduced = comp, max(n - 1, 2), True
                    break
        if not reduced:
            if n >= len(items):
                break
            n = min(len(items), n * 2)
    return items
