"""C05 — a script is analysed as exactly the sequence of its statements.

Scripts are ASSEMBLED: `lead  s1 sep1  s2 sep2 … sn sepn` from statements (token lists from a small generated pool, and
corpus statements harvested at run time from <repo>/tests/**/*.py string constants and <repo>/sqllineage/data/tpcds/*.sql,
kept when the model's decidable class predicate `level0` accepts them) and separator noise built from the atoms
`;`  blank  LF  TAB  `-- n;⏎`  ` # h;⏎`  `/* m; */`  `/**/`  (+ a final `-- e;` without LF).

A. correspondence (impl vs Lean model through the driver, `splitscript`): `helpers.split(script)` (exact text of every
   piece, i.e. to which piece blanks and comments are attached), the texts `_eval` hands to the analyser (statement tap on
   `SqlFluffLineageAnalyzer.analyze`; exact), `LineageRunner.statements()` (modulo blanks — sqlparse's choice between
   blank / line break / nothing when a comment is removed is not modelled) and the count; bounded-exhaustive over separator
   / lead / tail noise of <= 3 (thorough 4) atoms, seeded random for 1–5 statements; plus whole corpus strings; plus raw
   strings (every string of length <= 4/5 over a 9-character alphabet, seeded random over a larger one) for the lexer.
B. property oracle that does NOT use the model (the expected answer is known from how the script was assembled): as many
   pieces as statements; the i-th piece is a substring of the script lying behind the (i-1)-th, covering the i-th
   statement's span and ending before the (i+1)-th statement; the i-th reported statement equals the i-th statement
   without its comments (modulo blanks and the trailing `;`); the summary prints the same count.
C. script vs per-statement: `LineageRunner(script)` table lineage (source / target / intermediate) and metadata-free column
   lineage equal those of `SQLLineageHolder.of(DummyMetaDataProvider(), *holders)` where holder i comes from analysing
   statement i ALONE (its own text, a fresh runner) — impl vs impl, several dialects.
D. T-SQL without semicolons: `with SQLLineageConfig(TSQL_NO_SEMICOLON=True)`, dialect tsql, statements separated by line
   breaks (and comments containing `;`) only: tapped texts = the statements; lineage = combination of per-statement
   analysis done WITHOUT the flag (so the segment cache is not on the reference path).
"""
import ast
import copy
import itertools
import json
import os
import re
import time
import warnings

from common import Check, Driver, Infra, REPO, canon_json, leanchecker, log  # noqa: F401  (common puts REPO first on sys.path)

BLANKS = " \t\n"


def delws(s):
    return "".join(c for c in s if c not in BLANKS)


# ------------------------------------------------------------------------------------------------ implementation
class Impl:
    def __init__(self):
        from sqllineage.config import SQLLineageConfig
        from sqllineage.core.holders import SQLLineageHolder, StatementLineageHolder
        from sqllineage.core.metadata.dummy import DummyMetaDataProvider
        from sqllineage.core.parser.sqlfluff.analyzer import SqlFluffLineageAnalyzer
        from sqllineage.exceptions import InvalidSyntaxException, UnsupportedStatementException
        from sqllineage.runner import LineageRunner
        from sqllineage.utils import helpers
        self.helpers = helpers
        self.LineageRunner = LineageRunner
        self.Analyzer = SqlFluffLineageAnalyzer
        self.SQLLineageHolder = SQLLineageHolder
        self.StatementLineageHolder = StatementLineageHolder
        self.Dummy = DummyMetaDataProvider
        self.Config = SQLLineageConfig
        self.InvalidSyntax = InvalidSyntaxException
        self.Unsupported = UnsupportedStatementException

    def err(self, e):
        if isinstance(e, self.InvalidSyntax):
            return "invalidSyntax"
        if isinstance(e, self.Unsupported):
            return "unsupported"
        return "internal:" + type(e).__name__


class Tap:
    """statement tap: wraps SqlFluffLineageAnalyzer.analyze from the harness process (the repository is not edited);
    records (text, holder); `stub` = do not parse, return an empty statement holder"""

    def __init__(self, impl, stub=False):
        self.impl, self.stub, self.rec = impl, stub, []

    def __enter__(self):
        self.orig = self.impl.Analyzer.analyze
        tap = self

        def analyze(an, sql, metadata_provider):
            h = tap.impl.StatementLineageHolder() if tap.stub else tap.orig(an, sql, metadata_provider)
            tap.rec.append((sql, h))
            return h
        self.impl.Analyzer.analyze = analyze
        return self

    def __exit__(self, *a):
        self.impl.Analyzer.analyze = self.orig


# ------------------------------------------------------------------------------------------------ token forms
def render_form(f):
    k = f[0]
    if k in ("c", "raw"):
        return f[1]
    if k == ";":
        return ";"
    if k == "q":
        return f[1] + f[2] + f[1]
    if k == "l":
        return f[1] + f[2] + ("\n" if f[3] else "")
    if k == "b":
        return "/*" + f[1] + "*/"
    raise ValueError(f)


def render_forms(forms):
    return "".join(render_form(f) for f in forms)


def looks_comment_free(text):
    return "--" not in text and "/*" not in text and "#" not in text


def nocomment_of(forms):
    """the statement without its comments, known from the token forms (None when a raw part may hold comments)"""
    out = []
    for f in forms:
        if f[0] == "raw":
            if not looks_comment_free(f[1]):
                return None
            out.append(f[1])
        elif f[0] not in ("l", "b"):
            out.append(render_form(f))
    return "".join(out)


def hidden_semicolon(forms):
    return any(f[0] in ("q", "l", "b") and ";" in f[-2 if f[0] == "l" else -1] for f in forms)


ATOMS = {
    "S": [[";"]], "SP": [["c", " "]], "NL": [["c", "\n"]], "TAB": [["c", "\t"]],
    "LD": [["l", "--", " n;", True]], "LH": [["c", " "], ["l", "# ", "h;", True]],
    "BC": [["b", " m; "]], "BE": [["b", ""]],
    "LDE": [["l", "--", " e;", False]],     # only as the very last atom of a script
}
NOISE = ["S", "SP", "NL", "TAB", "LD", "LH", "BC", "BE"]


def Q(q, body):
    return ["q", q, body]


def C(t):
    return ["c", t]


GEN_POOL = [
    [C("select 1")],
    [C("select a, "), Q("'", "x;y"), C(" as b from t1")],
    [C("insert into t2 select a, b from t1")],
    [C("insert into t3 select a "), ["b", " in; "], C(" from t2")],
    [C("select a "), ["l", "--", " c; d", True], C("from t3")],
    [C("create table t4 as select "), Q('"', "c;d"), C(" from t3")],
    [C("select "), Q("`", "a;b"), C(" from t1")],
    [C("insert into t5 select a from t4 where b = "), Q("'", "it''s;"), C(" and c > 1")],
    [["b", " h; "], C(" select b from t5")],
    [C("update t6 set a = 1 where b in (select b from t5)")],
    [C("select case when a = "), Q("'", ";"), C(" then 1 else 2 end as x from t6")],
    [C("insert into t7 select * from t6 "), ["l", "# ", "h;", True], C("where a > 0")],
    [C("drop table t1")],
    [C("insert into t1 select count(*) from (select a from t2) x")],
    [C("create table t8 as select t2.a, t5.b from t2 join t5 on t2.a = t5.a")],
    [C("insert into t2 select a, b from t8")],
]

TSQL_POOL = [
    "SELECT a INTO t2 FROM t1",
    "INSERT INTO t3 SELECT a, b FROM t2",
    "UPDATE t4 SET a = 1 FROM t5",
    "SELECT 'a;b' AS x, c INTO t9 FROM t4",
    "INSERT INTO t1 SELECT a FROM t9",
    "SELECT * FROM t3",
    "DELETE FROM t9",
    "INSERT INTO t5 SELECT t2.a, t3.b FROM t2 JOIN t3 ON t2.a = t3.a",
    "SELECT a /* in; */ INTO t6 FROM t5",
]
TSQL_SEPS = ["\n", "\n\n", " \n", "\n-- n;\n", "\n/* m; */\n", "\n\t\n"]


class Stmt:
    def __init__(self, forms, kind):
        self.forms, self.kind = forms, kind
        self.text = render_forms(forms)
        self.nocomment = nocomment_of(forms)


# ------------------------------------------------------------------------------------------------ corpus
def harvest(repo):
    """SQL-looking string constants of the test-suite and the tpcds queries (read from the tree under test)"""
    found = []
    kw = re.compile(r"\b(select|insert|create|update|merge|delete|drop|alter|with|copy|refresh|cache|truncate)\b", re.I)
    troot = os.path.join(repo, "tests")
    for root, dirs, files in os.walk(troot):
        dirs.sort()
        for f in sorted(files):
            if f.endswith(".py"):
                try:
                    with open(os.path.join(root, f), encoding="utf-8") as fh:
                        tree = ast.parse(fh.read())
                except (OSError, SyntaxError, UnicodeDecodeError):
                    continue
                for node in ast.walk(tree):
                    if isinstance(node, ast.Constant) and isinstance(node.value, str):
                        v = node.value
                        if len(v) >= 12 and kw.search(v):
                            found.append(("tests", v))
    d = os.path.join(repo, "sqllineage", "data", "tpcds")
    if os.path.isdir(d):
        for f in sorted(os.listdir(d)):
            if f.endswith(".sql"):
                with open(os.path.join(d, f), encoding="utf-8") as fh:
                    found.append(("tpcds", fh.read()))
    seen, out = set(), []
    for src, v in found:
        if v not in seen:
            seen.add(v); out.append((src, v))
    return out


def corpus_statements(drv, strings):
    """cut every corpus string that the class predicate accepts at its top-level `;` (token positions from the model's
    lexer — used as a GENERATOR here; whether each part really is one statement is re-decided by the oracle on the
    implementation) and keep the parts that contain code.  Returns (statements, whole level0 strings, distribution)."""
    ans = drv.ask([{"cmd": "splitlex", "s": v} for _, v in strings])
    stmts, whole, dist = [], [], {}
    seen = set()
    for (src, v), a in zip(strings, ans):
        if "error" in a:
            raise Infra("model driver error: " + a["error"])
        why = a["why"] if not a["level0"] else ("" if a["wf"] else "not-canonical")
        dist[why or "accepted"] = dist.get(why or "accepted", 0) + 1
        if why:
            continue
        if not a["roundtrip"]:
            raise Infra("model lexer lost characters on a corpus string")
        whole.append((src, v))
        part = []
        parts = []
        for t in a["toks"]:
            if t[0] == ";":
                parts.append(part); part = []
            else:
                part.append(t)
        parts.append(part)
        for p in parts:
            text = render_forms(p).strip(BLANKS)
            if not text or text in seen:
                continue
            if not any(f[0] in ("c", "q") and f[-1].strip(BLANKS) for f in p):
                continue
            # a line comment at the very end would lose its LF to strip(): keep such statements out
            if text.endswith("\n") or (p and p[-1][0] == "l"):
                continue
            seen.add(text)
            stmts.append((src, text))
    return stmts, whole, dist


# ------------------------------------------------------------------------------------------------ cases
def case_forms(case, stmts):
    lead = [f for a in case["lead"] for f in ATOMS[a]]
    items = []
    for sid, sep in case["items"]:
        items.append([stmts[sid].forms, [f for a in sep for f in ATOMS[a]]])
    return lead, items


def core_start(text):
    """offset of the first character of a statement that is not a blank or part of a LEADING line comment.  (Directly
    behind a `;` sqlparse leaves blanks and `--` / `# ` line comments with the piece that just ended; the property does
    not say where comments go, so the span a piece has to cover starts behind them.)"""
    i = 0
    while True:
        while i < len(text) and text[i] in BLANKS:
            i += 1
        if text.startswith("--", i) or text.startswith("# ", i):
            j = text.find("\n", i)
            if j < 0:
                return len(text)
            i = j + 1
        else:
            return i


def assemble(lead, items):
    """script text and the character span of every statement, from the forms alone (no model involved)"""
    pos = len(render_forms(lead))
    out = [render_forms(lead)]
    spans = []
    for sf, sepf in items:
        t = render_forms(sf)
        spans.append((pos + core_start(t), pos + len(t)))
        out.append(t); pos += len(t)
        u = render_forms(sepf)
        out.append(u); pos += len(u)
    return "".join(out), spans


def run_tapped(impl, script, dialect="ansi", stub=True):
    with Tap(impl, stub=stub) as tap, warnings.catch_warnings():
        warnings.simplefilter("ignore")
        try:
            r = impl.LineageRunner(script, dialect=dialect)
            reported = r.statements()
            m = re.search(r"Statements\(#\): (\d+)", str(r))
            count = int(m.group(1)) if m else None
        except Exception as e:  # noqa
            return {"exc": impl.err(e), "tapped": [t for t, _ in tap.rec]}
    return {"tapped": [t for t, _ in tap.rec], "reported": reported, "count": count}


def check_partition(script, spans, pieces, what):
    fails = []
    if len(pieces) != len(spans):
        fails.append(f"{what}: {len(pieces)} piece(s) for a script of {len(spans)} statement(s)")
        return fails
    pos = 0
    for i, (p, (a, b)) in enumerate(zip(pieces, spans)):
        j = script.find(p, pos)
        if j < 0:
            fails.append(f"{what}: piece {i} is not a substring of the script behind piece {i - 1}")
            return fails
        nxt = spans[i + 1][0] if i + 1 < len(spans) else len(script)
        if not (j <= a and j + len(p) >= b):
            fails.append(f"{what}: piece {i} does not contain statement {i}")
            return fails
        if j + len(p) > nxt:
            fails.append(f"{what}: piece {i} runs into statement {i + 1}")
            return fails
        pos = j + len(p)
    return fails


def observe(impl, script):
    """everything parts A/B look at, from the implementation alone"""
    obs = {}
    try:
        obs["split"] = impl.helpers.split(script)
    except Exception as e:  # noqa
        obs["split_exc"] = impl.err(e)
    obs["run"] = run_tapped(impl, script)
    return obs


def oracle(script, spans, nocomments, obs):
    """property C05 (statement list part) on the implementation's own outputs; no model"""
    fails = []
    if "split_exc" in obs:
        return [f"helpers.split raised {obs['split_exc']}"]
    fails += check_partition(script, spans, obs["split"], "helpers.split")
    run = obs["run"]
    if "exc" in run:
        fails.append(f"LineageRunner raised {run['exc']} although no statement is parsed (tap stub)")
        return fails
    # `_eval` strips the script first; a piece of the stripped script is still a substring of the script itself, and
    # the property does not legislate outer blanks, so the analysed texts are located in the unstripped script
    fails += check_partition(script, spans, run["tapped"], "texts analysed by _eval")
    rep = run["reported"]
    if len(rep) != len(spans):
        fails.append(f"statements() reports {len(rep)} statement(s), the script has {len(spans)}")
    else:
        for i, (r, nc) in enumerate(zip(rep, nocomments)):
            if nc is not None and delws(r).rstrip(";") != delws(nc):
                fails.append(f"statements()[{i}] = {r!r} is not statement {i} without comments ({nc!r})")
                break
    if run["count"] != len(spans):
        fails.append(f"summary prints Statements(#): {run['count']} for {len(spans)} statement(s)")
    return fails


def corr_diff(obs, model):
    """implementation vs model; list of differing observables"""
    d = []
    if obs.get("split") != model["split"]:
        d.append("split")
    run = obs["run"]
    if "exc" in run:
        d.append("run-exception")
    else:
        if run["tapped"] != model["runnerSplit"]:
            d.append("analysed-texts")
        if [delws(x) for x in run["reported"]] != [delws(x) for x in model["statements"]]:
            d.append("statements()")
        if run["count"] != len(model["runnerSplit"]):
            d.append("count")
    return d


# ------------------------------------------------------------------------------------------------ enumeration
def noise_seqs(maxlen):
    for n in range(0, maxlen + 1):
        for seq in itertools.product(NOISE, repeat=n):
            yield list(seq)


def gen_cases(chk, n_gen, n_all):
    """bounded-exhaustive spaces first, then seeded random; yields (case, tag)"""
    k = 4 if chk.tier == "thorough" else 3
    i = 0
    # E1: two statements, EVERY separator of <= k atoms containing `;`
    for sep in noise_seqs(k):
        if "S" in sep:
            a, b = i % n_gen, (i * 7 + 3) % n_gen
            i += 1
            yield {"lead": [], "items": [[a, sep], [b, []]]}, "E1"
    # E2: one statement, EVERY lead / EVERY tail of <= k atoms (tail optionally closed by a comment without LF)
    for nz in noise_seqs(k):
        a = i % n_gen
        i += 1
        yield {"lead": nz, "items": [[a, []]]}, "E2-lead"
        yield {"lead": [], "items": [[a, nz]]}, "E2-tail"
        if len(nz) < k:
            yield {"lead": [], "items": [[a, nz + ["LDE"]]]}, "E2-tail"
    n_rand = 40000 if chk.tier == "thorough" else 1000
    rng = chk.rng
    for _ in range(n_rand):
        n = rng.choice([1, 2, 2, 3, 3, 4, 4, 5, 5])
        items = []
        for j in range(n):
            sid = rng.randrange(n_all) if rng.random() < 0.5 else rng.randrange(n_gen)
            sep = [rng.choice(NOISE) for _ in range(rng.randint(0, 5))]
            if j < n - 1 and "S" not in sep:
                sep.insert(rng.randint(0, len(sep)), "S")
            if j == n - 1 and rng.random() < 0.15:
                sep.append("LDE")
            items.append([sid, sep])
        lead = [rng.choice(NOISE) for _ in range(rng.choice([0, 0, 1, 2, 3]))]
        yield {"lead": lead, "items": items}, "random"


def shrink_case(case, fails_pred):
    """greedy: drop statements, drop noise atoms (keeping a `;` between statements) while the property still fails"""
    cur = copy.deepcopy(case)
    changed = True
    while changed:
        changed = False
        cands = []
        for i in range(len(cur["items"])):
            if len(cur["items"]) > 1:
                c = copy.deepcopy(cur); del c["items"][i]; cands.append(c)
        for i in range(len(cur["lead"])):
            c = copy.deepcopy(cur); del c["lead"][i]; cands.append(c)
        for i, (_, sep) in enumerate(cur["items"]):
            for j in range(len(sep)):
                c = copy.deepcopy(cur); del c["items"][i][1][j]
                if i < len(c["items"]) - 1 and "S" not in c["items"][i][1]:
                    continue
                if "LDE" in c["items"][i][1][:-1]:
                    continue
                cands.append(c)
        for i, (sid, _) in enumerate(cur["items"]):
            if sid != 0:
                c = copy.deepcopy(cur); c["items"][i][0] = 0; cands.append(c)
        for c in cands:
            if fails_pred(c):
                cur = c; changed = True; break
    return cur


def replay_obj(case, stmts, extra=None):
    lead, items = case_forms(case, stmts)
    o = {"kind": "script", "lead": lead,
         "items": [{"stmt": sf, "sep": sepf, "nocomment": stmts[sid].nocomment}
                   for (sf, sepf), (sid, _) in zip(items, case["items"])]}
    if extra:
        o.update(extra)
    return o


def eval_script_obj(impl, o):
    items = [[it["stmt"], it["sep"]] for it in o["items"]]
    script, spans = assemble(o["lead"], items)
    obs = observe(impl, script)
    return script, obs, oracle(script, spans, [it["nocomment"] for it in o["items"]], obs)


# ------------------------------------------------------------------------------------------------ parts A + B
def part_ab(chk, drv, impl, stmts, n_gen):
    cases = list(gen_cases(chk, n_gen, len(stmts)))
    reqs = []
    for case, _ in cases:
        lead, items = case_forms(case, stmts)
        reqs.append({"cmd": "splitscript", "lead": lead, "items": items})
    answers = drv.ask(reqs, chunk=4000) if drv is not None else [None] * len(cases)
    stats = {"cases": 0, "outside_class": {}, "by_space": {}, "statements_per_script": {}, "corpus_statements_used": 0}
    # the enumerated spaces are always completed; the random tail stops at its time budget (scripts with tpcds-sized
    # statements cost sqlparse tens of milliseconds each)
    budget = (5 * 60) if chk.tier == "thorough" else 18
    t_rand = None
    for (case, tag), ans in zip(cases, answers):
        if tag == "random":
            t_rand = t_rand or time.time()
            if time.time() - t_rand > budget:
                stats["random_stopped_by_budget_after"] = stats["by_space"].get("random", 0)
                break
        lead, items = case_forms(case, stmts)
        script, spans = assemble(lead, items)
        if ans is not None:
            if "error" in ans:
                raise Infra("model driver error: " + ans["error"])
            if ans["script"] != script:
                raise Infra("harness and model render the same token forms differently")
            if not ans["hyp"]:
                why = ans["why"] or ("not-canonical" if not ans["wf"] else "shape")
                stats["outside_class"][why] = stats["outside_class"].get(why, 0) + 1
                continue
            if not ans["relex"]:
                chk.stale.append({"kind": "lex_render", "script": script})
                continue
        stats["cases"] += 1
        stats["by_space"][tag] = stats["by_space"].get(tag, 0) + 1
        n = len(case["items"])
        stats["statements_per_script"][n] = stats["statements_per_script"].get(n, 0) + 1
        stats["corpus_statements_used"] += sum(1 for sid, _ in case["items"] if stmts[sid].kind != "gen")
        obs = observe(impl, script)
        nocs = [stmts[sid].nocomment for sid, _ in case["items"]]
        fails = oracle(script, spans, nocs, obs)
        nontrivial = n >= 2 or any(hidden_semicolon(f) for f in [lead] + [x for it in items for x in it])
        chk.count(script, nontrivial)
        if stats["cases"] % 700 == 1:
            chk.sample({"script": script, "statements": obs.get("split"), "reported": obs["run"].get("reported")})
        if fails:
            def pred(c):
                l2, i2 = case_forms(c, stmts)
                s2, sp2 = assemble(l2, i2)
                return bool(oracle(s2, sp2, [stmts[sid].nocomment for sid, _ in c["items"]], observe(impl, s2)))
            small = shrink_case(case, pred)
            ro = replay_obj(small, stmts)
            s2, obs2, f2 = eval_script_obj(impl, ro)
            chk.violation("statement list of an assembled script is not its statements in order: " + (f2 or fails)[0],
                          dict(ro, script=s2, observed=obs2, failures=f2))
            return stats
        if ans is not None:
            d = corr_diff(obs, ans)
            if d and len(chk.stale) < 20:
                chk.stale.append({"kind": "script", "differs": d, "script": script, "impl": obs,
                                  "model": {k: ans[k] for k in ("split", "runnerSplit", "statements")}})
    return stats


def part_whole_corpus(chk, drv, impl, whole):
    """whole corpus strings (multi-statement scripts as the test-suite writes them): helpers.split vs model, exact"""
    if drv is None:
        return 0
    ans = drv.ask([{"cmd": "split", "s": v} for _, v in whole])
    n = 0
    for (src, v), a in zip(whole, ans):
        if not a["level0"]:
            continue
        n += 1
        got = impl.helpers.split(v)
        chk.count("whole:" + v, len(got) >= 2)
        if got != a["split"] and len(chk.stale) < 20:
            chk.stale.append({"kind": "corpus-string", "source": src, "script": v, "impl": got, "model": a["split"]})
        if a["level0stripped"]:
            got2 = [delws(impl.helpers.trim_comment(x)) for x in impl.helpers.split(v.strip())]
            if got2 != [delws(x) for x in a["statements"]] and len(chk.stale) < 20:
                chk.stale.append({"kind": "corpus-string-statements", "source": src, "script": v, "impl": got2,
                                  "model": a["statements"]})
    return n


CHAR_ALPHA = ["a", " ", "\n", ";", "'", "-", "/", "*", "#"]
RAND_ALPHA = ["a", "b", " ", " ", "\n", ";", ";", "'", '"', "`", "-", "-", "/", "*", "#", "(", ")", "+", "\t", "end", "1", ".",
              "=", "@", "%", "|", "case", "--", "/*", "*/", "# ", "''", "go", "select"]


def part_chars(chk, drv, impl):
    """lexer-level correspondence on raw strings (no assembly, hence no oracle: a difference is a stale correspondence):
    EVERY string of length <= 4 (thorough 5) over a 9-character alphabet, then seeded random strings over a larger one;
    strings outside level0 are skipped (counted)."""
    if drv is None:
        return {}
    k = 5 if chk.tier == "thorough" else 4
    strings = ["".join(t) for n in range(1, k + 1) for t in itertools.product(CHAR_ALPHA, repeat=n)]
    n_exh = len(strings)
    n_rand = 30000 if chk.tier == "thorough" else 1000
    for _ in range(n_rand):
        strings.append("".join(chk.rng.choice(RAND_ALPHA) for _ in range(chk.rng.randint(1, 14))))
    ans = drv.ask([{"cmd": "split", "s": v} for v in strings], chunk=20000)
    stats = {"exhaustive_strings": n_exh, "random_strings": n_rand, "inside_class": 0, "outside_class": {}}
    for v, a in zip(strings, ans):
        if "error" in a:
            raise Infra("model driver error: " + a["error"])
        if not a["level0"]:
            stats["outside_class"][a["why"]] = stats["outside_class"].get(a["why"], 0) + 1
            continue
        stats["inside_class"] += 1
        got = impl.helpers.split(v)
        chk.count("chars:" + v, len(got) >= 2 or (";" in v and len(got) <= 1 and len(v) > 2))
        if got != a["split"]:
            if len(chk.stale) < 20:
                chk.stale.append({"kind": "string", "script": v, "impl": got, "model": a["split"]})
            continue
    return stats


# ------------------------------------------------------------------------------------------------ part C
def table_names(ts):
    return sorted(str(t) for t in ts)


def holder_view(h):
    cols = sorted(tuple(str(c) for c in path) for path in h.get_column_lineage())
    return {"source": table_names(h.source_tables), "target": table_names(h.target_tables),
            "intermediate": table_names(h.intermediate_tables), "columns": [list(p) for p in cols]}


def runner_view(r):
    cols = sorted(tuple(str(c) for c in path) for path in r.get_column_lineage())
    return {"source": table_names(r.source_tables), "target": table_names(r.target_tables),
            "intermediate": table_names(r.intermediate_tables), "columns": [list(p) for p in cols]}


class Singles:
    """statement analysed ALONE (own text, fresh runner): holder or rejection, cached per (dialect, config, text)"""

    def __init__(self, impl):
        self.impl, self.cache = impl, {}

    def get(self, dialect, text):
        key = (dialect, text)
        if key not in self.cache:
            with Tap(self.impl) as tap, warnings.catch_warnings():
                warnings.simplefilter("ignore")
                try:
                    r = self.impl.LineageRunner(text, dialect=dialect)
                    r.statements()
                    if len(tap.rec) != 1:
                        self.cache[key] = ("not-single", len(tap.rec))
                    else:
                        self.cache[key] = ("ok", tap.rec[0][1])
                except Exception as e:  # noqa
                    self.cache[key] = ("rejected", self.impl.err(e))
        return self.cache[key]


def lineage_case(impl, singles, dialect, script, texts, tsql_flag=False):
    """returns (status, detail): status in ok / rejected / differs"""
    holders = []
    for t in texts:
        st, h = singles.get(dialect, t)
        if st != "ok":
            return "rejected", f"statement alone: {st} {h}"
        holders.append(h)
    with Tap(impl) as tap, warnings.catch_warnings():
        warnings.simplefilter("ignore")
        try:
            if tsql_flag:
                with impl.Config(TSQL_NO_SEMICOLON=True):
                    r = impl.LineageRunner(script, dialect=dialect)
                    got = runner_view(r)
            else:
                r = impl.LineageRunner(script, dialect=dialect)
                got = runner_view(r)
        except Exception as e:  # noqa
            kind = impl.err(e)
            if kind in ("invalidSyntax", "unsupported"):
                return "rejected", f"script: {kind}"
            return "differs", {"script_raises": kind, "message": str(e)[:300]}
    want = holder_view(impl.SQLLineageHolder.of(impl.Dummy(), *holders))
    tapped = [t for t, _ in tap.rec]
    if len(tapped) != len(texts):
        return "differs", {"analysed": tapped, "expected_statements": texts}
    if tsql_flag and tapped != texts:
        return "differs", {"analysed": tapped, "expected_statements": texts}
    if got != want:
        return "differs", {"script": got, "per_statement": want}
    return "ok", got


def part_c(chk, impl, stmts, n_gen, singles):
    dialects = ["ansi", "mysql"] + (["sparksql", "bigquery", "postgres", "snowflake", "tsql"] if chk.tier == "thorough" else [])
    n_cases = 2500 if chk.tier == "thorough" else 120
    budget = (8 * 60) if chk.tier == "thorough" else 25
    t0 = time.time()
    rng = chk.rng
    short = [i for i, s in enumerate(stmts) if s.kind == "gen" or len(s.text) <= (1500 if chk.tier == "thorough" else 300)]
    stats = {"ok": 0, "rejected": {}, "by_dialect": {}, "nonempty_lineage": 0}
    for k in range(n_cases):
        if time.time() - t0 > budget:
            stats["stopped_by_budget_after"] = k
            break
        dialect = dialects[k % len(dialects)]
        # `#` line comments are lexed by mysql / bigquery only
        noise = [a for a in NOISE if a != "LH" or dialect in ("mysql", "bigquery")]
        n = rng.choice([1, 2, 3, 3, 4, 5])
        ids = []
        tries = 0
        while len(ids) < n and tries < 60:
            tries += 1
            sid = rng.choice(short) if rng.random() < 0.35 else rng.randrange(n_gen)
            if singles.get(dialect, stmts[sid].text)[0] == "ok":
                ids.append(sid)
        if len(ids) < n:
            continue
        items = []
        for j, sid in enumerate(ids):
            sep = [rng.choice(noise) for _ in range(rng.randint(0, 3))]
            if j < n - 1 and "S" not in sep:
                sep.insert(rng.randint(0, len(sep)), "S")
            items.append([sid, sep])
        case = {"lead": [rng.choice(noise) for _ in range(rng.choice([0, 0, 1, 2]))], "items": items}
        lead_f, items_f = case_forms(case, stmts)
        script, _ = assemble(lead_f, items_f)
        texts = [stmts[sid].text for sid in ids]
        st, detail = lineage_case(impl, singles, dialect, script, texts)
        stats["by_dialect"][dialect] = stats["by_dialect"].get(dialect, 0) + 1
        if st == "rejected":
            stats["rejected"][detail[:40]] = stats["rejected"].get(detail[:40], 0) + 1
            continue
        nonempty = st == "ok" and bool(detail["source"] or detail["target"] or detail["columns"])
        chk.count("lineage:" + dialect + ":" + script, n >= 2 and nonempty)
        if st == "ok":
            stats["ok"] += 1
            stats["nonempty_lineage"] += int(nonempty)
            if stats["ok"] % 60 == 1:
                chk.sample({"dialect": dialect, "script": script, "lineage": detail})
            continue
        # property fails on the implementation: shrink (drop statements / noise) and report

        def pred(c):
            lf, itf = case_forms(c, stmts)
            s2, _ = assemble(lf, itf)
            return lineage_case(impl, singles, dialect, s2, [stmts[sid].text for sid, _ in c["items"]])[0] == "differs"
        small = shrink_case(case, pred)
        lf, itf = case_forms(small, stmts)
        s2, _ = assemble(lf, itf)
        t2 = [stmts[sid].text for sid, _ in small["items"]]
        _, d2 = lineage_case(impl, singles, dialect, s2, t2)
        chk.violation("lineage of a script differs from the combination of its statements analysed alone",
                      {"kind": "lineage", "dialect": dialect, "script": s2, "statements": t2, "difference": d2})
        return stats
    return stats


# ------------------------------------------------------------------------------------------------ part D
def part_d(chk, impl, singles):
    n_cases = 600 if chk.tier == "thorough" else 40
    rng = chk.rng
    stats = {"ok": 0, "rejected": {}}
    usable = [t for t in TSQL_POOL if singles.get("tsql", t)[0] == "ok"]
    stats["tsql_pool_accepted"] = len(usable)
    if len(usable) < 3:
        raise Infra("tsql statement pool is not accepted by the parser")
    for k in range(n_cases):
        n = rng.choice([1, 2, 3, 4, 5])
        texts = [rng.choice(usable) for _ in range(n)]
        script = ""
        for j, t in enumerate(texts):
            script += t
            if j < n - 1:
                script += rng.choice(TSQL_SEPS)
        if rng.random() < 0.3:
            script = rng.choice(["\n", "-- lead;\n", "/* l; */\n"]) + script
        if rng.random() < 0.3:
            script += rng.choice(["\n", "\n-- tail;", "\n/* t; */\n"])
        st, detail = lineage_case(impl, singles, "tsql", script, texts, tsql_flag=True)
        if st == "rejected":
            stats["rejected"][detail[:40]] = stats["rejected"].get(detail[:40], 0) + 1
            continue
        chk.count("tsql:" + script, n >= 2)
        if st == "ok":
            stats["ok"] += 1
            if stats["ok"] % 40 == 1:
                chk.sample({"dialect": "tsql", "TSQL_NO_SEMICOLON": True, "script": script, "lineage": detail})
            continue
        # shrink: drop statements from the end / the front while it still differs
        cur = (script, texts)
        changed = True
        while changed and len(cur[1]) > 1:
            changed = False
            for drop in range(len(cur[1])):
                t2 = cur[1][:drop] + cur[1][drop + 1:]
                s2 = "\n".join(t2)
                if lineage_case(impl, singles, "tsql", s2, t2, tsql_flag=True)[0] == "differs":
                    cur = (s2, t2); changed = True; break
        _, d2 = lineage_case(impl, singles, "tsql", cur[0], cur[1], tsql_flag=True)
        chk.violation("T-SQL script without semicolons (TSQL_NO_SEMICOLON=True) is not analysed as the sequence of its "
                      "statements", {"kind": "tsql", "script": cur[0], "statements": cur[1], "difference": d2})
        return stats
    return stats


# ------------------------------------------------------------------------------------------------ replay / run
def replay(chk, obj):
    r = obj["replay"]
    impl = Impl()
    if r.get("kind") == "script":
        script, obs, fails = eval_script_obj(impl, r)
        print(json.dumps({"script": script, "observed": obs, "failures": fails}, indent=1, default=str))
        return 1 if fails else 0
    if r.get("kind") in ("lineage", "tsql"):
        singles = Singles(impl)
        st, d = lineage_case(impl, singles, r.get("dialect", "tsql"), r["script"], r["statements"],
                             tsql_flag=r["kind"] == "tsql")
        print(json.dumps({"status": st, "detail": d}, indent=1, default=str))
        return 1 if st == "differs" else 0
    print("replay file names no concrete input:", json.dumps(r, default=str)[:800])
    return 1


def run(chk):
    drv = Driver() if chk.lean.driver_ok else None
    if drv is None:
        chk.stale.append({"kind": "driver", "why": "model driver does not build"})
    impl = Impl()
    t0 = time.time()
    stmts = [Stmt(f, "gen") for f in GEN_POOL]
    n_gen = len(stmts)
    corpus_dist, whole = {}, []
    if drv is not None:
        strings = harvest(REPO)
        cstmts, whole, corpus_dist = corpus_statements(drv, strings)
        if chk.tier != "thorough":
            # quick: a seeded sample of the shorter corpus statements (all of them in the thorough tier)
            chk.rng.shuffle(cstmts)
            cstmts = [x for x in cstmts if len(x[1]) <= 700][:140] + [x for x in cstmts if len(x[1]) > 700][:10]
        stmts += [Stmt([["raw", t]], src) for src, t in cstmts]
    log(f"[c05] pool: {n_gen} generated + {len(stmts) - n_gen} corpus statements; corpus strings by class: {corpus_dist}")
    ab = part_ab(chk, drv, impl, stmts, n_gen)
    log(f"[c05] A/B done {time.time() - t0:.0f}s: {ab['cases']} scripts, outside class {ab['outside_class']}")
    nwhole = 0
    singles = Singles(impl)
    c = d = chars = {}
    if not chk.violations:
        nwhole = part_whole_corpus(chk, drv, impl, whole)
        chars = part_chars(chk, drv, impl)
        log(f"[c05] strings done {time.time() - t0:.0f}s: {chars}")
        c = part_c(chk, impl, stmts, n_gen, singles)
        log(f"[c05] C done {time.time() - t0:.0f}s: {c}")
    if not chk.violations:
        d = part_d(chk, impl, singles)
        log(f"[c05] D done {time.time() - t0:.0f}s: {d}")
    if chk.tier == "thorough" and chk.lean.build_ok:
        ok, out = leanchecker(["SqlLineage.Props.C05", "SqlLineage.Proofs.Split", "SqlLineage.Spec.Split",
                               "SqlLineage.Model.Split"])
        chk.coverage["leanchecker_ok"] = ok
        if not ok:
            raise Infra("leanchecker rejected the compiled C05 modules: " + out[-400:])
    chk.coverage.update({
        "exhaustive": True,
        "exhaustive_space": "E1 (2 statements x every separator of <=3/4 noise atoms containing `;`), E2 (1 statement x every "
                            "lead / every tail of <=3/4 noise atoms), every string of length <=4/5 over " + repr("".join(CHAR_ALPHA))
                            + "; the random parts and parts C/D are sampled",
        "scripts_split_vs_model_and_oracle": ab["cases"], "by_space": ab["by_space"],
        "statements_per_script": ab["statements_per_script"], "outside_class": ab["outside_class"],
        "corpus_strings_by_class": corpus_dist, "corpus_statements_in_pool": len(stmts) - n_gen,
        "corpus_statement_occurrences": ab["corpus_statements_used"], "whole_corpus_strings_vs_model": nwhole,
        "raw_strings_vs_model": chars, "script_vs_per_statement": c, "tsql_no_semicolon": d,
        "noise_atoms": {k: render_forms(v) for k, v in ATOMS.items()},
        "generated_pool": [s.text for s in stmts[:n_gen]],
    })
    chk.assumptions += [
        "sqlparse 0.6.0 lexer / StatementSplitter and sqlfluff's lexer/parser are modelled (observed), not verified",
        "class level0: printable ASCII + TAB + LF without $ \\ [ ; terminated literals/comments; no comment opener directly "
        "behind an operator character (or `# ` behind a word character); no hint comments; no BEGIN / DECLARE / upper-case GO; "
        "#( <= #) at every `;`",
        "per-statement analysis is insensitive to attached comments / blanks / the trailing `;` (property C07) — used as a "
        "hypothesis of script_eq_statements_partial, exercised by part C",
        "the metadata provider is falsy (DummyMetaDataProvider without metadata)",
    ]
    return chk.finish(
        level="proof",
        rule="A/B: scripts assembled from 1-5 statements (generated pool + corpus statements accepted by level0) and noise "
             "atoms; bounded-exhaustive spaces E1/E2, then seeded random; each script: helpers.split, tapped _eval texts, "
             "statements(), count vs Lean model AND vs the assembly-known answer. C: script vs SQLLineageHolder.of over "
             "statements analysed alone (table + column lineage). D: the same under TSQL_NO_SEMICOLON with line-break "
             "separators. non-trivial = >= 2 statements or a `;` hidden in a literal/comment (A/B), >= 2 statements with "
             "non-empty lineage (C), >= 2 statements (D); distinct by script text (+ dialect)",
        trusted_base=["Lean 4.33 kernel", "axioms: propext, Classical.choice, Quot.sound",
                      "tools/translate.py (Gen/Config.lean: TSQL_NO_SEMICOLON key)",
                      "harness/c05.py correspondence (statement tap on SqlFluffLineageAnalyzer.analyze) and assembly oracle",
                      "modelled, not verified: sqlparse lexer/splitter/format(strip_comments), sqlfluff tsql batch parsing"],
    )
