"""C08 — lineage is invariant under renaming of statement-local names.

Metamorphic check.  For every generated statement with at least one local name (table alias, derived-table alias, CTE name)
and for K operations on it — consistent renamings from an adversarial pool, adding an alias, dropping an alias, toggling the
optional AS keyword — the renamed AST is produced by the LEAN engine (`Model/Rename.lean` through the driver command `rename`:
one definition of "consistent renaming with correct scoping", the one the theorems of `Props/C08.lean` are about), rendered by
Lean, and both texts go through the real LineageRunner under each dialect.

Oracle (does not use the model): implementation(original) vs implementation(renamed) — source / target / intermediate tables
equal, end-to-end column pairs equal.  A renamed local name can itself be an endpoint (a chain that stops at a subquery column);
such names are mapped back through the (injective) renaming before comparing; `subquery_<hash>` names are masked.
Tolerated: the hash-order class of an unqualified `*` over several relations (the same tolerance as `c02.agrees_modulo_order`,
applied only to statements that contain an unqualified `*`).

Correspondence: the model's verdict on the same pair (model(original) vs model(renamed)) must equal the implementation's, and
on the renamed text implementation = model wherever it is on the original text (a difference on the ORIGINAL text is C02's
business and only counted here).

Known finding D7 (alias renamed to the bare name of another table of the statement): while it is listed with status `finding`
a non-invariant pair of that class on which implementation = model is counted as KNOWN-FINDING; once listed `fixed` those
pairs are ordinary cases.
"""
import collections
import copy
import json
import re

import gensql
import sqlcheck
import sqlimpl
import c02
from common import Check, Driver, Infra, canon_json, leanchecker, log

# ------------------------------------------------------------------------------------------------- the adversarial pool
FRESH = ["n1", "n2", "n3", "zz9", "w_1", "rel0", "inner1", "o2"]
MIXED = ["Nx1", "ALIAS_Z", "cTe9", "QQ", "My_Rel"]
# quoted identifiers with upper-case letters (the quotes go, the case stays): only under dialects whose identifier quote is `"`
QUOTED = ['"Ab"', '"Qx1"', '"MyRel"', '"N2x"']
DQUOTE_DIALECTS = ["ansi", "postgres", "snowflake", "redshift", "oracle", "trino", "duckdb", "db2", "exasol", "teradata", "vertica"]
COLNAMES = list(gensql.COLS) + ["e", "f", "g", "k0", "p"]          # column names and select-item aliases the generators use
# keywords sqlfluff's dialects do not reserve everywhere; whether a dialect takes one as an identifier is tested, a
# rejection is a rejection.  Join keywords (left, right, inner, cross, full, natural, on, using …) are NOT in the pool: a
# text like `from t1 left join t2` is another statement, not a renamed one.
KEYWORDS = ["key", "value", "date", "user", "type", "name", "data", "row", "first", "level", "zone", "year", "month", "day",
            "timestamp", "time", "index", "comment", "id", "rank"]
OTHER_TABLES = ["t1", "t2", "t3", "t4", "t5", "tgt", "out1", "s1", "s2"]   # bare names the generators use for tables / schemas


def norm(n):
    """printed form of a local name: quotes stripped and case kept when quoted, lower-cased otherwise"""
    if len(n) > 1 and n[0] == n[-1] == '"':
        return n[1:-1]
    return n.lower()


def draw_names(rng, k, names, avoid):
    """k distinct (after normalisation) new names, mixing the categories; `names` = the statement's names by kind"""
    cats = [("fresh", FRESH), ("mixed", MIXED), ("column", COLNAMES), ("keyword", KEYWORDS),
            ("own-table", names["base"] or OTHER_TABLES), ("other-table", OTHER_TABLES), ("quoted", QUOTED)]
    weights = [3, 2, 2, 2, 3, 1, 2]
    out, used, kinds = [], set(avoid), []
    tries = 0
    while len(out) < k and tries < 200:
        tries += 1
        cat, pool = rng.choices(cats, weights)[0]
        n = rng.choice(pool)
        if norm(n) in used:
            continue
        used.add(norm(n)); out.append(n); kinds.append(cat)
    while len(out) < k:
        n = f"nn{len(out)}x"
        out.append(n); kinds.append("fresh")
    return out, kinds


def make_ops(rng, names, k):
    """k operation requests (without the statement) for a statement with the given names"""
    local = list(dict.fromkeys(names["ctes"] + names["aliases"]))
    ops = []
    seen = set()
    tries = 0
    while len(ops) < k and tries < 12 * k:
        tries += 1
        r = rng.random()
        if r < 0.70 and local:
            # rename: all local names, or a random non-empty subset
            olds = list(local) if rng.random() < 0.5 else rng.sample(local, rng.randrange(1, len(local) + 1))
            news, kinds = draw_names(rng, len(olds), names, avoid=[])
            op = {"op": "rename", "subst": [[o, n] for o, n in zip(olds, news)], "kinds": kinds}
        elif r < 0.80 and names["unaliased"]:
            olds = rng.sample(names["unaliased"], rng.randrange(1, len(names["unaliased"]) + 1))
            news, kinds = draw_names(rng, len(olds), names, avoid=[])
            op = {"op": "add", "subst": [[o, n] for o, n in zip(olds, news)], "kinds": kinds}
        elif r < 0.90 and names["table_aliases"]:
            ds = rng.sample(names["table_aliases"], rng.randrange(1, len(names["table_aliases"]) + 1))
            op = {"op": "drop", "names": ds, "kinds": ["drop"]}
        else:
            op = {"op": "toggle", "kinds": ["toggle"]}
        key = canon_json({x: op.get(x) for x in ("op", "subst", "names")})
        if key in seen:
            continue
        seen.add(key)
        ops.append(op)
    return ops


def d7_ops(rng, names):
    """targeted D7-class renamings: one alias gets the bare name of a table of the statement"""
    out = []
    als = names["aliases"]
    for b in names["base"]:
        for a in als:
            if a != b:
                out.append({"op": "rename", "subst": [[a, b]], "kinds": ["own-table"]})
    rng.shuffle(out)
    return out


# ------------------------------------------------------------------------------------------------- comparison
def back_map(op):
    """new local name (normalised) -> old name, to undo the renaming on printed endpoint names"""
    m = {}
    if op["op"] in ("rename", "add"):
        for o, n in op["subst"]:
            m[norm(n)] = norm(o)
    return m


_PLAIN = re.compile(r"^[A-Za-z0-9_$#@*]+$")
_QUAL = re.compile(r"(?:\"[^\"]+\"|`[^`]+`|[A-Za-z_][A-Za-z0-9_$#]*)\.(?=[A-Za-z_*\"`])")


def mask_expr_name(e, tables):
    """the display name of an un-aliased expression is its text (exempt from the property, DESIGN §7): inside such a name the
    qualifiers are dropped.  `tables`: printed names of the tables of the result, to split owner from column name."""
    for t in sorted(tables, key=len, reverse=True):
        if e.startswith(t + "."):
            name = e[len(t) + 1:]
            if not _PLAIN.match(name):
                return t + "." + _QUAL.sub("", name)
            return e
    return e


def map_endpoint(e, bm):
    # a column prints as <parent>.<column>; tables print as schema.table (dotted parent), subqueries / CTEs as their bare
    # alias: only an undotted parent can be a statement-local name
    if bm and e.count(".") == 1:
        p, c = e.split(".")
        if p in bm:
            return bm[p] + "." + c
    return e


def pairs_of(paths, bm=None):
    return sorted({(map_endpoint(p[0], bm), map_endpoint(p[-1], bm)) for p in paths})


def summary(res, bm=None):
    """what the property compares: tables and end-to-end pairs; errors as a small enum"""
    if res is None:
        return None
    if "error" in res:
        return {"error": res["error"]}
    tabs = set(res["source"]) | set(res["target"]) | set(res["intermediate"])
    pairs = sorted({(mask_expr_name(a, tabs), mask_expr_name(b, tabs)) for a, b in pairs_of(res["paths"], bm)})
    return {"tables": {k: res[k] for k in ("source", "target", "intermediate")}, "pairs": pairs}


def impl_res(i):
    if "rejected" in i:
        return None
    if "result" in i:
        return i["result"]
    return {"error": i["error"]}


def model_res(a):
    o = a["out"]
    if "error" in o:
        return {"error": o["error"].split(":")[0]}
    r = o["result"]
    return {"source": sorted(r["source"]), "target": sorted(r["target"]), "intermediate": sorted(r["intermediate"]),
            "paths": sorted(r["paths"])}


def has_unqualified_star(stmt):
    return any(isinstance(n, list) and len(n) == 2 and n[0] == "star" and n[1] == [] for n in gensql._walk(stmt))


def ambiguous_targets(drv, stmt, cache):
    k = canon_json(stmt)
    if k not in cache:
        outs, _ = c02.star_outcomes(drv, stmt, n=24)
        cache[k] = c02.ambiguous_targets(outs) if len(outs) > 1 else set()
    return cache[k]


def same_modulo_star(drv, s0, s1, a, b, cache):
    """a, b: summaries.  Equal, or equal on every target column whose sources do not depend on the iteration order of the
    relations an unqualified `*` ranges over (only for statements that contain such a star)."""
    if a == b:
        return True
    if "error" in a or "error" in b or a["tables"] != b["tables"]:
        return False
    if not has_unqualified_star(s0):
        return False
    amb = ambiguous_targets(drv, s0, cache) | ambiguous_targets(drv, s1, cache)
    if not amb:
        return False
    f = lambda ps: [p for p in ps if p[1] not in amb]
    return f(a["pairs"]) == f(b["pairs"])


def subquery_capture_explains(stmt, op, s0, s1):
    """model-free description of the listed finding D2-alias-capture: the statement has a subquery inside a select item, the
    tables agree, and the only difference is that source columns the item subquery reads from a table whose BARE name is a new
    alias (reported as <default>.<name>.<col>: `_get_column_from_subquery` keeps only the bare table name and re-resolves it in
    the enclosing scope) are now attributed to the relation carrying that alias"""
    if not gensql.item_has_subq(stmt) or "error" in s0 or "error" in s1 or s0["tables"] != s1["tables"]:
        return False
    news = {norm(n) for _, n in op.get("subst", [])}
    a, b = {tuple(p) for p in s0["pairs"]}, {tuple(p) for p in s1["pairs"]}
    removed, added = a - b, b - a
    if not removed:
        # nothing went away, sources were ADDED: the captured reference now also reaches what the relation carrying the alias reads
        # (a derived table over a UNION); same targets, the old pairs all kept
        return bool(added) and {t for _, t in added} <= {t for _, t in a}
    for src, _ in removed:
        parts = src.split(".")
        if len(parts) != 3 or parts[1] not in news:
            return False
    col = lambda e: e.rsplit(".", 1)[-1]
    if not added:
        # the captured column resolves (through the relation now carrying the alias) to a source the target already had
        return all(any(t2 == t for _, t2 in b) for _, t in removed)
    return {(col(s), t) for s, t in removed} == {(col(s), t) for s, t in added}


def subquery_keyword_explains(stmt, op, s0, s1):
    """model-free description of the listed finding D2-keyword-alias: the statement has a subquery inside a select item, a new
    name is a keyword, and the only difference is that source columns are now owned by a table called like that keyword
    (<default>.<keyword>): the sqlparse re-analysis of the item subquery did not read the keyword as an alias"""
    if not gensql.item_has_subq(stmt) or "keyword" not in op.get("kinds", []) or not owner_only_difference(s0, s1):
        return False
    kws = {norm(n) for (_, n), k in zip(op.get("subst", []), op["kinds"]) if k == "keyword"}
    added = {tuple(p) for p in s1["pairs"]} - {tuple(p) for p in s0["pairs"]}
    if not added:
        return False
    for src, _ in added:
        parts = src.split(".")
        if len(parts) != 3 or parts[1] not in kws:
            return False
    return True


def alias_leak_shape(stmt):
    """finding D9-alias-leak: a derived table whose query JOINs a relation under an alias that the ENCLOSING FROM clause also uses
    (the same name at two nesting levels).  `list_join_clause` crawls into derived tables, so the inner alias is a candidate in the
    outer scope too; which of the two a qualifier denotes then depends on the spelling."""
    def aliases_of_from(frm, joins_only=False):
        out = set()
        for fe in frm:
            els = ([] if joins_only else [fe[0]]) + [j[1] for j in fe[1]]
            for el in els:
                if isinstance(el, list) and el and el[0] in ("table", "derived") and el[2]:
                    out.add(norm(el[2]))
        return out
    for n in gensql._walk(stmt):
        if isinstance(n, list) and len(n) == 7 and n[0] == "select":
            outer = aliases_of_from(n[3])
            for fe in n[3]:
                for el in [fe[0]] + [j[1] for j in fe[1]]:
                    if isinstance(el, list) and el and el[0] == "derived":
                        for m in gensql._walk(el[1]):
                            if isinstance(m, list) and len(m) == 7 and m[0] == "select" and aliases_of_from(m[3], joins_only=True) & outer:
                                return True
    return False


def subquery_keyword_error(stmt, op, s0, s1):
    """model-free description of the listed finding D2-keyword-error: a select-item subquery, a new name that is a keyword, the
    original analysed without error and the renamed text refused with the library's own lineage error"""
    return (gensql.item_has_subq(stmt) and "keyword" in op.get("kinds", []) and "error" not in s0 and s1 == {"error": "lineage"})


def owner_only_difference(s0, s1):
    if "error" in s0 or "error" in s1 or s0["tables"] != s1["tables"]:
        return False
    col = lambda e: e.rsplit(".", 1)[-1]
    return sorted({(col(s), t) for s, t in map(tuple, s0["pairs"])}) == sorted({(col(s), t) for s, t in map(tuple, s1["pairs"])})


# ------------------------------------------------------------------------------------------------- cases
def gen_statements(chk):
    out = []
    thorough = chk.tier == "thorough"
    shapes = list(gensql.enumerate_shapes(2 if thorough else 1))
    chk.rng.shuffle(shapes)
    n_shapes = 120 if thorough else 50
    picked = 0
    for name, s in shapes:
        if picked >= n_shapes:
            break
        # keep the shapes that have something to rename
        if any(isinstance(n, list) and n and n[0] in ("derived", "with") for n in gensql._walk(s)) or \
                any(isinstance(n, list) and len(n) == 4 and n[0] == "table" and n[2] for n in gensql._walk(s)):
            out.append((name, s)); picked += 1
    n_rand = 330 if thorough else 120
    R = gensql.Rand(chk.rng, max_depth=3 if thorough else 2, allow={"subq_item": False})
    i = 0
    guard = 0
    while i < n_rand and guard < 20 * n_rand:
        guard += 1
        d = chk.rng.choice([1, 2, 2, 3]) if thorough else chk.rng.choice([1, 2, 2])
        s = R.stmt(d)
        if s[0] == "query" and chk.rng.random() < 0.7:
            continue      # column lineage needs a target; keep a few bare queries for the table half
        out.append((f"rand-{i}", s)); i += 1
    return out


def evaluate_pair(drv, stmt, op, dialect):
    """(original result, renamed result, driver answer) on the implementation, for shrinking / replay"""
    req = {"cmd": "rename", "stmt": stmt}
    req.update({k: op[k] for k in ("op", "subst", "names") if k in op})
    a = drv.ask1(req)
    if "error" in a and "sql" not in a:
        raise Infra("driver rename: " + a["error"])
    i0 = sqlimpl.run_case({"sql": a["orig_sql"], "dialect": dialect, "want": ("tables", "columns")})
    i1 = sqlimpl.run_case({"sql": a["sql"], "dialect": dialect, "want": ("tables", "columns")})
    return impl_res(i0), impl_res(i1), a


def has_using(stmt):
    return any(isinstance(n, list) and len(n) == 4 and isinstance(n[0], str) and n[0].endswith("join") and n[3] for n in gensql._walk(stmt))


# dialects that do not read `JOIN r USING (c)` as a join with a column list (tsql: `using` becomes the alias of r; clickhouse: the
# list swallows what follows) — the text is another statement there (C09 `noncore` rules): such pairs are left out and counted
USING_NONCORE = ("tsql", "clickhouse")


def exposed_clash(stmt):
    """some FROM clause exposes one name twice (alias, or the bare name of an un-aliased table): the names CLASH — most engines
    refuse the statement — so the pair is outside the property's quantifier ("fresh, non-clashing names").  sqllineage cannot
    tell `t1 as t1` from `t1`, so after the D7 repair (an explicit alias wins over a bare name) this is the only place where
    a bare name can still capture an alias."""
    for n in gensql._walk(stmt):
        if isinstance(n, list) and len(n) == 7 and n[0] == "select":
            seen = set()
            for fe in n[3]:
                for el in [fe[0]] + [j[1] for j in fe[1]]:
                    if not (isinstance(el, list) and el and el[0] in ("table", "derived")):
                        continue
                    name = el[2] if el[2] else (el[1][-1] if el[0] == "table" else None)
                    if name is None:
                        continue
                    if norm(name) in seen:
                        return True
                    seen.add(norm(name))
    return False


def verdict_class(a, op):
    """which pairs are inside the property's quantifier (the operation's side condition as decided by Lean), and whether the
    pair touches the D7 shape: `d7` = either statement has an alias (written or default) equal to the bare name of a table"""
    if op["op"] == "rename":
        if not (a["ok"] or (a["loose"] and a["d7"])):
            return None
    elif not a["ok"]:
        return None
    if exposed_clash(a["stmt"]):
        # the text after the operation exposes one name twice in a FROM clause (e.g. the same new alias added to two tables that
        # share a bare name): clashing names, outside the quantifier
        return None
    return "d7" if (a.get("d7_shape") or a.get("d7")) else ("fresh" if op["op"] == "rename" else "ok")


def classify(drv, stmt, op, a, x0, x1, mm0, mm1, cache, listed):
    """one pair -> ('rejected' | 'invariant' | 'known:<id>' | 'fail', details).  x0/x1: implementation results, mm0/mm1: model
    results (None = ask the driver), listed: ids of the findings listed for C08 with status `finding`."""
    if x0 is None or x1 is None:
        return "rejected", {}
    cls = verdict_class(a, op)
    bm = back_map(op)
    s0, s1 = summary(x0), summary(x1, bm)
    det = {"s0": s0, "s1": s1, "cls": cls}
    impl_inv = same_modulo_star(drv, stmt, a["stmt"], s0, s1, cache)
    model_applies = not gensql.item_has_subq(stmt)
    det["model_applies"] = model_applies
    if model_applies:
        if mm0 is None:
            mm0 = model_res(sqlcheck.model_eval(drv, [[stmt]])[0])
        if mm1 is None:
            mm1 = model_res(sqlcheck.model_eval(drv, [[a["stmt"]]])[0])
        ms0, ms1 = summary(mm0), summary(mm1, bm)
        det.update({"ms0": ms0, "ms1": ms1, "model_inv": same_modulo_star(drv, stmt, a["stmt"], ms0, ms1, cache)})
    if impl_inv:
        return "invariant", det
    if cls == "d7" and "D7" in listed and model_applies and s0 == det["ms0"]:
        # the finding is identified by its class AND implementation = model on both texts
        if not det["model_inv"] and s1 == det["ms1"]:
            return "known:D7", det
        return "fail", det
    if cls == "d7" and "D2-alias-capture" in listed and subquery_capture_explains(stmt, op, s0, s1):
        return "known:D2-alias-capture", det
    if "D2-keyword-alias" in listed and subquery_keyword_explains(stmt, op, s0, s1):
        return "known:D2-keyword-alias", det
    if "D2-keyword-error" in listed and subquery_keyword_error(stmt, op, s0, s1):
        return "known:D2-keyword-error", det
    if "D9-alias-leak" in listed and "error" not in s0 and "error" not in s1 and s0["tables"] == s1["tables"] and \
            (alias_leak_shape(stmt) or alias_leak_shape(a["stmt"])):
        return "known:D9-alias-leak", det
    if cls == "d7" and "D7" in listed and owner_only_difference(s0, s1):
        # the model does not describe this case — a select-item subquery (`_get_column_from_subquery`), or a dialect that reads
        # the ORIGINAL text differently from the typed AST: D7 is then recognised by its model-free signature — same tables,
        # same (column, target) pairs, only the OWNER of some source columns differs
        return "known:D7", det
    return "fail", det


def property_fails(drv, stmt, op, dialect, want_class, cache, listed):
    """shrinking predicate: the pair is still inside the quantifier, still of the same class, still fails, and has not become
    an instance of a listed finding"""
    x0, x1, a = evaluate_pair(drv, stmt, op, dialect)
    if x0 is None or x1 is None or not a["changed"]:
        return False
    if verdict_class(a, op) is None:
        return False
    return classify(drv, stmt, op, a, x0, x1, None, None, cache, listed)[0] == "fail"


def shape_of(sql, dialect):
    """normalised parse-tree shape (segment types, no raw text) — used to tell 'the dialect reads the keyword as an
    identifier' from 'the text now means something else'"""
    from sqlfluff.core import Linter
    try:
        parsed = Linter(dialect=dialect).parse_string(sql)
        tree = parsed.tree

        def go(seg):
            if seg.is_type("whitespace", "newline", "comment", "inline_comment", "block_comment", "keyword") or seg.is_meta:
                return None
            kids = [k for k in (go(s) for s in seg.segments) if k is not None]
            if seg.segments and not kids:
                return None        # a wrapper of keywords only (alias_operator around AS)
            return [seg.type] + kids
        return go(tree)
    except Exception as e:     # noqa
        return ["<error>", type(e).__name__]


def reuse_families():
    """statements with two local names A1, A2 that live in DISJOINT scopes (sibling derived tables, CTE bodies, set-operation
    branches, a nested subquery that does not mention the outer name): giving both the same name is a non-clashing renaming, the
    lineage must not change.  Returns [(family, builder(A1, A2) -> statement AST)]."""
    g = gensql
    ins = lambda q: ["insert", "into", False, ["tgt"], None, q, False]
    t = lambda n, al: g.table(n, None, al)
    fam = []
    fam.append(("sibling-derived-over-derived", lambda a1, a2: ins(g.select(
        [g.item(g.col("c1", "l")), g.item(g.col("c2", "r"))],
        [g.from_expr(g.derived(g.select([g.item(g.col("x", a1), "c1")],
                                        [g.from_expr(g.derived(g.select([g.item(g.col("x"))], [g.from_expr(t("t1", None))]), a1))]), "l"),
                     [g.join(g.derived(g.select([g.item(g.col("x", a2), "c2")],
                                                [g.from_expr(g.derived(g.select([g.item(g.col("x"))], [g.from_expr(t("t2", None))]), a2))]), "r"),
                             g.eq(g.col("c1", "l"), g.col("c2", "r")))])]))))
    fam.append(("sibling-derived-over-tables", lambda a1, a2: ins(g.select(
        [g.item(g.col("a", "l")), g.item(g.col("b", "r"))],
        [g.from_expr(g.derived(g.select([g.item(g.col("a", a1))], [g.from_expr(t("t1", a1))]), "l"),
                     [g.join(g.derived(g.select([g.item(g.col("b", a2))], [g.from_expr(t("t2", a2))]), "r"),
                             g.eq(g.col("a", "l"), g.col("b", "r")))])]))))
    fam.append(("outer-alias-reused-in-nested-subquery", lambda a1, a2: ins(g.select(
        [g.item(g.col("x", a1), "c1"), g.item(g.col("y", "b"), "c2")],
        [g.from_expr(g.derived(g.select([g.item(g.col("x"))], [g.from_expr(t("t1", None))]), a1),
                     [g.join(g.derived(g.select([g.item(g.col("x", a2), "y")],
                                                [g.from_expr(g.derived(g.select([g.item(g.col("x"))], [g.from_expr(t("t2", None))]), a2))]), "b"),
                             g.eq(g.col("x", a1), g.col("y", "b")))])]))))
    fam.append(("cte-bodies", lambda a1, a2: ins(g.with_(
        [("c1", g.select([g.item(g.col("a", a1))], [g.from_expr(t("t1", a1))])),
         ("c2", g.select([g.item(g.col("b", a2))], [g.from_expr(t("t2", a2))]))],
        g.select([g.item(g.col("a", "c1")), g.item(g.col("b", "c2"))],
                 [g.from_expr(t("c1", None), [g.join(t("c2", None), g.eq(g.col("a", "c1"), g.col("b", "c2")))])]))))) 
    fam.append(("setop-branches", lambda a1, a2: ins(g.setop(
        (g.select([g.item(g.col("a", a1))], [g.from_expr(t("t1", a1))]), False),
        [("union all", (g.select([g.item(g.col("a", a2))], [g.from_expr(t("t2", a2))]), False))]))))
    fam.append(("where-subquery", lambda a1, a2: ins(g.select(
        [g.item(g.col("a", a1))], [g.from_expr(t("t1", a1))],
        wh=["in", g.col("b", a1), False, g.select([g.item(g.col("c", a2))], [g.from_expr(t("t3", a2))])]))))
    return fam


def check_reuse(chk, drv, st, dialects):
    """scope-disjoint reuse of one local name: implementation(A1 != A2) vs implementation(A1 = A2), model not consulted"""
    fams = reuse_families()
    names = [("q1", "q2", "q"), ("x", "y", "x"), ("Nx1", "n2", "nx1"), ("l0", "r0", "t9")]
    if chk.tier == "thorough":
        names += [(a, b, c) for a, b, c in zip(FRESH, FRESH[1:], MIXED)]
    builds = [(f, fn, nm) for f, fn in fams for nm in names]
    ans = sqlcheck.model_eval(drv, [[fn(nm[0], nm[1])] for _, fn, nm in builds] + [[fn(nm[2], nm[2])] for _, fn, nm in builds])
    n = len(builds)
    jobs = [(bi, d) for bi in range(n) for d in dialects]
    r0 = sqlimpl.run_cases([{"sql": ans[bi]["sql"][0], "dialect": d, "want": ("tables", "columns")} for bi, d in jobs], chunksize=8)
    r1 = sqlimpl.run_cases([{"sql": ans[n + bi]["sql"][0], "dialect": d, "want": ("tables", "columns")} for bi, d in jobs], chunksize=8)
    reported = set()
    for (bi, d), i0, i1 in zip(jobs, r0, r1):
        f, fn, nm = builds[bi]
        x0, x1 = impl_res(i0), impl_res(i1)
        if x0 is None or x1 is None:
            st.reject[d] += 1
            continue
        s0, s1 = summary(x0), summary(x1)
        chk.count(canon_json([ans[bi]["sql"][0], ans[n + bi]["sql"][0], d]), "error" not in s0 and bool(s0.get("pairs")))
        st.c["reuse:" + f] += 1
        if s0 == s1:
            st.c["reuse:invariant"] += 1
            continue
        st.c["reuse:not-invariant"] += 1
        if f not in reported:
            reported.add(f)
            chk.violation("lineage changes when two local names of disjoint scopes are given the same (non-clashing) name",
                          {"kind": "c08-reuse", "family": f, "names": list(nm), "dialect": d, "sql": ans[bi]["sql"][0],
                           "renamed_sql": ans[n + bi]["sql"][0], "impl_original": s0, "impl_renamed": s1})


WITNESS_D7 = {
    "ast": ["insert", "into", False, ["tgt"], None,
            ["select", False, [[["col", ["q1"], "x"], None, False]],
             [[["table", ["sch1", "foo"], "q1", False],
               [["join", ["table", ["sch2", "tab"], "t9", False], ["bin", "=", ["col", ["q1"], "k"], ["col", ["t9"], "k"]], []]]]],
             None, [], None], False],
    "op": {"op": "rename", "subst": [["q1", "tab"]], "kinds": ["own-table"]},
    "dialect": "ansi",
}


DEFAULT_SCHEMA_TEMPLATES = [
    "insert into tgt with {c} as (select a, b from src) select {a}.a, {a}.b from {c} {a}",
    "insert into tgt with {c} as (select a, b from src) select a, b from {c}",
    "insert into tgt select {d}.x from (select {a}.x from s1 {a}) {d}",
    "with {c} as (select k from t1), {c}_2 as (select k from {c}) insert into out1 select k from {c}_2",
    "create table made as with {c} as (select p.k, q.v from t1 p join t2 q on p.k = q.k) select {a}.k, {a}.v from {c} as {a}",
    "update tgt set c = {a}.d from src {a}",
]
DEFAULT_SCHEMA_NAMES = [{"c": "cte1", "a": "x", "d": "dt"}, {"c": "zzfresh", "a": "y9", "d": "q7"}, {"c": "w_orders", "a": "o", "d": "sub"}]


def part_default_schema(chk, st):
    """the renaming families under a configured DEFAULT_SCHEMA (scoped override): statement-local names (CTE names, table aliases,
    derived-table aliases) renamed consistently to fresh names must leave tables and end-to-end pairs unchanged ALSO when a default
    schema is set - a lookup of local names that consults the schema of the parsed table only shows there (seeded change C08-5).
    Implementation against itself; the default-schema-free twin of every text is part of the comparison."""
    jobs = []
    for ti, t in enumerate(DEFAULT_SCHEMA_TEMPLATES):
        for ni, names in enumerate(DEFAULT_SCHEMA_NAMES):
            for ds in (None, "zq9"):
                for d in ("ansi", "non-validating"):
                    if d == "non-validating" and t.startswith("update"):
                        continue
                    jobs.append((ti, ni, ds, d, t.format(**names)))
    res = sqlimpl.run_cases([{"sql": sql, "dialect": d, "default_schema": ds, "want": ("tables", "columns")} for _, _, ds, d, sql in jobs],
                            chunksize=8)
    by = {}
    for (ti, ni, ds, d, sql), r in zip(jobs, res):
        by[(ti, ni, ds, d)] = (sql, summary(impl_res(r)))
    n = 0
    for (ti, ni, ds, d), (sql, s1) in sorted(by.items(), key=lambda kv: (kv[0][0], kv[0][1], str(kv[0][2]), kv[0][3])):
        if ni == 0:
            continue
        sql0, s0 = by[(ti, 0, ds, d)]
        if s0 is None or s1 is None:
            st.reject[d] += 1
            continue
        n += 1
        chk.count("default-schema:" + canon_json([sql0, sql, ds, d]), bool(s0.get("pairs")))
        if s0 != s1:
            chk.violation(f"lineage changes when statement-local names are renamed to fresh names under DEFAULT_SCHEMA={ds!r}",
                          {"kind": "default-schema-pair", "sql": sql0, "renamed": sql, "dialect": d, "default_schema": ds,
                           "impl": [s0, s1]})
            return n
    return n


def run(chk):
    if not chk.lean.driver_ok:
        chk.stale.append({"kind": "driver", "why": "model driver does not build"})
        return chk.finish(level="proof", rule="driver unavailable")
    drv = Driver()
    _st0 = sqlcheck.Stats()
    chk.coverage["default_schema_pairs"] = part_default_schema(chk, _st0)
    if chk.violations:
        sqlimpl.close_pool()
        return chk.finish(level="proof", rule="renaming under a default schema", trusted_base=["harness/c08.py"])
    thorough = chk.tier == "thorough"
    base_dialects = list(sqlcheck.QUICK_DIALECTS)
    extra_dialects = [d for d in sqlcheck.all_dialects() if d not in base_dialects] if thorough else []
    K = 10 if thorough else 3
    d7_entry = next((e for e in chk.findings if e.get("id") == "D7"), None)
    d7_listed = bool(d7_entry and d7_entry.get("status") == "finding")
    listed = {e["id"] for e in chk.findings if e.get("status") == "finding"}
    known_hits = collections.Counter()
    cache = {}
    st = sqlcheck.Stats()

    # ---- statements and operations
    stmts = gen_statements(chk)
    nm = drv.ask([{"cmd": "renamenames", "stmt": s} for _, s in stmts])
    for a in nm:
        if "error" in a:
            raise Infra("driver renamenames: " + a["error"])
    cases = []          # (stmt index, op)
    for si, ((name, s), names) in enumerate(zip(stmts, nm)):
        if not (names["ctes"] or names["aliases"] or names["unaliased"]):
            continue
        ops = make_ops(chk.rng, names, K)
        # one targeted D7-class renaming per statement that allows one (quick: every third statement)
        if names["aliases"] and (thorough or si % 3 == 0):
            ops += d7_ops(chk.rng, names)[:1]
        for op in ops:
            cases.append((si, op))
    cases.append((None, WITNESS_D7["op"]))          # the stored witness of D7 is always a case
    reqs = []
    for si, op in cases:
        r = {"cmd": "rename", "stmt": stmts[si][1] if si is not None else WITNESS_D7["ast"]}
        r.update({k: op[k] for k in ("op", "subst", "names") if k in op})
        reqs.append(r)
    ren = drv.ask(reqs)
    for a in ren:
        if "error" in a and "sql" not in a:
            raise Infra("driver rename: " + a["error"])
    keep = []
    for (si, op), a in zip(cases, ren):
        cls = verdict_class(a, op)
        if cls is None:
            st.c["skipped:side-condition-false(" + op["op"] + ")"] += 1
            continue
        if not a["changed"]:
            st.c["skipped:unchanged-text"] += 1
            continue
        keep.append((si, op, a, cls))
    # ---- model on both sides
    m0 = {}
    used = sorted({si for si, _, _, _ in keep if si is not None})
    ans = sqlcheck.model_eval(drv, [[stmts[si][1]] for si in used])
    for si, a in zip(used, ans):
        m0[si] = a
    m0[None] = sqlcheck.model_eval(drv, [[WITNESS_D7["ast"]]])[0]
    m1 = sqlcheck.model_eval(drv, [[a["stmt"]] for _, _, a, _ in keep])
    # ---- implementation on both sides
    jobs0, jobs1 = {}, []
    for ci, (si, op, a, cls) in enumerate(keep):
        ds = list(base_dialects)
        if extra_dialects:
            ds += [extra_dialects[ci % len(extra_dialects)]]      # every other sqlfluff dialect in rotation
        if si is None:
            ds = [WITNESS_D7["dialect"]]
        if "quoted" in op["kinds"]:
            ds = [d for d in ds if d in DQUOTE_DIALECTS]
        if si is not None and has_using(stmts[si][1]):
            st.c["left-out:USING-under-noncore-dialect"] += sum(1 for d in ds if d in USING_NONCORE)
            ds = [d for d in ds if d not in USING_NONCORE]
        for d in ds:
            jobs0.setdefault((si, d), a["orig_sql"])
            jobs1.append((ci, d))
    k0 = sorted(jobs0, key=lambda x: (-1 if x[0] is None else x[0], x[1]))
    r0 = sqlimpl.run_cases([{"sql": jobs0[k], "dialect": k[1], "want": ("tables", "columns")} for k in k0], chunksize=8)
    impl0 = {k: impl_res(r) for k, r in zip(k0, r0)}
    r1 = sqlimpl.run_cases([{"sql": keep[ci][2]["sql"], "dialect": d, "want": ("tables", "columns")} for ci, d in jobs1], chunksize=8)
    # ---- classify
    failures = []          # (si, op, dialect, cls, why)
    d7_class_cases = 0
    witness_deviates = None
    for (ci, d), i1 in zip(jobs1, r1):
        si, op, a, cls = keep[ci]
        stmt = stmts[si][1] if si is not None else WITNESS_D7["ast"]
        x0, x1 = impl0[(si, d)], impl_res(i1)
        for k in op["kinds"]:
            st.c["newname:" + k] += 1
        if x0 is None:
            st.reject[d] += 1
            continue
        if x1 is None:
            st.reject[d] += 1
            st.c["rejected-after-renaming"] += 1
            for k, (o, n) in zip(op["kinds"], op.get("subst", [])):
                if k == "keyword":
                    st.c[f"keyword-rejected:{d}:{n}"] += 1
            continue
        st.accept[d] += 1
        bm = back_map(op)
        s0 = summary(x0)
        nontrivial = "error" not in s0 and bool(s0["tables"]["source"] or s0["tables"]["target"])
        chk.count(canon_json([a["orig_sql"], a["sql"], d]), nontrivial)
        st.c["op:" + op["op"]] += 1
        st.c["class:" + cls] += 1
        if "error" not in s0 and s0["pairs"]:
            st.c["with-column-pairs"] += 1
        verdict, det = classify(drv, stmt, op, a, x0, x1, model_res(m0[si]), model_res(m1[ci]), cache, listed)
        s1 = det["s1"]
        if cls == "d7":
            d7_class_cases += 1
        if si is None:
            witness_deviates = verdict != "invariant"
        if verdict == "invariant":
            if st.c["invariant"] % 300 == 0:
                chk.sample({"sql": a["orig_sql"], "renamed": a["sql"], "op": {k: op[k] for k in ("op", "subst", "names") if k in op},
                            "dialect": d, "tables": s0.get("tables"), "pairs": s0.get("pairs")})
            st.c["invariant"] += 1
            if det["model_applies"]:
                ms0, ms1 = det["ms0"], det["ms1"]
                if s0 != ms0:
                    # this dialect already reads the ORIGINAL text differently from the typed AST (tsql: `join t using (c)` makes
                    # `using` an alias; oracle: an item alias needs AS): the model does not describe this reading — C02 / C09
                    st.c["impl!=model-on-original(left to C02)"] += 1
                elif not det["model_inv"]:
                    # the model says the code is not invariant here, the code is: the model no longer describes the code
                    st.c["stale:model-not-invariant"] += 1
                    if len(chk.stale) < 20:
                        chk.stale.append({"kind": "c08-pair", "sql": a["orig_sql"], "renamed": a["sql"], "dialect": d,
                                          "impl": [s0, s1], "model": [ms0, ms1], "class": cls})
                elif s1 != ms1 and not same_modulo_star(drv, a["stmt"], a["stmt"], s1, ms1, cache):
                    # agree on the original, disagree on the renamed text only
                    st.c["stale:impl!=model-after-renaming"] += 1
                    if len(chk.stale) < 20:
                        chk.stale.append({"kind": "c08-renamed-side", "sql": a["orig_sql"], "renamed": a["sql"], "dialect": d,
                                          "impl": s1, "model": ms1, "class": cls})
            continue
        # the implementation is NOT invariant on this pair
        st.c["not-invariant"] += 1
        if verdict.startswith("known:"):
            known_hits[verdict[6:]] += 1
            st.c[verdict] += 1
            continue
        failures.append((si, op, d, cls, a))
    for fid, n in known_hits.items():
        chk.known(fid, n)
    check_reuse(chk, drv, st, base_dialects)
    # every listed finding: its stored pair of texts is replayed on the implementation; still not invariant -> KNOWN-FINDING
    for e in chk.findings:
        w = e.get("witness") or {}
        if e.get("status") != "finding" or w.get("kind") != "c08-pair" or "renamed_sql" not in w:
            continue
        x = [impl_res(sqlimpl.run_case({"sql": w[k], "dialect": w["dialect"], "want": ("tables", "columns")})) for k in ("sql", "renamed_sql")]
        if None not in x and "error" not in x[0] and ("error" in x[1] or pairs_of(x[0]["paths"]) != pairs_of(x[1]["paths"])):
            if e["id"] not in chk.known_hits:
                chk.known(e["id"])
        else:
            chk.stale.append({"kind": "finding-no-longer-reproduces", "id": e["id"], "witness": w})
    # ---- the listed finding must still reproduce (DESIGN §2.5 step 7)
    if d7_listed and witness_deviates is False:
        chk.stale.append({"kind": "c08-known-finding", "why": "D7 is listed as a finding but its witness is invariant on this tree",
                          "witness": WITNESS_D7})
    # ---- failures: shrink, tell parser re-readings from extractor failures, report
    reported = 0
    seen_shapes = set()
    # fresh-name failures first (they cannot be confused with the listed D7 class), one report per (class, operation)
    failures.sort(key=lambda f: (f[3] == "d7", f[1]["op"] != "rename"))
    for si, op, d, cls, a in failures:
        if reported >= 3:
            break
        if (cls, op["op"]) in seen_shapes:
            continue
        stmt = stmts[si][1] if si is not None else WITNESS_D7["ast"]
        if op["op"] in ("rename", "toggle"):
            # the dialect accepted both texts; did it read them as the same statement?  a renaming changes identifier spellings
            # only, AS is a keyword leaf: the parse-tree shapes (keyword leaves dropped) must be equal.  If not, the parser reads
            # the new name as something else (keyword) or does not read an alias without AS as an alias: a rejection by another name
            if shape_of(a["orig_sql"], d) != shape_of(a["sql"], d):
                st.c["reparsed(accepted but read as another statement):" + d] += 1
                continue
        small = sqlcheck.shrink(stmt, lambda c: property_fails(drv, c, op, d, cls, cache, listed), budget=150)
        x0, x1, a2 = evaluate_pair(drv, small, op, d)
        if x0 is None or x1 is None:
            small = stmt
            x0, x1, a2 = evaluate_pair(drv, small, op, d)
        # keep only the entries of the renaming that still matter
        op2 = copy.deepcopy(op)
        if op2["op"] in ("rename", "add") and len(op2["subst"]) > 1:
            for j in range(len(op2["subst"]) - 1, -1, -1):
                trial = copy.deepcopy(op2)
                del trial["subst"][j]; del trial["kinds"][j]
                try:
                    if trial["subst"] and property_fails(drv, small, trial, d, cls, cache, listed):
                        op2 = trial
                except Infra:
                    raise
                except Exception:
                    pass
            x0, x1, a2 = evaluate_pair(drv, small, op2, d)
        s0, s1 = summary(x0), summary(x1, back_map(op2))
        cls2 = verdict_class(a2, op2)
        what = ("lineage changes under %s (%s)" %
                ({"rename": "a consistent renaming of statement-local names", "add": "adding an alias", "drop": "removing an alias",
                  "toggle": "toggling AS"}[op2["op"]],
                 "fresh, non-clashing names" if cls2 != "d7" else
                 "some alias equals another table's bare name, but the difference is not the one of a listed finding"
                 if listed else "some alias equals another table's bare name"))
        seen_shapes.add((cls, op["op"]))
        chk.violation(what, {"kind": "c08-pair", "ast": small, "op": {k: op2[k] for k in ("op", "subst", "names", "kinds") if k in op2},
                             "dialect": d, "class": cls2, "sql": a2["orig_sql"], "renamed_sql": a2["sql"],
                             "impl_original": s0, "impl_renamed": s1})
        reported += 1
    sqlimpl.close_pool()
    if thorough and chk.lean.build_ok:
        ok, out = leanchecker(["SqlLineage.Props.C08", "SqlLineage.Proofs.RenameLemmas", "SqlLineage.Model.Rename",
                               "SqlLineage.Model.AliasScope"])
        chk.coverage["leanchecker"] = "accepted" if ok else "REJECTED: " + out[-300:]
        if not ok:
            chk.lean.forbidden.append("leanchecker rejected SqlLineage.Props.C08: " + out[-300:])
    chk.coverage["stale_examples"] = chk.stale[:5]
    chk.coverage.update({"statements": len(stmts), "operations": len(keep), "dialects": base_dialects + extra_dialects,
                         "renamings_per_statement": K, "distribution": st.as_dict(), "d7_class_pairs": d7_class_cases,
                         "exhaustive": False})
    chk.assumptions += ["text -> tree (sqlfluff grammars) is not modelled: both texts go through the real parser; a dialect that rejects "
                        "the renamed text (keyword not usable as identifier) rejects the case",
                        "the renaming is the Lean engine's (Model/Rename.lean); its scoping rules are the standard ones, stated in that file",
                        "UPDATE / MERGE / COPY / SELECT INTO are not in the typed AST",
                        "column half of the property: no Lean theorem (no column specification yet); it rests on this differential"]
    return chk.finish(
        level="proof",
        rule="statements: enumerate_shapes with something to rename + seeded random statements (gensql.Rand, depth<=2 quick / <=3 thorough) "
             "x K operations each (K=3 quick / 10 thorough, + one targeted D7-class renaming): consistent renamings of a random subset of "
             "the local names with new names drawn from {fresh, mixed case, column names, keywords, bare names of the statement's own "
             "tables, other table/schema names}, add alias, drop alias, toggle AS; kept when Lean's side condition holds (FreshInj, or "
             "freshInjLoose+d7Class, addOk, dropOk) and the text changed; x dialects. non-trivial = the original reports at least one table; "
             "distinct by (original SQL, renamed SQL, dialect)",
        trusted_base=["Lean 4.33 kernel", "axioms: propext, Classical.choice, Quot.sound", "harness/c08.py + sqlimpl.py + c02.star_outcomes",
                      "Model/Rename.lean as the definition of consistent renaming"])


def replay(chk, obj):
    if obj.get("replay", {}).get("kind") == "default-schema-pair":
        r = obj["replay"]
        out = sqlimpl.run_cases([{"sql": q, "dialect": r["dialect"], "default_schema": r["default_schema"], "want": ("tables", "columns")}
                                 for q in (r["sql"], r["renamed"])])
        s0, s1 = summary(impl_res(out[0])), summary(impl_res(out[1]))
        print(json.dumps({"original": s0, "renamed": s1}, indent=1, default=str))
        sqlimpl.close_pool()
        return 1 if s0 != s1 else 0
    r = obj["replay"]
    if r.get("kind") == "c08-pair" and "ast" in r:
        drv = Driver()
        cache = {}
        x0, x1, a = evaluate_pair(drv, r["ast"], r["op"], r["dialect"])
        s0, s1 = summary(x0), summary(x1, back_map(r["op"]))
        print(json.dumps({"sql": a["orig_sql"], "renamed": a["sql"], "impl_original": s0, "impl_renamed": s1}, indent=1))
        if x0 is None or x1 is None:
            return 0
        return 0 if same_modulo_star(drv, r["ast"], a["stmt"], s0, s1, cache) else 1
    if r.get("kind") == "c08-reuse":
        x = [summary(impl_res(sqlimpl.run_case({"sql": r[k], "dialect": r["dialect"], "want": ("tables", "columns")})))
             for k in ("sql", "renamed_sql")]
        print(json.dumps({"sql": r["sql"], "renamed": r["renamed_sql"], "impl_original": x[0], "impl_renamed": x[1]}, indent=1))
        return 0 if x[0] == x[1] else 1
    print("replay file names no concrete input:", json.dumps(r)[:800])
    return 1
