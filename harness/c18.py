"""C18 — the graph export is faithful to the lineage graph.

For every result produced by (a) the harvested corpus (`corpus18.py`: every SQL the repository's tests hand to LineageRunner,
the TPC-DS scripts) and (b) generated statements and scripts (`gensql` + the export-specific shapes below) the REAL
`LineageRunner` is run and `to_cytoscape()`, `to_cytoscape(LineageLevel.COLUMN)` and `str(runner)` are

  (i)  validated structurally on the implementation alone (`oracle`, no model involved): the node entries are the printed
       names of the nodes of `table_lineage_graph` / `column_lineage_graph`, the edges are their edges, every edge endpoint
       and every parent reference is the id of an exported entry, there is one parent entry per distinct owner, ids are
       unique, the summary lists the sorted role sets each once;
  (ii) compared EXACTLY with the Lean model: the implementation's own combined graph (`implgraph.graph_json`) is handed to the
       driver (`exportfull`), the model computes the two views, both exports, the role lists and the summary text from it, and
       the lists must be identical — same entries, same order, same `e{i}` edge ids, same text — after the model's view has been
       permuted to the order in which networkx iterated the implementation's view (a subgraph view iterates a Python set when
       it keeps fewer than half of the nodes; io.py's output depends on that order and on nothing else).  This ties
       `Model/Export.lean` to io.py / runner.py / the holder views on EVERY real result, corpus included;
  (iii) for generated inputs additionally end to end (`exportsql`: typed AST -> walk -> assembler -> export).  With (ii) exact, a
       difference here lies in how the walk models the analysis of that statement — the subject of the C01/C02 correspondences —
       and is reported in the evidence (`end_to_end_differences`), not as a failure of this property.
A sample of inputs also goes through `POST /lineage` of the WSGI app (`sqllineage.drawing.app`): same lists.

Known finding D24: duplicate node ids whenever two distinct nodes/owners of the view print the same name.  The class predicate
is evaluated on the implementation's own graph (`d24_class`), and a case is counted under the finding only if the export is
otherwise exact (ids = printed names, entry by entry) — any other duplicate is a violation.
"""
import collections
import io as _io
import json
import re
import warnings

import corpus18
import gensql
import implgraph
import sqlcheck
import sqlimpl
from common import Check, Driver, Infra, canon_json, leanchecker, log
from gensql import (col, derived, eq, from_expr, func, item, join, lit, select, setop, table, with_)

NEED_DRIVER = True
SUMMARY_SEP = "==========\nSummary:\n"
# dialects whose sqlfluff tree for `CREATE TABLE t (a int)` has the column-definition shape the typed AST stands for; under
# databricks/exasol/sparksql/teradata the column is reported as "a int", under duckdb/greenplum/redshift/vertica not at all
# (a dialect tree-shape matter, C09): there the export is checked by the oracle and only the summary is compared with the model
CREATE_COLS_OK = {"ansi", "athena", "bigquery", "db2", "doris", "flink", "hive", "impala", "mariadb", "materialize", "mysql", "oracle",
                  "postgres", "snowflake", "sqlite", "starrocks", "trino", "tsql"}


# =============================================================================================== implementation side
def _views(lr):
    """the implementation's own graph views, printed: what the export has to be faithful to"""
    nstmts = len(lr.statements())      # public and lazy: evaluates the runner
    h = lr._sql_holder
    tg, cg = h.table_lineage_graph, h.column_lineage_graph
    out = {"table": {"nodes": [str(n) for n in tg.nodes], "edges": [[str(u), str(v)] for u, v in tg.edges]}}
    keys = []          # distinct owner identities (eq/hash), None included

    def kidx(p):
        for i, k in enumerate(keys):
            if (k is None and p is None) or (k is not None and p is not None and k == p and hash(k) == hash(p)):
                return i
        keys.append(p)
        return len(keys) - 1

    cols = []
    knames = collections.defaultdict(set)
    ktype = {}
    for n in cg.nodes:
        p = getattr(n, "parent", None)
        k = kidx(p)
        knames[k].add(str(p) if p is not None else "<unknown>")
        ktype[k] = type(p).__name__ if p is not None else "Table or SubQuery"
        cols.append({"id": str(n), "k": k, "type": type(n).__name__,
                     "cands": [[str(c), type(c).__name__] for c in getattr(n, "parent_candidates", [])]})
    out["column"] = {"nodes": cols, "edges": [[str(u), str(v)] for u, v in cg.edges],
                     "owners": [{"names": sorted(knames[k]), "type": ktype[k]} for k in range(len(keys))]}
    out["roles"] = {"source": sorted(str(t) for t in h.source_tables), "target": sorted(str(t) for t in h.target_tables),
                    "intermediate": sorted(str(t) for t in h.intermediate_tables)}
    out["nstmts"] = nstmts
    out["graph"] = implgraph.graph_json(h.graph)     # the combined graph itself, for the direct correspondence (`exportfull`)
    return out


def post_lineage(sql, dialect):
    """POST /lineage of the WSGI callable, in process"""
    from sqllineage.drawing import app
    body = json.dumps({"e": sql, "dialect": dialect}).encode()
    status = {}

    def start_response(s, headers):
        status["s"] = s
    env = {"REQUEST_METHOD": "POST", "PATH_INFO": "/lineage", "CONTENT_LENGTH": str(len(body)), "wsgi.input": _io.BytesIO(body)}
    chunks = app(env, start_response)
    return status.get("s", ""), json.loads(b"".join(chunks).decode())


def impl_export(case):
    """worker: run the real runner; returns {"table","column","summary","views"} | {"rejected"} | {"error",..}"""
    LineageRunner, DummyMetaDataProvider, SQLLineageConfig, X = sqlimpl._imports()
    from sqllineage.utils.constant import LineageLevel
    sql = case["sql"]
    if isinstance(sql, list):
        sql = ";\n".join(sql)
    dialect = case.get("dialect", "ansi")
    kwargs = {}
    if case.get("metadata") is not None:
        kwargs["metadata_provider"] = DummyMetaDataProvider(case["metadata"])
    if case.get("silent"):
        kwargs["silent_mode"] = True
    try:
        with warnings.catch_warnings():
            warnings.simplefilter("ignore")
            lr = LineageRunner(sql, dialect=dialect, **kwargs)
            lr.statements()          # the analysis itself: its failures are C10's subject, not this property's
    except X.InvalidSyntaxException as e:
        return {"rejected": str(e)[-200:]}
    except BaseException as e:  # noqa
        if isinstance(e, (KeyboardInterrupt, SystemExit)):
            raise
        return sqlimpl.classify_exception(e)
    # the analysis succeeded: from here on an exception is a failure of the export itself
    try:
        with warnings.catch_warnings():
            warnings.simplefilter("ignore")
            views = _views(lr)
            if case.get("via") == "wsgi":
                st, resp = post_lineage(sql, dialect)
                if not st.startswith("200") or SUMMARY_SEP not in resp.get("verbose", ""):
                    return {"export_error": {"error": "wsgi", "status": st, "msg": str(resp)[:200]}}
                return {"table": resp["dag"], "column": resp["column"], "summary": resp["verbose"].split(SUMMARY_SEP, 1)[1],
                        "views": views, "via": "wsgi"}
            return {"table": lr.to_cytoscape(), "column": lr.to_cytoscape(LineageLevel.COLUMN), "summary": str(lr),
                    "views": views}
    except BaseException as e:  # noqa
        if isinstance(e, (KeyboardInterrupt, SystemExit)) and case.get("via") != "wsgi":
            raise
        return {"export_error": sqlimpl.classify_exception(e)}


# =============================================================================================== oracle (implementation only)
def _data(elems):
    out = []
    for e in elems:
        d = e.get("data") if isinstance(e, dict) else None
        out.append(d if isinstance(d, dict) else {})
    return out


def _dups(l):
    c = collections.Counter(l)
    return sorted(k for k, v in c.items() if v > 1)


def parse_summary(text):
    """-> (nstmts, source, target, intermediate|None) or None when the text has not the documented frame"""
    lines = text.split("\n")
    m = re.fullmatch(r"Statements\(#\): (\d+)", lines[0]) if lines else None
    if not m or len(lines) < 2 or lines[1] != "Source Tables:":
        return None
    i = 2
    sec = {"source": [], "target": [], "intermediate": None}
    cur = "source"
    while i < len(lines):
        ln = lines[i]
        if ln == "Target Tables:" and cur == "source":
            cur = "target"
        elif ln == "Intermediate Tables:" and cur == "target":
            cur = "intermediate"; sec[cur] = []
        elif ln.startswith("    "):
            sec[cur].append(ln[4:])
        elif ln == "" and i == len(lines) - 1:
            pass
        else:
            return None
        i += 1
    for k in ("source", "target", "intermediate"):
        if sec[k] == [""]:
            sec[k] = []
    return int(m.group(1)), sec["source"], sec["target"], sec["intermediate"]


def oracle(r):
    """-> (failures, d24) : list of (check name, detail) the property fails on; d24 = duplicate ids explained by the class"""
    fails = []
    d24 = []
    if "export_error" in r:
        return [("export:raises", r["export_error"])], []
    v = r["views"]
    # ---------------------------------------------------------------- table level
    T = _data(r["table"])
    t_nodes = [d for d in T if "source" not in d]
    t_edges = [d for d in T if "source" in d]
    ids = [d.get("id") for d in t_nodes]
    exact_t = collections.Counter(ids) == collections.Counter(v["table"]["nodes"])
    if not exact_t:
        fails.append(("table:nodes_exact", {"exported": sorted(map(str, ids)), "graph": sorted(v["table"]["nodes"])}))
    if any(set(d) != {"id"} for d in t_nodes):
        fails.append(("table:node_entry_shape", [d for d in t_nodes if set(d) != {"id"}][:3]))
    _edges(fails, "table", t_edges, ids, v["table"]["edges"])
    if _dups(ids):
        if exact_t and _dups(v["table"]["nodes"]) == _dups(ids):
            d24.append(("table", _dups(ids)))
        else:
            fails.append(("table:ids_unique", _dups(ids)))
    # ---------------------------------------------------------------- column level
    C = _data(r["column"])
    c_edges = [d for d in C if "source" in d]
    c_nodes = [d for d in C if "source" not in d and "parent" in d]
    c_par = [d for d in C if "source" not in d and "parent" not in d]
    cv = v["column"]
    ids = [d.get("id") for d in c_nodes]
    want_ids = [n["id"] for n in cv["nodes"]]
    exact_c = collections.Counter(ids) == collections.Counter(want_ids)
    if not exact_c:
        fails.append(("column:nodes_exact", {"exported": sorted(map(str, ids)), "graph": sorted(want_ids)}))
    _edges(fails, "column", c_edges, ids, cv["edges"])
    par_ids = [d.get("id") for d in c_par]
    # every parent reference resolves
    bad_ref = sorted({str(d.get("parent")) for d in c_nodes if d.get("parent") not in set(par_ids)})
    if bad_ref:
        fails.append(("column:parents_are_nodes", bad_ref))
    # the compound structure: match entries with graph nodes (by position when the order is the graph's, else by unique id)
    pairs = None
    if ids == want_ids:
        pairs = list(zip(c_nodes, cv["nodes"]))
    elif exact_c:
        uniq = {i for i in ids if ids.count(i) == 1}
        byid = {n["id"]: n for n in cv["nodes"]}
        pairs = [(d, byid[d["id"]]) for d in c_nodes if d["id"] in uniq]
    owner_ref = collections.defaultdict(set)
    if pairs is not None:
        for d, n in pairs:
            own = cv["owners"][n["k"]]
            if d.get("type") != n["type"]:
                fails.append(("column:node_type", [d.get("id"), d.get("type"), n["type"]]))
            if d.get("parent") not in own["names"]:
                fails.append(("column:parent_is_owner", {"id": d.get("id"), "parent": d.get("parent"), "owner": own["names"]}))
            got_c = sorted([c.get("name"), c.get("type")] for c in d.get("parent_candidates", []) if isinstance(c, dict))
            if got_c != sorted(n["cands"]):
                fails.append(("column:parent_candidates", {"id": d.get("id"), "exported": got_c, "graph": sorted(n["cands"])}))
            owner_ref[n["k"]].add(d.get("parent"))
        split = {k: sorted(map(str, s)) for k, s in owner_ref.items() if len(s) > 1}
        if split:
            fails.append(("column:one_parent_per_owner", split))
        if ids == want_ids or exact_c and len(pairs) == len(c_nodes):
            # one parent entry per distinct owner, carrying the name its columns reference and the owner's type
            want_par = collections.Counter((next(iter(owner_ref[k])) if len(owner_ref[k]) == 1 else None, cv["owners"][k]["type"])
                                           for k in owner_ref)
            got_par = collections.Counter((d.get("id"), d.get("type")) for d in c_par)
            if want_par != got_par and not split:
                fails.append(("column:parents_exact", {"exported": sorted(map(str, got_par.elements())),
                                                       "owners": sorted(map(str, want_par.elements()))}))
    all_ids = ids + par_ids
    if _dups(all_ids):
        # class of D24: two distinct nodes / owners of the view print the same name (evaluated on the implementation's graph)
        owner_names = [next(iter(owner_ref[k])) for k in sorted(owner_ref) if len(owner_ref[k]) == 1]
        explained = exact_c and not [f for f in fails if f[0].startswith("column:parent")] and \
            _dups(want_ids + owner_names) == _dups(all_ids)
        if explained:
            d24.append(("column", _dups(all_ids)))
        else:
            fails.append(("column:ids_unique", _dups(all_ids)))
    # ---------------------------------------------------------------- summary
    ps = parse_summary(r["summary"])
    roles = v["roles"]
    if ps is None:
        fails.append(("summary:frame", r["summary"][:300]))
    else:
        n, src, tgt, inter = ps
        if n != v["nstmts"]:
            fails.append(("summary:statement_count", [n, v["nstmts"]]))
        for name, got in (("source", src), ("target", tgt), ("intermediate", inter if inter is not None else [])):
            if got != sorted(roles[name]):
                fails.append((f"summary:{name}", {"listed": got, "role_set_sorted": sorted(roles[name])}))
        if (inter is not None) != bool(roles["intermediate"]):
            fails.append(("summary:intermediate_section", {"present": inter is not None, "roles": roles["intermediate"]}))
        t_ids = set(d.get("id") for d in t_nodes)
        missing = sorted(set(src + tgt + (inter or [])) - t_ids)
        if missing:
            fails.append(("summary:tables_are_exported", missing))
    return fails, d24


def _edges(fails, level, edges, node_ids, graph_edges):
    got = collections.Counter((d.get("source"), d.get("target")) for d in edges)
    want = collections.Counter((a, b) for a, b in graph_edges)
    if got != want:
        fails.append((f"{level}:edges_exact", {"exported": sorted(map(str, got.elements())), "graph": sorted(map(str, want.elements()))}))
    eids = [d.get("id") for d in edges]
    if _dups(eids):
        fails.append((f"{level}:edge_ids_unique", _dups(eids)))
    ns = set(node_ids)
    dangling = sorted({str(x) for d in edges for x in (d.get("source"), d.get("target")) if x not in ns})
    if dangling:
        fails.append((f"{level}:endpoints_are_nodes", dangling))


def d24_class(r):
    """two distinct nodes / owners of a view print the same name (implementation's own graph)"""
    v = r["views"]
    names_c = [n["id"] for n in v["column"]["nodes"]] + [o["names"][0] for o in v["column"]["owners"]]
    return bool(_dups(v["table"]["nodes"]) or _dups(names_c))


def edge_id_clash(r):
    """not part of the property's text (it speaks of node ids): a node id equal to an edge id"""
    out = []
    for lvl in ("table", "column"):
        D = _data(r[lvl])
        e = {d.get("id") for d in D if "source" in d}
        out += sorted(e & {d.get("id") for d in D if "source" not in d})
    return out


# =============================================================================================== model side
def _norm(x):
    if isinstance(x, str):
        return sqlimpl.norm_name(x)
    if isinstance(x, list):
        return [_norm(y) for y in x]
    if isinstance(x, dict):
        return {k: _norm(y) for k, y in x.items()}
    return x


def hints_of(r, norm=True):
    """iteration orders of the implementation's views, as the driver wants them (`norm`: anonymous subquery names masked, for the
    end-to-end comparison where the model cannot know the hash)"""
    out = {}
    for lvl in ("table", "column"):
        D = _norm(_data(r[lvl])) if norm else _data(r[lvl])
        nodes = [d.get("id") for d in D if "source" not in d and (lvl == "table" or "parent" in d)]
        edges = [[d.get("source"), d.get("target")] for d in D if "source" in d]
        out[lvl] = {"nodes": nodes, "edges": edges}
    return out


def hint_variants(r, limit=36, norm=True):
    """when several nodes print alike (D24; anonymous subqueries after masking their hash) the printed order does not say which
    model node is which: enumerate the assignments (each occurrence takes the k-th still unused model node of that name)"""
    import itertools
    base = hints_of(r, norm)
    per_level = {}
    for lvl in ("table", "column"):
        nodes = base[lvl]["nodes"]
        groups = [n for n in _dups(nodes) if isinstance(n, str)]
        if not groups:
            per_level[lvl] = [nodes]
            continue
        perms = [list(itertools.permutations(range(nodes.count(g)))) for g in groups]
        alts = []
        for combo in itertools.islice(itertools.product(*perms), limit):
            remaining = {g: list(range(nodes.count(g))) for g in groups}
            seen = collections.Counter()
            pick = dict(zip(groups, combo))
            new = []
            for n in nodes:
                if n in pick:
                    want = pick[n][seen[n]]; seen[n] += 1
                    k = remaining[n].index(want); remaining[n].pop(k)
                    new.append([n, k])
                else:
                    new.append(n)
            alts.append(new)
        per_level[lvl] = alts
    out = []
    for tn, cn in itertools.islice(itertools.product(per_level["table"], per_level["column"]), limit):
        out.append({"table": {"nodes": tn, "edges": base["table"]["edges"]}, "column": {"nodes": cn, "edges": base["column"]["edges"]}})
    return out


def model_request(stmts, r=None, metadata=None, rev_star=0, order=None):
    q = {"cmd": "exportsql", "stmts": stmts, "rev_star": rev_star}
    if metadata:
        q["metadata"] = metadata
    if order is not None:
        q["order"] = order
    elif r is not None:
        q["order"] = hints_of(r)
    return q


def compare(r, a, full=True):
    """-> list of differing parts between the implementation result r and the driver answer a.  `full=False`: the statement has a
    subquery inside a select item — `_get_column_from_subquery` is not modelled, which changes column nodes and adds isolated
    table nodes — so only the summary is compared"""
    o = a["out"]
    if "error" in o:
        return [("model-error", o["error"])]
    diffs = []
    if full and _norm(r["table"]) != o["table"]["elems"]:
        diffs.append(("table", None))
    if full and _norm(r["column"]) != o["column"]["elems"]:
        diffs.append(("column", None))
    if _norm(r["summary"]) != o["summary"]:
        diffs.append(("summary", None))
    return diffs


def full_request(r, order=None):
    """the model's export of the implementation's OWN combined graph"""
    return {"cmd": "exportfull", "graph": r["views"]["graph"], "nstmts": r["views"]["nstmts"],
            "order": order if order is not None else hints_of(r, norm=False)}


def compare_full(r, a):
    o = a.get("out")
    if not isinstance(o, dict):
        raise Infra("model driver error: " + str(a.get("error")))
    diffs = []
    if r["table"] != o["table"]["elems"]:
        diffs.append("table")
    if r["column"] != o["column"]["elems"]:
        diffs.append("column")
    if r["summary"] != o["summary"]:
        diffs.append("summary")
    return diffs


def full_diffs(drv, r, a=None):
    """differences between io.py / __str__ and the model on the implementation's own graph; when several nodes print alike the
    assignment of model nodes to the printed order is enumerated"""
    a = a or drv.ask1(full_request(r))
    d = compare_full(r, a)
    if not d:
        return [], a
    vs = hint_variants(r, norm=False)
    if len(vs) > 1:
        for a2 in drv.ask([full_request(r, v) for v in vs]):
            if not compare_full(r, a2):
                return [], a2
    return d, a


def full_record(case, r, diffs, a):
    o = a.get("out", {})
    return {"kind": "export-on-implementation-graph", "sql": case["sql"], "dialect": case.get("dialect", "ansi"),
            "metadata": case.get("metadata"), "silent": bool(case.get("silent")), "via": case.get("via"), "origin": case.get("origin"),
            "differs_in": diffs,
            "impl": {k: r[k] for k in diffs}, "model": {k: (o[k]["elems"] if k in ("table", "column") else o.get(k)) for k in diffs}}


# =============================================================================================== generators
def _leaf(t, c="a", alias=None, out_alias=None):
    return select([item(col(c), out_alias)], [from_expr(table(t, None, alias))])


def special_shapes():
    """export-specific shapes: owners that print alike, shared owners under different aliases, bare columns named like owners"""
    S = []

    def ins(q, tgt="tgt"):
        return ["insert", "into", False, [tgt], None, q, False]

    def sel_from(d, c="a", qual=None):
        return select([item(col(c, qual))], [from_expr(d)])
    # two DISTINCT derived tables sharing an alias in different scopes (D24)
    S.append(("same_alias_union", [ins(setop((sel_from(derived(_leaf("t1"), "x"), "a", "x"), False),
                                             [("union all", (sel_from(derived(_leaf("t2"), "x"), "a", "x"), False))]))]))
    S.append(("same_alias_nested", [ins(sel_from(derived(sel_from(derived(_leaf("t1"), "x"), "a", "x"), "x"), "a", "x"))]))
    S.append(("same_alias_where", [ins(select([item(col("a", "x"))], [from_expr(derived(_leaf("t1"), "x"))],
                                              ["in", col("a", "x"), False, sel_from(derived(_leaf("t2", "b"), "x"), "b", "x")]))]))
    S.append(("same_alias_two_statements", [ins(sel_from(derived(_leaf("t1"), "x"), "a", "x"), "o1"),
                                            ins(sel_from(derived(_leaf("t2"), "x"), "a", "x"), "o2")]))
    # EQUAL derived tables (same text) under different aliases: one owner, two printed names ("later wins")
    S.append(("same_body_two_aliases", [ins(setop((sel_from(derived(_leaf("t1"), "x"), "a", "x"), False),
                                                  [("union all", (sel_from(derived(_leaf("t1"), "y"), "a", "y"), False))]))]))
    S.append(("same_body_same_alias", [ins(setop((sel_from(derived(_leaf("t1"), "x"), "a", "x"), False),
                                                 [("union all", (sel_from(derived(_leaf("t1"), "x"), "a", "x"), False))]))]))
    S.append(("same_body_two_statements", [ins(sel_from(derived(_leaf("t1"), "x"), "a", "x"), "o1"),
                                           ins(sel_from(derived(_leaf("t1"), "y"), "a", "y"), "o2")]))
    # a bare (unresolved) column named like an owner / like an edge id
    two = [from_expr(derived(_leaf("t1"), "x"), [join(derived(_leaf("t2", "b"), "y"), eq(col("a", "x"), col("b", "y")))])]
    S.append(("bare_column_named_like_owner", [ins(select([item(col("x"))], two))]))
    S.append(("bare_column_named_e0", [ins(select([item(col("e0"))], [from_expr(table("t1"), [join(table("t2"), eq(col("a", "t1"), col("a", "t2")))])]))]))
    S.append(("bare_column_two_statements", [ins(select([item(col("k"))], [from_expr(table("t1"), [join(table("t2"), eq(col("a", "t1"), col("a", "t2")))])]), "o1"),
                                             ins(select([item(col("k"))], [from_expr(table("t3"), [join(table("t4"), eq(col("a", "t3"), col("a", "t4")))])]), "o2")]))
    # CTEs: referenced under an alias, shadowing a derived alias
    S.append(("cte_under_alias", [ins(with_([("c1", _leaf("t1"))], select([item(col("a", "k"))], [from_expr(table("c1", None, "k"))])))]))
    S.append(("cte_and_derived_same_name", [ins(with_([("x", _leaf("t1"))], setop((sel_from(table("x"), "a", "x"), False),
                                                [("union all", (sel_from(derived(_leaf("t2"), "x"), "a", "x"), False))])))]))
    S.append(("anonymous_derived", [ins(sel_from(derived(_leaf("t1"), None), "a"))]))
    S.append(("two_anonymous_derived", [ins(setop((sel_from(derived(_leaf("t1"), None), "a"), False),
                                                  [("union all", (sel_from(derived(_leaf("t2"), None), "a"), False))]))]))
    # scripts: chains, self loops, DDL, drop / rename
    S.append(("chain", [ins(_leaf("t1"), "m1"), ins(_leaf("m1"), "m2"), ins(_leaf("m2"), "o1")]))
    S.append(("selfloop", [ins(_leaf("t1"), "t1"), ins(_leaf("t1"), "o1")]))
    S.append(("source_only_target_only", [["query", _leaf("t1"), False], ["create_table", ["t9"], False, [["a", "int"]]],
                                          ["insert_values", ["t8"], None, [[lit("1")]]]]))
    S.append(("drop_rename", [ins(_leaf("t1"), "m1"), ["alter_rename", ["m1"], ["m2"]], ins(_leaf("m2"), "o1"), ["drop", False, False, ["t7"]]]))
    S.append(("create_like_drop", [["create_table_like", ["t6"], ["t1"]], ["drop", False, True, ["t6"]], ins(_leaf("t2"), "t6")]))
    S.append(("star_chain", [["ctas", ["m1"], False, False, select([item(col("a")), item(col("b"))], [from_expr(table("t1"))]), False],
                             ins(select([item(["star", []])], [from_expr(table("m1"))]), "o1")]))
    S.append(("schema_and_default", [ins(select([item(col("a", "x")), item(col("b", "t2"))],
                                                [from_expr(table("t1", "s1", "x"), [join(table("t2", "s2"), eq(col("a", "x"), col("a", "t2")))])]), "tgt")]))
    return S


def special_with_metadata():
    md = {"<default>.t1": ["a", "k"], "<default>.t2": ["b", "k"], "s1.t3": ["a", "c"]}
    two = [from_expr(table("t1"), [join(table("t2"), eq(col("k", "t1"), col("k", "t2")))])]
    S = []
    S.append(("md_resolves_bare", [["insert", "into", False, ["tgt"], None, select([item(col("a")), item(col("b")), item(col("z"))], two), False]], md))
    S.append(("md_star", [["insert", "into", False, ["tgt"], None, select([item(["star", []])], [from_expr(table("t1"))]), False]], md))
    S.append(("md_using", [["insert", "into", False, ["tgt"], None,
                            select([item(col("k"))], [from_expr(table("t1"), [join(table("t2"), None, "join", ["k"])])]), False]], md))
    return S


def random_script(chk, R):
    k = chk.rng.randrange(2, 5)
    out = []
    for _ in range(k):
        r = chk.rng.random()
        t = chk.rng.choice(["t1", "t2", "tgt", "out1", "m1"])
        if r < 0.7:
            out.append(R.stmt(chk.rng.choice([0, 1, 1, 2])))
        elif r < 0.78:
            out.append(["drop", False, chk.rng.random() < 0.5, [t]])
        elif r < 0.86:
            out.append(["alter_rename", [t], [chk.rng.choice(["r1", "r2", "tgt"])]])
        elif r < 0.93:
            out.append(["create_table", [t], False, [["a", "int"], ["b", "int"]]])
        else:
            out.append(["insert_values", [t], None, [[lit("1"), lit("2")]]])
    return out


def gen_cases(chk):
    """-> list of (name, [stmt ASTs], metadata|None)"""
    cases = [(n, ss, None) for n, ss in special_shapes()] + special_with_metadata()
    depth = 2 if chk.tier == "thorough" else 1
    shapes = list(gensql.enumerate_shapes(depth))
    if chk.tier != "thorough":
        # quick: every third shape, rotating with the seed (the bounded-exhaustive set is covered by C01/C02 and by thorough)
        shapes = [s for i, s in enumerate(shapes) if i % 3 == chk.seed % 3]
    else:
        shapes = [s for i, s in enumerate(shapes) if i % 6 == chk.seed % 6]
    cases += [(n, [s], None) for n, s in shapes]
    n_rand = 1200 if chk.tier == "thorough" else 220
    R = gensql.Rand(chk.rng, max_depth=3 if chk.tier == "thorough" else 2)
    for i in range(n_rand):
        d = chk.rng.choice([1, 2, 2, 3, 4]) if chk.tier == "thorough" else chk.rng.choice([1, 2, 2])
        cases.append((f"rand-{i}", [R.stmt(d)], None))
    n_scripts = 300 if chk.tier == "thorough" else 70
    for i in range(n_scripts):
        cases.append((f"script-{i}", random_script(chk, R), None))
    return cases


# =============================================================================================== the check
def is_result(r):
    """the analysis succeeded (the export may still have raised: `export_error`)"""
    return isinstance(r, dict) and ("views" in r or "export_error" in r)


def exported(r):
    return isinstance(r, dict) and "views" in r


def record_failure(chk, what, fails, case, r):
    rec = {"kind": "sql-text", "sql": case["sql"], "dialect": case.get("dialect", "ansi"), "metadata": case.get("metadata"),
           "silent": bool(case.get("silent")), "via": case.get("via"), "origin": case.get("origin"),
           "failed_checks": [[n, d] for n, d in fails[:6]]}
    chk.violation(what, rec)


def shrink_text_case(case, pred):
    """corpus inputs are text: shrink by dropping whole statements while the failure persists"""
    from sqllineage.utils.helpers import split
    try:
        parts = split(case["sql"])
    except Exception:
        return case
    cur = list(parts)
    changed = True
    while changed and len(cur) > 1:
        changed = False
        for i in range(len(cur)):
            cand = cur[:i] + cur[i + 1:]
            c2 = dict(case, sql=";\n".join(s.rstrip().rstrip(";") for s in cand))
            try:
                if pred(c2):
                    cur = cand; changed = True; break
            except Exception:
                continue
    return dict(case, sql=";\n".join(s.rstrip().rstrip(";") for s in cur)) if len(cur) < len(parts) else case


def part_corpus(chk, drv, st, wsgi_every):
    cases, hstats = corpus18.corpus()
    if not cases:
        raise Infra("the corpus harvester found no SQL in the repository's tests")
    if chk.tier != "thorough":
        # quick: all unit-test SQL, a third of the (large) TPC-DS scripts rotating with the seed
        tp = [c for c in cases if c["origin"].startswith("sqllineage/data")]
        keep = {id(c) for i, c in enumerate(tp) if i % 3 == chk.seed % 3}
        cases = [c for c in cases if not c["origin"].startswith("sqllineage/data") or id(c) in keep]
    jobs = []
    for i, c in enumerate(cases):
        jobs.append(c)
        if i % wsgi_every == chk.seed % wsgi_every and c["metadata"] is None and not c["silent"] and c["dialect"] != "non-validating":
            jobs.append(dict(c, via="wsgi"))
    res = sqlimpl.pool().map(impl_export, jobs, chunksize=4)
    if not any(is_result(r) for r in res):
        raise Infra("no corpus script could be analysed: " + str(res[0])[:300])
    # the model's export of the implementation's own graph, for every result
    fidx = [i for i, r in enumerate(res) if exported(r)]
    fans = dict(zip(fidx, drv.ask([full_request(res[i]) for i in fidx], chunk=200)))
    first = None
    for ji, (c, r) in enumerate(zip(jobs, res)):
        tag = "corpus-wsgi" if c.get("via") else "corpus"
        if not is_result(r):
            st.c[f"{tag}:" + ("rejected" if "rejected" in r else "error:" + str(r.get("error")))] += 1
            continue
        st.c[tag] += 1
        st.accept[c["dialect"]] += 1
        fails, d24 = oracle(r)
        nontrivial = exported(r) and any("source" in d for d in _data(r["column"]) + _data(r["table"]))
        chk.count(canon_json([tag, c["sql"], c["dialect"], c["metadata"]]), nontrivial)
        if exported(r) and edge_id_clash(r):
            st.c["note:node-id-equals-edge-id"] += 1
        if d24:
            st.c["D24-class"] += 1
            if not chk.finding("D24"):
                fails = fails + [("ids_unique", d24)]
        if fails:
            st.c["oracle-fails"] += 1
            if first is None:
                first = (c, fails)
            continue
        fd, fa = full_diffs(drv, r, fans[ji])
        if fd:
            st.c["impl!=model(on the implementation's graph)"] += 1
            if len(chk.stale) < 20:
                chk.stale.append(full_record(c, r, fd, fa))
        else:
            st.c["agree(on the implementation's graph)"] += 1
        if d24 and chk.finding("D24") and not fd:
            chk.known("D24")
        if st.c[tag] % 150 == 1 and exported(r):
            chk.sample({"origin": c["origin"], "dialect": c["dialect"], "via": c.get("via", "runner"),
                        "table_elems": len(r["table"]), "column_elems": len(r["column"]), "summary": r["summary"][:160]})
    if first is not None:
        c, fails = first
        names = {f[0] for f in fails}

        def still(c2):
            r2 = impl_export(c2)
            if not is_result(r2):
                return False
            f2, d2 = oracle(r2)
            if d2 and not chk.finding("D24"):
                f2 = f2 + [("ids_unique", d2)]
            return bool({f[0] for f in f2} & names)
        small = shrink_text_case(c, still)
        r2 = impl_export(small)
        f2, d2 = oracle(r2) if is_result(r2) else (fails, [])
        if d2 and not chk.finding("D24"):
            f2 = f2 + [("ids_unique", d2)]
        record_failure(chk, "the export / summary of a corpus script is not faithful to the runner's own lineage graph: "
                       + ", ".join(sorted({f[0] for f in (f2 or fails)})), f2 or fails, small, r2)
    return hstats, len(jobs)


def eval_generated(drv, stmts, metadata, dialect, via=None):
    """one generated case end to end (used by shrinking and replay): -> (rendered sql, impl result, diffs, oracle fails, d24)"""
    a0 = drv.ask1({"cmd": "render", "stmts": stmts})
    sql = a0["sql"]
    case = {"sql": sql, "dialect": dialect, "metadata": metadata, "via": via}
    r = impl_export(case)
    if not is_result(r):
        return sql, r, None, None, None
    fails, d24 = oracle(r)
    diffs = best_diffs(drv, stmts, metadata, r, dialect) if exported(r) else None
    return sql, r, diffs, fails, d24


def comparable(stmts, dialect):
    """the model stands for this statement's analysis under this dialect at both export levels"""
    if any(gensql.item_has_subq(s) for s in stmts):
        return False
    if any(s[0] == "create_table" for s in stmts) and dialect not in CREATE_COLS_OK:
        return False
    return True


def best_diffs(drv, stmts, metadata, r, dialect="ansi", tries=(0, 1, 7, 1000003, 2654435761)):
    """compare with the model.  Two sources of admissible variation are enumerated: (1) where the code iterates a hash-ordered set
    of relations under an unqualified `*` (D16) the model is asked for several orders; (2) where several nodes print alike the
    assignment of model nodes to the printed order (`hint_variants`).  Any exact match is agreement."""
    full = comparable(stmts, dialect)
    variants = hint_variants(r) if full else [hints_of(r)]
    best = None
    reqs = []
    for k in (tries if has_star(stmts) else tries[:1]):
        for order in variants:
            reqs.append(model_request(stmts, r, metadata, rev_star=k, order=order))
    for a in drv.ask(reqs):
        if "out" not in a:
            raise Infra("model driver error: " + str(a.get("error")))
        d = compare(r, a, full)
        if not d:
            return []
        if best is None:
            best = d
    return best


def has_star(stmts):
    return any(isinstance(n, list) and n and n[0] == "star" for s in stmts for n in gensql._walk(s))


def part_generated(chk, drv, st, dialects, wsgi_every):
    cases = gen_cases(chk)
    rend = drv.ask([{"cmd": "render", "stmts": ss} for _, ss, _ in cases])
    jobs = []
    for ci, ((name, ss, md), a) in enumerate(zip(cases, rend)):
        if "sql" not in a:
            raise Infra("model driver error: " + str(a.get("error")))
        if chk.tier == "thorough":
            # ansi + two of the other dialects, rotating over the inputs (scripts: ansi + one)
            o = dialects[1:]
            k = (ci + chk.seed) % len(o)
            ds = [dialects[0], o[k]] + ([o[(k + 1) % len(o)]] if not name.startswith("script") else [])
        else:
            # quick: ansi + one of the other dialects, rotating over the inputs
            ds = [dialects[0], dialects[1 + (ci + chk.seed) % (len(dialects) - 1)]]
        for d in ds:
            jobs.append((ci, d, None))
        if ci % wsgi_every == chk.seed % wsgi_every and md is None:
            jobs.append((ci, "ansi", "wsgi"))
    res = sqlimpl.pool().map(impl_export, [{"sql": rend[ci]["sql"], "dialect": d, "metadata": cases[ci][2], "via": via}
                                          for ci, d, via in jobs], chunksize=8)
    if not any(is_result(r) for r in res):
        raise Infra("no generated statement could be analysed: " + str(res[0])[:300])
    # model answers with the implementation's iteration orders
    reqs, idx = [], []
    for ji, ((ci, d, via), r) in enumerate(zip(jobs, res)):
        if exported(r):
            reqs.append(model_request(cases[ci][1], r, cases[ci][2]))
            idx.append(ji)
    ans = dict(zip(idx, drv.ask(reqs)))
    fans = dict(zip(idx, drv.ask([full_request(res[ji]) for ji in idx], chunk=400)))
    first_fail = None
    walk_diffs = []
    for ji, ((ci, d, via), r) in enumerate(zip(jobs, res)):
        name, ss, md = cases[ci]
        kind = name.split("/")[0].split("-")[0]
        if not is_result(r):
            if "rejected" in r:
                st.reject[d] += 1
            else:
                st.c[f"gen:error:{r.get('error')}"] += 1
            continue
        st.accept[d] += 1
        st.c["gen" + ("-wsgi" if via else "")] += 1
        st.c["kind:" + kind] += 1
        if not exported(r):
            fails, _ = oracle(r)
            chk.count(canon_json(["gen", via, rend[ci]["sql"], d, md]), False)
            st.c["oracle-fails"] += 1
            if first_fail is None:
                first_fail = (ci, d, via, fails)
            continue
        a = ans[ji]
        if "out" not in a:
            raise Infra("model driver error: " + str(a.get("error")))
        fails, d24 = oracle(r)
        nontrivial = any("source" in x for x in _data(r["column"]) + _data(r["table"]))
        chk.count(canon_json(["gen", via, rend[ci]["sql"], d, md]), nontrivial)
        full = comparable(ss, d)
        if not full:
            st.c["summary-only-compare(item subquery / dialect-specific create-table tree)"] += 1
        diffs = compare(r, a, full)
        if diffs and "error" not in a["out"] and (has_star(ss) or (full and len(hint_variants(r, 2)) > 1)):
            diffs = best_diffs(drv, ss, md, r, d)
            if not diffs:
                st.c["agree-after-enumerating-orders"] += 1
        if "error" not in a["out"] and not (a["out"]["table"]["wf"] and a["out"]["column"]["wf"] and a["out"]["graph_wf"]):
            st.c["model-graph-not-wellformed"] += 1
            if len(chk.stale) < 20:
                chk.stale.append({"kind": "model-wf", "sql": rend[ci]["sql"], "why": "the model's graph violates EdgesWF/NodesNodup "
                                  "(hypothesis of endpoints_are_nodes / ids_unique_iff_print_injective)"})
        if edge_id_clash(r):
            st.c["note:node-id-equals-edge-id"] += 1
        if d24:
            st.c["D24-class"] += 1
            if not chk.finding("D24"):
                fails = fails + [("ids_unique", d24)]
        if fails:
            st.c["oracle-fails"] += 1
            if first_fail is None:
                first_fail = (ci, d, via, fails)
            continue
        # (1) the export model on the implementation's own graph: must be exact
        fd, fa = full_diffs(drv, r, fans[ji])
        if fd:
            st.c["impl!=model(on the implementation's graph)"] += 1
            if len(chk.stale) < 20:
                chk.stale.append(full_record({"sql": rend[ci]["sql"], "dialect": d, "metadata": md, "via": via}, r, fd, fa))
            continue
        st.c["agree(on the implementation's graph)"] += 1
        if d24 and chk.finding("D24"):
            chk.known("D24")
        # (2) end to end (typed AST -> walk -> assembler -> export): a difference here, with (1) exact, lies in how the walk
        # models the ANALYSIS of this statement (the subject of the C01/C02 correspondences), not in the export
        if diffs:
            st.c["end-to-end differs (walk model, not the export)"] += 1
            if len(walk_diffs) < 5:
                walk_diffs.append({"sql": rend[ci]["sql"], "dialect": d, "differs_in": [x[0] for x in diffs]})
        else:
            st.c["agree"] += 1
            if st.c["agree"] % 400 == 1:
                chk.sample({"sql": rend[ci]["sql"], "dialect": d, "via": via or "runner", "table": _norm(r["table"])[:4],
                            "column_elems": len(r["column"]), "summary": r["summary"][:120]})
    chk.coverage["end_to_end_differences"] = walk_diffs
    if first_fail is not None:
        ci, d, via, fails = first_fail
        name, ss, md = cases[ci]
        names = {f[0] for f in fails}

        def fails_still(cand_ss):
            _, r2, _, f2, d2 = eval_generated(drv, cand_ss, md, d, via)
            if f2 is None:
                return False
            if d2 and not chk.finding("D24"):
                f2 = f2 + [("ids_unique", d2)]
            return bool({f[0] for f in f2} & names)
        small = shrink_script(ss, fails_still)
        sql, r2, _, f2, d2 = eval_generated(drv, small, md, d, via)
        if d2 and not chk.finding("D24"):
            f2 = (f2 or []) + [("ids_unique", d2)]
        rec = {"kind": "sql-ast", "ast": small, "sql": sql, "dialect": d, "metadata": md, "via": via,
               "failed_checks": [[n, x] for n, x in (f2 or fails)[:6]]}
        chk.violation("the export / summary of a generated input is not faithful to the runner's own lineage graph: "
                      + ", ".join(sorted({f[0] for f in (f2 or fails)})), rec)
    return len(cases), len(jobs)


def shrink_script(stmts, pred):
    """drop whole statements, then shrink each remaining statement with the shared AST shrinker"""
    cur = list(stmts)
    changed = True
    while changed and len(cur) > 1:
        changed = False
        for i in range(len(cur)):
            cand = cur[:i] + cur[i + 1:]
            try:
                if pred(cand):
                    cur = cand; changed = True; break
            except Infra:
                raise
            except Exception:
                continue
    for i in range(len(cur)):
        if cur[i][0] in ("query", "insert", "ctas", "create_view"):
            cur[i] = sqlcheck.shrink(cur[i], lambda c, i=i: pred(cur[:i] + [c] + cur[i + 1:]), budget=120)
    return cur


def _ds_json(o):
    from sqllineage.core.models import Path, Table
    if isinstance(o, Table):
        sch, n = str(o).rsplit(".", 1)
        return ["t", sch, n]
    if isinstance(o, Path):
        return ["p", str(o)]
    return ["q", o.query_raw]


def _node_json(n):
    from sqllineage.core.models import Column, SubQuery
    if isinstance(n, Column):
        p = n.parent
        return ["c", str(n), _ds_json(p) if p is not None else None], \
            {"raw": n.raw_name, "parents": [[_ds_json(o), str(o)] for o in n.parent_candidates]}
    return _ds_json(n), ({"alias": n.alias} if isinstance(n, SubQuery) else None)


def handmade_request(g, compound):
    return {"cmd": "exportgraph", "compound": compound, "nodes": [list(_node_json(x)) for x in g.nodes],
            "edges": [[_node_json(u)[0], _node_json(v)[0]] for u, v in g.edges]}


def graph_from_request(q):
    """rebuild the hand-made networkx graph a `direct-graph` replay names"""
    import networkx as nx
    from sqllineage.core.models import Column, Path, SubQuery, Table

    def ds(j, printed=None):
        if j[0] == "t":
            return Table(f"{j[1]}.{j[2]}")
        if j[0] == "p":
            return Path(j[1])
        return SubQuery(None, j[1], printed)
    g = nx.DiGraph()
    objs = []
    for nj, pay in q["nodes"]:
        if nj[0] == "c":
            c = Column(pay["raw"])
            for d, printed in pay["parents"]:
                c.parent = ds(d, printed)
            objs.append(c)
        else:
            objs.append(ds(nj, (pay or {}).get("alias")))
        g.add_node(objs[-1])
    keys = [canon_json(nj) for nj, _ in q["nodes"]]
    for u, v in q["edges"]:
        g.add_edge(objs[keys.index(canon_json(u))], objs[keys.index(canon_json(v))])
    return g


def direct_bad(q, out):
    """oracle on a hand-made graph: ids are the printed names of the nodes, in order; references resolve; all edges are there"""
    D = _data(out)
    ids = [d.get("id") for d in D if "source" not in d and ("parent" in d or not q["compound"])]
    pids = {d.get("id") for d in D if "source" not in d and "parent" not in d}
    want = [x[0][1] if x[0][0] in ("c", "p") else x[0][1] + "." + x[0][2] for x in q["nodes"]]
    return ids != want or any(d.get("parent") not in pids for d in D if "parent" in d) or \
        any(d.get("source") not in ids or d.get("target") not in ids for d in D if "source" in d) or \
        len([d for d in D if "source" in d]) != len(q["edges"])


def part_direct(chk, drv, st):
    """direct correspondence of io.to_cytoscape with the model on hand-made graphs (no SQL): every order of a small node set,
    owners that print alike, a shared owner under two aliases, an owner-less column, a Path owner"""
    import itertools
    import networkx as nx
    from sqllineage.core.models import Column, Path, SubQuery, Table
    from sqllineage.io import to_cytoscape

    def mk_col(raw, owners):
        c = Column(raw)
        for o in owners:
            c.parent = o
        return c

    t1, t2 = Table("t1"), Table("s1.t2")
    q1, q1b, q2 = SubQuery(None, "(select a from t1)", "x"), SubQuery(None, "(select a from t1)", "y"), SubQuery(None, "(select a from t2)", "x")
    p1 = Path("s3://bucket/f")
    pool_cols = [mk_col("a", [t1]), mk_col("a", [t2]), mk_col("a", [q1]), mk_col("a", [q1b]), mk_col("a", [q2]),
                 mk_col("b", [t1, t2]), mk_col("x", [q1, q2]), mk_col("c", []), mk_col("d", [p1]), mk_col("e0", [t1, q1])]
    n = 0
    combos = []
    for k in (2, 3):
        for sub in itertools.combinations(range(len(pool_cols)), k):
            for perm in itertools.permutations(sub):
                combos.append(perm)
    if chk.tier != "thorough":
        chk.rng.shuffle(combos)
        combos = combos[:400]
    reqs, impls = [], []
    for perm in combos:
        g = nx.DiGraph()
        cols = [pool_cols[i] for i in perm]
        for c in cols:
            g.add_node(c)
        for a, b in zip(cols, cols[1:]):
            g.add_edge(a, b)
        if len(cols) == 3:
            g.add_edge(cols[0], cols[2])
        reqs.append(handmade_request(g, True))
        try:
            impls.append(to_cytoscape(g, compound=True))
        except Exception as e:
            impls.append([{"data": {"raised": type(e).__name__}}])
    # table level: tables and a path
    for perm in itertools.permutations([t1, t2, p1]):
        g = nx.DiGraph()
        for x in perm:
            g.add_node(x)
        g.add_edge(perm[0], perm[1]); g.add_edge(perm[0], perm[2]); g.add_edge(perm[2], perm[2])
        reqs.append(handmade_request(g, False))
        try:
            impls.append(to_cytoscape(g))
        except Exception as e:
            impls.append([{"data": {"raised": type(e).__name__}}])
    ans = drv.ask(reqs)
    for q, i, a in zip(reqs, impls, ans):
        n += 1
        chk.count(canon_json(["direct", q["nodes"], q["edges"]]), True)
        if "elems" not in a:
            raise Infra("model driver error: " + str(a.get("error")))
        if a["elems"] != i:
            st.c["direct:impl!=model"] += 1
            rec = {"kind": "direct-graph", "request": q, "impl": i, "model": a["elems"]}
            if direct_bad(q, i):
                chk.violation("io.to_cytoscape on a hand-made graph: node ids / references are not those of the graph", rec)
                return n
            if len(chk.stale) < 20:
                chk.stale.append(rec)
        else:
            st.c["direct:agree"] += 1
    return n


def replay_finding(chk, drv, st):
    """DESIGN §2.5 step 7: the stored witness of D24 is replayed first"""
    e = chk.finding("D24")
    if not e:
        return
    w = e["witness"]
    r = impl_export({"sql": w["sql"], "dialect": w.get("dialect", "ansi")})
    if not is_result(r):
        chk.stale.append({"kind": "finding-witness", "id": "D24", "why": "the witness is no longer analysable", "impl": r})
        return
    fails, d24 = oracle(r)
    ids = [d.get("id") for d in _data(r["column"]) if "source" not in d] if exported(r) else []
    if d24 and not fails and sorted(_dups(ids)) == sorted(w["duplicate_ids"]):
        chk.known("D24")
        st.c["D24-witness-reproduced"] += 1
    elif fails:
        record_failure(chk, "the stored D24 witness now fails differently: " + ", ".join(f[0] for f in fails), fails,
                       {"sql": w["sql"], "dialect": w.get("dialect", "ansi")}, r)
    else:
        # the code no longer shows the deviation the model carries: correspondence is stale
        a = drv.ask1(model_request(w["ast"], r)) if "ast" in w else None
        chk.stale.append({"kind": "finding-witness", "id": "D24", "why": "the recorded duplicate ids no longer appear; the model still has them",
                          "sql": w["sql"], "impl_ids": ids, "model": (a or {}).get("out", {}).get("column")})


def run(chk):
    if not chk.lean.driver_ok:
        chk.stale.append({"kind": "driver", "why": "model driver does not build"})
        return chk.finish(level="proof", rule="driver unavailable")
    drv = Driver()
    st = sqlcheck.Stats()
    thorough = chk.tier == "thorough"
    if thorough and chk.lean.build_ok:
        ok, out = leanchecker(["SqlLineage.Props.C18", "SqlLineage.Proofs.ExportLemmas", "SqlLineage.Model.Export"])
        chk.coverage["leanchecker"] = "accepted" if ok else "REJECTED: " + out[-300:]
        if not ok:
            chk.lean.forbidden.append("leanchecker rejected SqlLineage.Props.C18: " + out[-300:])
    dialects = ["ansi", "sparksql", "tsql", "bigquery", "postgres"] if thorough else ["ansi", "sparksql", "bigquery", "tsql"]
    import time
    try:
        t0 = time.time()
        replay_finding(chk, drv, st)
        n_direct = part_direct(chk, drv, st)
        t1 = time.time()
        hstats, n_corpus = part_corpus(chk, drv, st, wsgi_every=6 if thorough else 12)
        t2 = time.time()
        n_cases, n_jobs = part_generated(chk, drv, st, dialects, wsgi_every=10 if thorough else 20)
        log(f"[c18] direct {t1 - t0:.1f}s ({n_direct} graphs)  corpus {t2 - t1:.1f}s ({n_corpus} runs)  "
            f"generated {time.time() - t2:.1f}s ({n_cases} inputs, {n_jobs} runs)")
    finally:
        sqlimpl.close_pool()
    chk.coverage.update({"corpus": hstats, "corpus_runs": n_corpus, "generated_inputs": n_cases, "generated_runs": n_jobs,
                         "direct_graphs": n_direct, "dialects": dialects, "distribution": st.as_dict(), "exhaustive": False})
    chk.assumptions += [
        "text -> tree (sqlfluff / sqlparse grammars) and, for the corpus, the analysis itself are not modelled here: the export model "
        "is run on the implementation's own combined graph (exact comparison on every result); generated inputs are additionally "
        "compared end to end, differences there being attributed to the walk model (C01/C02) when the direct comparison is exact",
        "networkx iteration orders of subgraph views (set order below half of the nodes) are taken from the implementation's "
        "output and handed to the model as a permutation; theorems hold for every order",
        "end to end only: statements with a subquery inside a select item (`_get_column_from_subquery` is not modelled) and CREATE "
        "TABLE column lists under dialects with another tree shape are compared on the summary alone",
        "the statement holders produced by the model's walk satisfy EdgesWF/NodesNodup: checked at run time on every generated "
        "case (driver field `wf`), proved preserved by every graph operation and by the assembler",
    ]
    return chk.finish(
        level="proof",
        rule="corpus = every SQL the repository's tests pass to LineageRunner (harvested by parsing tests/ with `ast`, both the sqlfluff "
             "dialect and the legacy parser) + data/tpcds/*.sql (quick: a third of them, rotating with the seed); generated = "
             "export-specific shapes (owners printing alike, shared owners, bare columns named like owners, CTEs, DDL/drop/rename "
             "scripts, metadata) + gensql.enumerate_shapes (a third / a sixth, rotating) + seeded random statements and 2-4 statement "
             "scripts, under ansi + one (quick) / two (thorough) of the other listed dialects per input, rotating; a share of all inputs goes through POST /lineage; direct = io.to_cytoscape on "
             "hand-made graphs in every node order. Each result: structural oracle on the implementation alone + exact "
             "comparison of both exports and the summary with the model run on the implementation's own graph; generated inputs also "
             "end to end; hand-made graphs: exact comparison. non-trivial = the export has at least one edge; distinct by (route, SQL, "
             "dialect, metadata)",
        trusted_base=["Lean 4.33 kernel", "axioms: propext, Classical.choice, Quot.sound", "harness/c18.py + corpus18.py + sqlimpl.py",
                      "networkx DiGraph / subgraph views (modelled, not verified)"])


def replay(chk, obj):
    r = obj["replay"]
    kind = r.get("kind")
    if kind in ("sql-text", "sql-ast"):
        case = {"sql": r["sql"], "dialect": r.get("dialect", "ansi"), "metadata": r.get("metadata"), "silent": r.get("silent"),
                "via": r.get("via")}
        res = impl_export(case)
        if not is_result(res):
            print(json.dumps({"sql": r["sql"], "result": res}, indent=1))
            return 0
        fails, d24 = oracle(res)
        if d24 and not chk.finding("D24"):
            fails = fails + [("ids_unique", d24)]
        print(json.dumps({"sql": r["sql"], "dialect": case["dialect"], "via": r.get("via") or "runner",
                          "failed_checks": [[n, d] for n, d in fails], "d24_class_duplicates": d24,
                          "table": res.get("table"), "column": res.get("column"), "summary": res.get("summary")}, indent=1, default=str))
        return 1 if fails else 0
    if kind == "direct-graph":
        from sqllineage.io import to_cytoscape
        q = r["request"]
        g = graph_from_request(q)
        try:
            out = to_cytoscape(g, compound=q["compound"]) if q["compound"] else to_cytoscape(g)
        except Exception as e:
            out = [{"data": {"raised": type(e).__name__}}]
        a = Driver().ask1(handmade_request(g, q["compound"]))
        bad = direct_bad(q, out)
        print(json.dumps({"graph": q, "export": out, "model": a.get("elems"), "ids_or_references_wrong": bad,
                          "differs_from_model": a.get("elems") != out}, indent=1)[:6000])
        return 1 if (bad or a.get("elems") != out) else 0
    if kind == "export-on-implementation-graph":
        case = {"sql": r["sql"], "dialect": r.get("dialect", "ansi"), "metadata": r.get("metadata"), "silent": r.get("silent"),
                "via": r.get("via")}
        res = impl_export(case)
        if not exported(res):
            fails, _ = oracle(res) if is_result(res) else ([], [])
            print(json.dumps({"sql": r["sql"], "result": res, "failed_checks": fails}, indent=1, default=str)[:3000])
            return 1 if fails else 0
        fails, d24 = oracle(res)
        fd, fa = full_diffs(Driver(), res)
        print(json.dumps({"sql": r["sql"], "dialect": case["dialect"], "differs_from_model_in": fd, "oracle_failures": fails,
                          "impl": {k: res[k] for k in fd}, "model": {k: (fa["out"][k]["elems"] if k != "summary" else fa["out"][k]) for k in fd}},
                         indent=1, default=str)[:6000])
        return 1 if (fd or fails) else 0
    if kind == "export-correspondence":
        drv = Driver()
        sql, res, diffs, fails, d24 = eval_generated(drv, r["ast"], r.get("metadata"), r.get("dialect", "ansi"), r.get("via"))
        print(json.dumps({"sql": sql, "differs_in": [x[0] for x in (diffs or [])], "oracle_failures": fails}, indent=1, default=str))
        return 1 if (diffs or fails) else 0
    print("replay file names no concrete input:", json.dumps(r)[:800])
    return 1
