"""C13 — metadata only refines column attribution.

Generated statements over SCHEMA-QUALIFIED tables x EVERY assignment of {known with columns C | unknown} to the tables in scope x
column-name overlap pattern {none, partial} (+ a spelling variant: the provider lists upper/mixed-case names), under both bundled
providers: `DummyMetaDataProvider(dict)` and `SQLAlchemyMetaDataProvider("sqlite:///:memory:")` (tables created on the fly, one
attached in-memory database per schema).

Oracles — implementation vs implementation / vs the property's text, the model is not consulted:
  O1 tables        source / target / intermediate tables and the table-level export with a provider == without one;
  O2 unknown       when no table in scope is known, EVERYTHING (paths, both exports) == without a provider;
  O3 star          `select *` / `select x.*` over ONE known table: the target gets exactly that table's columns (normalised), each fed by
                   the column of the same name; over an UNKNOWN table the wildcard pair stays;
  O4 unqualified   an unqualified column over 2-3 joined tables comes from exactly the in-scope tables whose metadata lists it; when none
                   lists it the column stays unresolved (never pinned on a table whose known columns lack it);
  O5 positions     INSERT without column list into a known target whose arity equals the select list: item i feeds the i-th known column
                   (also through UNION branches);
  O6 list wins     with an explicit column list item i feeds list[i], whatever the provider knows about the target (D8 when the list is
                   a strict subset of the known columns).
Correspondence: the Lean model (`sqlfx` = runner with the repaired create/insert extractor) on the same AST and metadata; equal paths,
or equal modulo the hash order of relations under an unqualified `*` (C11 / D16, `c02.agrees_modulo_order`).
"""
import collections
import itertools
import json
import os

import common
import c02
import gensql
import sqlcheck
import sqlimpl
from common import Check, Driver, Infra, canon_json, log

G = gensql
UNRELATED = {"zz.other": ["q"]}

# column sets per overlap pattern; `spelled` = what the provider lists (normalisation must make it the lower-case name)
PATTERNS = {
    "none": {"sa.t1": ["a1", "b1", "c1"], "sa.t2": ["a2", "b2"], "sb.t3": ["a3", "b3", "c3"], "sb.t1": ["a4", "b4"]},
    "partial": {"sa.t1": ["id", "a", "b"], "sa.t2": ["id", "a", "c"], "sb.t3": ["id", "d"], "sb.t1": ["id", "b", "e"]},
    "spelled": {"sa.t1": ["ID", "A", "b"], "sa.t2": ["Id", "a", "C"], "sb.t3": ["id", "D"], "sb.t1": ["ID", "B", "e"]},
}
# NOT in alphabetical order: the positions come from the ORDER the provider lists the columns in
TARGET_COLS = ["q9", "p", "zeta", "b0"]


def norm(c):
    return c.lower()


def T(full, alias=None):
    s, n = full.split(".")
    return G.table(n, s, alias)


def tgt_parts(full):
    return full.split(".")


# ------------------------------------------------------------------------------------------------ shapes
def shapes(pat):
    """yield dicts: name, ast, scope (source tables in scope), target (or None), oracle descriptor"""
    cols = {t: [norm(c) for c in cs] for t, cs in PATTERNS[pat].items()}
    t1, t2, t3, t4 = "sa.t1", "sa.t2", "sb.t3", "sb.t1"
    tg = "sa.tgt"
    ins = lambda q, target=tg, lst=None: ["insert", "into", False, tgt_parts(target), lst, q, False]

    def first(t, k=0):
        return cols[t][k]

    # --- O3 star over one table
    for kind in ("insert", "ctas", "view"):
        for style in ("bare", "alias", "tablename"):
            if style == "bare":
                q = G.select([G.item(["star", []])], [G.from_expr(T(t1))])
            elif style == "alias":
                q = G.select([G.item(["star", ["x"]])], [G.from_expr(T(t1, "x"))])
            else:
                q = G.select([G.item(["star", ["t1"]])], [G.from_expr(T(t1))])
            ast = ins(q) if kind == "insert" else (["ctas", tgt_parts(tg), False, False, q, False] if kind == "ctas" else ["create_view", tgt_parts(tg), False, None, q])
            yield dict(name=f"star1/{kind}/{style}", ast=ast, scope=[t1], target=tg, target_meta=(kind == "insert"),
                       oracle=("star", t1, []))
    q = G.select([G.item(G.col(first(t1))), G.item(["star", []])], [G.from_expr(T(t1))])
    yield dict(name="star1/plus-column", ast=ins(q), scope=[t1], target=tg, target_meta=True, oracle=("star", t1, [first(t1)]))
    q = G.select([G.item(["star", ["x"]])], [G.from_expr(T(t1, "x"), [G.join(T(t2, "y"), G.eq(G.col(first(t1), "x"), G.col(first(t2), "y")))])])
    yield dict(name="star1/one-of-two", ast=ins(q), scope=[t1, t2], target=tg, target_meta=True, oracle=("star", t1, []))
    q = G.select([G.item(["star", []])], [G.from_expr(G.derived(G.select([G.item(["star", []])], [G.from_expr(T(t1))]), "d"))])
    yield dict(name="star1/through-derived", ast=ins(q), scope=[t1], target=tg, target_meta=True, oracle=("star-chain", t1, []))
    q = G.with_([("c1", G.select([G.item(["star", []])], [G.from_expr(T(t3))]))], G.select([G.item(["star", []])], [G.from_expr(G.table("c1"))]))
    # the outer `*` ranges over a CTE, not over a known table: CTE bodies are extracted after the main query, nothing to expand from (D25 family)
    yield dict(name="star1/through-cte", ast=ins(q), scope=[t3], target=tg, target_meta=True, oracle=("none",))
    # star over two relations: table level + correspondence only (attribution of shared names is hash-order dependent, D16)
    q = G.select([G.item(["star", []])], [G.from_expr(T(t1, "x"), [G.join(T(t2, "y"), G.eq(G.col(first(t1), "x"), G.col(first(t2), "y")))])])
    yield dict(name="star2/join", ast=ins(q), scope=[t1, t2], target=tg, target_meta=True, oracle=("none",))
    # the same join under the star-join oracle: each KNOWN table contributes its columns by name, each UNKNOWN table keeps its wildcard
    # pair ("tables the provider does not know get the same answer as without metadata", D48)
    yield dict(name="star2/join-mixed", ast=ins(q), scope=[t1, t2], target=tg, target_meta=True, oracle=("star-join", [t1, t2]))
    q3 = G.select([G.item(["star", []])], [G.from_expr(T(t1, "x"), [G.join(T(t2, "y"), G.eq(G.col(first(t1), "x"), G.col(first(t2), "y"))),
                                                                  G.join(T(t3, "z"), G.eq(G.col(first(t1), "x"), G.col(first(t3), "z")))])])
    yield dict(name="star3/join-mixed", ast=ins(q3), scope=[t1, t2, t3], target=tg, target_meta=True, oracle=("star-join", [t1, t2, t3]))
    # `*` over a known table into a target the provider knows under the SAME column names, in the same order (the usual staging copy):
    # expansion by name and naming by position coincide (D47)
    q = G.select([G.item(["star", []])], [G.from_expr(T(t1))])
    yield dict(name="star-same-names/known-target", ast=ins(q), scope=[t1], target=tg, target_cols=list(PATTERNS[pat][t1]),
               oracle=("star-same", t1))
    # plain SELECT (no target)
    yield dict(name="select-only/star", ast=["query", G.select([G.item(["star", []])], [G.from_expr(T(t1))]), False], scope=[t1], target=None,
               target_meta=False, oracle=("none",))

    # --- O4 unqualified columns over 2 / 3 joined tables
    def unq(tables, kind):
        universe = []
        for t in tables:
            for c in cols[t]:
                if c not in universe:
                    universe.append(c)
        names = universe[:5] + ["zz"]
        aliases = [f"k{i}" for i in range(len(names))]
        al = ["x", "y", "z"]
        base = T(tables[0], al[0])
        joins = []
        for i, t in enumerate(tables[1:], 1):
            kk = "left join" if i == 2 else "join"
            joins.append(G.join(T(t, al[i]), G.eq(G.col("jk", al[0]), G.col("jk", al[i])), kk))
        q = G.select([G.item(G.col(c), a, True) for c, a in zip(names, aliases)], [G.from_expr(base, joins)])
        if kind == "comma":
            q = G.select([G.item(G.col(c), a, True) for c, a in zip(names, aliases)], [G.from_expr(T(t, al[i])) for i, t in enumerate(tables)])
        ast = ins(q) if kind != "ctas" else ["ctas", tgt_parts(tg), False, False, q, False]
        return dict(name=f"unq{len(tables)}/{kind}/" + "-".join(t.replace(".", "_") for t in tables), ast=ast, scope=list(tables), target=tg, target_meta=False,
                    oracle=("unq", list(zip(names, aliases))))
    yield unq([t1, t2], "join")
    yield unq([t1, t2], "ctas")
    yield unq([t1, t2], "comma")
    yield unq([t1, t4], "join")         # same bare table name in two schemas
    yield unq([t1, t2, t3], "join")
    # expressions over unqualified columns
    a, b = cols[t1][1], cols[t2][-1]
    q = G.select([G.item(G.func("coalesce", [G.col(a), G.col(b)]), "k0", True), G.item(["bin", "+", G.col(cols[t1][0]), G.lit("1")], "k1", True)],
                 [G.from_expr(T(t1, "x"), [G.join(T(t2, "y"), G.eq(G.col("jk", "x"), G.col("jk", "y")))])])
    yield dict(name="unq2/expr", ast=ins(q), scope=[t1, t2], target=tg, target_meta=False,
               oracle=("unq-multi", [([a, b], "k0"), ([cols[t1][0]], "k1")]))

    # --- O5 positions from target metadata, O6 explicit list
    src = [G.item(G.col(cols[t1][0]), "z0", True), G.item(G.col(cols[t1][1]), "z1", True), G.item(G.func("max", [G.col(cols[t1][2])]), "z2", True)]
    srcnames = [cols[t1][0], cols[t1][1], cols[t1][2]]
    q3 = G.select(src, [G.from_expr(T(t1))])
    yield dict(name="insert/no-list/arity-eq", ast=ins(q3), scope=[t1], target=tg, target_cols=TARGET_COLS[:3],
               oracle=("positions", t1, srcnames, ["z0", "z1", "z2"]))
    # the query in parentheses right after the table (`insert into t (select ...)`): still no column list
    insb = ins(q3)
    insb[-1] = True
    yield dict(name="insert/no-list/bracketed-query", ast=insb, scope=[t1], target=tg, target_cols=TARGET_COLS[:3],
               oracle=("positions", t1, srcnames, ["z0", "z1", "z2"]))
    yield dict(name="insert/no-list/arity-gt", ast=ins(q3), scope=[t1], target=tg, target_cols=TARGET_COLS[:4],
               oracle=("none",))
    q3n = G.select([G.item(G.col(c)) for c in srcnames], [G.from_expr(T(t1))])
    yield dict(name="insert/no-list/unaliased", ast=ins(q3n), scope=[t1], target=tg, target_cols=TARGET_COLS[:3],
               oracle=("positions", t1, srcnames, srcnames))
    c0, c1, c2, c3 = TARGET_COLS
    for lname, lst, tc in (("full-permuted", [c2, c0, c1], TARGET_COLS[:3]), ("strict-subset", [c1, c0, c2], TARGET_COLS[:4]),
                           ("subset2", [c0, c1], TARGET_COLS[:3]), ("not-in-metadata", ["m", "n", "o"], TARGET_COLS[:3]),
                           ("superset-names", [c0, c1, "zz"], TARGET_COLS[:2])):
        qq = q3 if len(lst) == 3 else G.select(src[:2], [G.from_expr(T(t1))])
        yield dict(name=f"insert/list/{lname}", ast=ins(qq, tg, lst), scope=[t1], target=tg, target_cols=tc,
                   oracle=("list", t1, srcnames[:len(lst)], lst))
    u1 = G.select([G.item(G.col(cols[t1][0])), G.item(G.col(cols[t1][1]))], [G.from_expr(T(t1))])
    u2 = G.select([G.item(G.col(cols[t2][0])), G.item(G.col(cols[t2][1]))], [G.from_expr(T(t2))])
    un = G.setop((u1, False), [("union all", (u2, False))])
    yield dict(name="union/no-list", ast=ins(un), scope=[t1, t2], target=tg, target_cols=TARGET_COLS[:2],
               oracle=("positions-union", [(t1, cols[t1][:2]), (t2, cols[t2][:2])], cols[t1][:2]))
    yield dict(name="union/list", ast=ins(un, tg, [TARGET_COLS[1], TARGET_COLS[0]]), scope=[t1, t2], target=tg, target_cols=TARGET_COLS[:3],
               oracle=("list-union", [(t1, cols[t1][:2]), (t2, cols[t2][:2])], [TARGET_COLS[1], TARGET_COLS[0]]))
    # the wildcard against positional naming (finding D46-star-vs-positions): star + known target, star in a later union branch, star + explicit list
    q = G.select([G.item(["star", []])], [G.from_expr(T(t1))])
    yield dict(name="star-vs-positions/known-target", ast=ins(q), scope=[t1], target=tg, target_cols=TARGET_COLS[:3], oracle=("star-positions", t1))


def aux_scripts():
    """correspondence-only cases (implementation vs Lean model; no oracle of the property speaks about them): session metadata of an
    earlier statement — consulted only behind the `bool(provider)` gates — and tables in the placeholder schema, which the repair of
    unresolved columns never looks up"""
    sa_t1, sa_t2, tg = "sa.t1", "sa.t2", "sa.tgt"
    create = ["create_table", tgt_parts(tg), False, [["p", "int"], ["q", "int"]]]
    ins2 = ["insert", "into", False, tgt_parts(tg), None, G.select([G.item(G.col("a1")), G.item(G.col("b1"))], [G.from_expr(T(sa_t1))]), False]
    unq = ["insert", "into", False, tgt_parts(tg), None,
           G.select([G.item(G.col("id"), "k0", True), G.item(G.col("c"), "k1", True)],
                    [G.from_expr(G.table("t1", None, "x"), [G.join(T(sa_t2, "y"), G.eq(G.col("jk", "x"), G.col("jk", "y")))])]), False]
    create_src = ["create_table", tgt_parts(sa_t1), False, [["id", "int"], ["a", "int"]]]
    unq2 = ["insert", "into", False, tgt_parts(tg), None,
            G.select([G.item(G.col("id"), "k0", True), G.item(G.col("c"), "k1", True)],
                     [G.from_expr(T(sa_t1, "x"), [G.join(T(sa_t2, "y"), G.eq(G.col("jk", "x"), G.col("jk", "y")))])]), False]
    out = []
    for name, stmts, mds in (
        ("session-target-then-insert", [create, ins2], [None, {}, {"sa.t1": ["a1", "b1"]}, {"sa.tgt": ["r", "s"]}]),
        ("placeholder-schema-table", [unq], [None, {"<default>.t1": ["id"], "sa.t2": ["c"]}, {"sa.t2": ["id", "c"]}]),
        ("session-source-then-join", [create_src, unq2], [None, {}, {"sa.t2": ["c"]}, {"sa.t2": ["id", "c"]}]),
    ):
        for md in mds:
            out.append((name, stmts, md))
    return out


def scope_tables(sh):
    return sh["scope"] + ([sh["target"]] if sh.get("target") and (sh.get("target_cols") or sh.get("target_meta")) and sh["ast"][0] == "insert" else [])


def metadata_for(sh, pat, known):
    md = {}
    for t in known:
        if t == sh.get("target"):
            md[t] = list(sh.get("target_cols") or TARGET_COLS[:3])
        else:
            md[t] = list(PATTERNS[pat][t])
    return md


# ------------------------------------------------------------------------------------------------ running the implementation
def make_provider(kind, md):
    if kind is None:
        return None
    if kind == "dict":
        from sqllineage.core.metadata.dummy import DummyMetaDataProvider
        return DummyMetaDataProvider(dict(md) if md else dict(UNRELATED))
    from sqlalchemy import text
    from sqllineage.core.metadata.sqlalchemy import SQLAlchemyMetaDataProvider
    p = SQLAlchemyMetaDataProvider("sqlite:///:memory:")
    with p.engine.connect() as conn:
        done = set()
        for full, cs in md.items():
            s, n = full.split(".")
            if s not in ("main", "temp") and s not in done:
                conn.execute(text(f"ATTACH DATABASE ':memory:' AS \"{s}\""))
                done.add(s)
            conn.execute(text("CREATE TABLE \"%s\".\"%s\" (%s)" % (s, n, ", ".join('"%s" INTEGER' % c for c in cs))))
        conn.commit()
    return p


def run_case13(case):
    import logging
    import warnings
    logging.disable(logging.CRITICAL)
    LineageRunner, _, SQLLineageConfig, X = sqlimpl._imports()
    try:
        with warnings.catch_warnings():
            warnings.simplefilter("ignore")
            kw = {}
            prov = make_provider(case.get("provider"), case.get("metadata") or {})
            if prov is not None:
                kw["metadata_provider"] = prov
            sql = case["sql"]
            if isinstance(sql, list):
                sql = ";\n".join(sql)
            if case.get("default_schema"):
                with SQLLineageConfig(DEFAULT_SCHEMA=case["default_schema"]):
                    lr = LineageRunner(sql, dialect=case.get("dialect", "ansi"), **kw)
                    res = sqlimpl.result_of(lr, ("tables", "columns", "cyto"))
            else:
                lr = LineageRunner(sql, dialect=case.get("dialect", "ansi"), **kw)
                res = sqlimpl.result_of(lr, ("tables", "columns", "cyto"))
            if prov is not None and case.get("provider") == "sqlite":
                prov.engine.dispose()
        return {"result": res}
    except X.InvalidSyntaxException as e:
        return {"rejected": str(e)[-200:]}
    except BaseException as e:  # noqa
        if isinstance(e, (KeyboardInterrupt, SystemExit)):
            raise
        return sqlimpl.classify_exception(e)


def run_all(cases):
    if len(cases) < 8:
        return [run_case13(c) for c in cases]
    return sqlimpl.pool().map(run_case13, cases, chunksize=6)


def sqlalchemy_available():
    try:
        import sqlalchemy  # noqa
        from sqllineage.core.metadata.sqlalchemy import SQLAlchemyMetaDataProvider  # noqa
        return True
    except Exception as e:  # noqa
        return False


# ------------------------------------------------------------------------------------------------ oracles
def pairs(res):
    return sorted({(p[0], p[-1]) for p in res["result"]["paths"]})


def table_view(res):
    r = res["result"]
    return {k: r[k] for k in ("source", "target", "intermediate", "cyto_table")}


def full_view(res):
    r = res["result"]
    cc = dict(r["cyto_column"]); cc.pop("ids", None)
    return {"tables": table_view(res), "paths": r["paths"], "cyto_column": cc}


def check_oracles(sh, pat, known, res, base):
    """-> list of (oracle, message, class) the implementation's answer violates"""
    bad = []
    if "result" not in res or "result" not in base:
        if {k: res.get(k) for k in ("error", "etype")} != {k: base.get(k) for k in ("error", "etype")}:
            bad.append(("O1", f"with provider: {res.get('error')} / without: {base.get('error')}", None))
        return bad
    if table_view(res) != table_view(base):
        bad.append(("O1", "table-level lineage changes when metadata is supplied", None))
    if not known and full_view(res) != full_view(base):
        bad.append(("O2", "no table in scope is known to the provider, yet the answer differs from the answer without metadata", None))
    o = sh["oracle"]
    cols = {t: [norm(c) for c in cs] for t, cs in PATTERNS[pat].items()}
    tg = sh.get("target")
    P = pairs(res)
    tgt_known = tg in known
    if o[0] in ("star", "star-chain"):
        t, extra = o[1], o[2]
        insert_no_list = sh["ast"][0] == "insert" and sh["ast"][4] is None
        if t in known and not (tgt_known and insert_no_list):
            want = sorted({(f"{t}.{c}", f"{tg}.{c}") for c in cols[t]} | {(f"{t}.{c}", f"{tg}.{c}") for c in extra})
            if P != want:
                bad.append(("O3", f"`*` over the known table {t} does not expand to exactly its columns: {P} (expected {want})", None))
        elif t not in known and o[0] == "star" and not tgt_known:
            if (f"{t}.*", f"{tg}.*") not in P:
                bad.append(("O3", f"`*` over the unknown table {t}: the wildcard pair is gone: {P}", None))
    elif o[0] in ("unq", "unq-multi"):
        specs = [([c], a) for c, a in o[1]] if o[0] == "unq" else o[1]
        for names, alias in specs:
            want = set()
            for c in names:
                owners = [t for t in sh["scope"] if t in known and c in cols[t]]
                if owners:
                    want |= {(f"{t}.{c}", f"{tg}.{alias}") for t in owners}
                else:
                    want.add((c, f"{tg}.{alias}"))
            got = {p for p in P if p[1] == f"{tg}.{alias}"}
            if got != want:
                lacking = [t for t in sh["scope"] if t in known and any((f"{t}.{c}", f"{tg}.{alias}") in got and c not in cols[t] for c in names)]
                bad.append(("O4", f"unqualified {names} -> {alias}: sources {sorted(got)}, expected {sorted(want)}"
                            + (f" (attributed to {lacking} whose known columns lack it)" if lacking else ""), None))
    elif o[0] == "positions":
        t, srcn, own = o[1], o[2], o[3]
        if tgt_known:
            meta = [norm(c) for c in sh["target_cols"]]
            want = sorted((f"{t}.{s}", f"{tg}.{m}") for s, m in zip(srcn, meta))
        else:
            want = sorted((f"{t}.{s}", f"{tg}.{m}") for s, m in zip(srcn, own))
        if P != want:
            bad.append(("O5", f"INSERT without column list, target {'known' if tgt_known else 'unknown'}: {P} (expected {want})", None))
    elif o[0] == "positions-union":
        brs, own = o[1], o[2]
        names = [norm(c) for c in sh["target_cols"]] if tgt_known else own
        want = sorted({(f"{t}.{s}", f"{tg}.{m}") for t, ss in brs for s, m in zip(ss, names)})
        if P != want:
            bad.append(("O5", f"INSERT ... UNION without column list, target {'known' if tgt_known else 'unknown'}: {P} (expected {want})", None))
    elif o[0] == "list":
        t, srcn, lst = o[1], o[2], o[3]
        want = sorted((f"{t}.{s}", f"{tg}.{m}") for s, m in zip(srcn, lst))
        if P != want:
            meta = [norm(c) for c in sh["target_cols"]] if tgt_known else []
            cls = "D8" if tgt_known and (set(meta) - set(lst)) else None
            bad.append(("O6", f"explicit column list {lst} does not name the positions (target known as {meta}): {P} (expected {want})", cls))
    elif o[0] == "list-union":
        brs, lst = o[1], o[2]
        want = sorted({(f"{t}.{s}", f"{tg}.{m}") for t, ss in brs for s, m in zip(ss, lst)})
        if P != want:
            meta = [norm(c) for c in sh["target_cols"]] if tgt_known else []
            cls = "D8" if tgt_known and (set(meta) - set(lst)) else None
            bad.append(("O6", f"explicit column list {lst} over UNION does not name the positions: {P} (expected {want})", cls))
    elif o[0] == "star-join":
        ts = o[1]
        kn = [t for t in ts if t in known]
        overlap = any(set(cols[a]) & set(cols[b]) for a in kn for b in kn if a < b)
        if not tgt_known and not overlap:
            want = sorted({(f"{t}.{c}", f"{tg}.{c}") for t in kn for c in cols[t]} | {(f"{t}.*", f"{tg}.*") for t in ts if t not in known})
            if P != want:
                bad.append(("O3", f"`*` over the join of {ts} (known: {kn}): {P} (expected {want}: every known table's columns by name, "
                                  "every unknown table's wildcard pair as without metadata)", None))
    elif o[0] == "star-same":
        t = o[1]
        if tgt_known and t in known:
            want = sorted((f"{t}.{c}", f"{tg}.{c}") for c in cols[t])
            if P != want:
                bad.append(("O3", f"`*` over the known table {t} into {tg}, known under the same column names: {P} (expected {want})", None))
    elif o[0] == "star-positions":
        t = o[1]
        if tgt_known and t in known:
            meta = [norm(c) for c in sh["target_cols"]]
            want = sorted((f"{t}.{s}", f"{tg}.{m}") for s, m in zip(cols[t], meta))
            if P != want:
                bad.append(("O5", f"INSERT without column list, `*` over known {t} into known {tg}: the target's known columns do not "
                                  f"name the positions: {P} (expected {want})", "D46-star-vs-positions"))
    return bad


# ------------------------------------------------------------------------------------------------ model side
def setop_with_star(ast):
    has_setop = any(isinstance(n, list) and n and n[0] == "setop" for n in G._walk(ast))
    has_star = any(isinstance(n, list) and n and n[0] == "star" for n in G._walk(ast))
    return has_setop and has_star


def model_request(sh, md, rev_star=0):
    """targeted shapes carry their AST; random statements are qualified by Lean itself (`qualify` answers the model's result for the
    qualified statement in `qout`)"""
    md = md if md else UNRELATED
    if sh.get("ast") is not None:
        return {"cmd": "sqlfx", "stmts": [sh["ast"]], "metadata": md, "rev_star": rev_star}
    return {"cmd": "qualify", "stmts": [sh["orig_ast"]], "schema": "sa", "default_schema": "", "metadata": md, "fixed": True, "rev_star": rev_star}


def model_answer(a):
    if "qout" in a:
        return {"out": a["qout"]}
    if "out" not in a:
        raise Infra("model driver error: " + json.dumps(a)[:300])
    return a


def model_outcomes(drv, sh, md, n=24):
    ks = [0, 1] + [(i * 2654435761 + i * i * 40503) % (10 ** 9) for i in range(2, n)]
    out = [model_answer(a) for a in drv.ask([model_request(sh, md, k) for k in ks])]
    seen, res = set(), []
    for a in out:
        m = c02.model_paths(a)
        k = canon_json(m)
        if k not in seen:
            seen.add(k); res.append(m)
    return res


def assignments(tables):
    for r in range(len(tables) + 1):
        for ks in itertools.combinations(tables, r):
            yield list(ks)


# ------------------------------------------------------------------------------------------------ the check
def run(chk):
    if not chk.lean.driver_ok:
        chk.stale.append({"kind": "driver", "why": "model driver does not build"})
        return chk.finish(level="proof", rule="driver unavailable")
    drv = Driver()
    thorough = chk.tier == "thorough"
    if thorough:
        ok, out = common.leanchecker(['SqlLineage.Props.C13', 'SqlLineage.Proofs.FrameLemmas', 'SqlLineage.Proofs.WriteColsLemmas', 'SqlLineage.Proofs.FlatLemmas', 'SqlLineage.Model.InsertCols'])
        chk.coverage["leanchecker"] = "accepted" if ok else "REJECTED: " + out[-300:]
        if not ok:
            chk.lean.forbidden.append("leanchecker rejected the property's modules: " + out[-300:])
    have_sqlite = sqlalchemy_available()
    st = sqlcheck.Stats()
    dialect = "ansi"
    jobs = []      # dict(sh, pat, known, provider, md, sql)
    # ---- targeted shapes, exhaustive over assignments
    all_shapes = []
    for pat in PATTERNS:
        for sh in shapes(pat):
            all_shapes.append((pat, sh))
    rend = drv.ask([{"cmd": "render", "stmts": [sh["ast"]]} for _, sh in all_shapes])
    n_assign = 0
    for (pat, sh), r in zip(all_shapes, rend):
        if "sql" not in r:
            raise Infra("render failed: " + json.dumps(r)[:200])
        sh["sql"] = r["sql"][0]
        sh["pat"] = pat
        tabs = scope_tables(sh)
        for known in assignments(tabs):
            n_assign += 1
            md = metadata_for(sh, pat, known)
            provs = ["dict"]
            if have_sqlite and (thorough or (n_assign % 3 == 0) or not known):
                provs.append("sqlite")
            for pv in provs:
                jobs.append(dict(sh=sh, pat=pat, known=known, provider=pv, md=md))
    # ---- random statements over qualified tables (Lean qualifies every bare base table with `sa`)
    n_rand = 700 if thorough else 90
    R = gensql.Rand(chk.rng, max_depth=3 if thorough else 2, allow={"subq_item": False})
    rstmts = []
    for i in range(n_rand):
        s = R.stmt(chk.rng.choice([1, 2, 2, 3]) if thorough else chk.rng.choice([1, 2]))
        if chk.rng.random() < 0.2 and s[0] == "insert":
            n_items = c02.top_arity(s)
            if n_items:
                s[4] = [f"k{j}" for j in range(n_items)]
        rstmts.append(s)
    qa = drv.ask([{"cmd": "qualify", "stmts": [s], "schema": "sa", "default_schema": ""} for s in rstmts])
    rnd = []
    for i, (s, a) in enumerate(zip(rstmts, qa)):
        if "qsql" not in a:
            raise Infra("qualify failed: " + json.dumps(a)[:200])
        rnd.append(dict(name=f"rand-{i}", sql=a["qsql"][0], ast=None, orig_ast=s, oracle=("none",), scope=[], target=None))
    base_rnd = run_all([{"sql": r["sql"], "dialect": dialect, "provider": None} for r in rnd])
    for r, b in zip(rnd, base_rnd):
        if "result" not in b:
            continue
        tabs = sorted(set(b["result"]["source"] + b["result"]["target"] + b["result"]["intermediate"]))
        tabs = [t for t in tabs if t.count(".") == 1 and not t.startswith("<")]
        r["tabs"] = tabs
        n_as = 4 if thorough else 2
        for j in range(n_as):
            known = [t for t in tabs if chk.rng.random() < (0.0 if j == 0 else 0.6)]
            md = {t: chk.rng.sample(gensql.COLS + ["k0", "k1", "f"], chk.rng.randrange(1, 5)) for t in known}
            pv = "sqlite" if (have_sqlite and (j % 2 == 1)) else "dict"
            jobs.append(dict(sh=r, pat="random", known=known, provider=pv, md=md, base=b))
    # ---- run
    shape_base = {}
    todo = [(pat, sh) for pat, sh in all_shapes]
    bres = run_all([{"sql": sh["sql"], "dialect": dialect, "provider": None} for _, sh in todo])
    for (pat, sh), b in zip(todo, bres):
        if (pat, sh["name"]) in shape_base:
            raise Infra("duplicate shape name " + sh["name"])
        shape_base[(pat, sh["name"])] = b
    results = run_all([{"sql": j["sh"]["sql"], "dialect": dialect, "provider": j["provider"], "metadata": j["md"]} for j in jobs])
    # O7: every table of these statements is schema-qualified, so a configured DEFAULT schema — here the schema most of the known
    # tables live in — must not change anything (the metadata lookups go by the table's own schema)
    results_ds = run_all([{"sql": j["sh"]["sql"], "dialect": dialect, "provider": j["provider"], "metadata": j["md"], "default_schema": "sa"}
                          for j in jobs])
    sqlimpl.close_pool()
    # ---- model answers (dict semantics; the sqlite provider must behave like the dict)
    mreq, midx = [], {}
    for k, j in enumerate(jobs):
        req = model_request(j["sh"], j["md"])
        key = canon_json(req)
        if key not in midx:
            midx[key] = len(mreq)
            mreq.append(req)
    mans = [model_answer(a) for a in drv.ask(mreq)]
    # ---- classify
    listed = {e["id"] for e in chk.findings if e.get("status") == "finding"}
    viol = []
    d27_seen = 0
    for k, (j, res) in enumerate(zip(jobs, results)):
        sh = j["sh"]
        base = j.get("base") or shape_base[(j["pat"], sh["name"])]
        if "rejected" in res or "rejected" in base:
            st.reject[dialect] += 1
            continue
        st.accept[dialect] += 1
        nontrivial = "result" in res and bool(res["result"]["paths"]) and bool(j["known"])
        chk.count(canon_json([sh["sql"], j["md"], j["provider"]]), nontrivial)
        st.c[f"provider:{j['provider']}"] += 1
        st.c[f"shape:{sh['name'].split('/')[0].split('-')[0]}"] += 1
        st.c[f"known:{len(j['known'])}"] += 1
        bad = check_oracles(sh, j["pat"], j["known"], res, base) if j["pat"] != "random" else check_random(j, res, base)
        rds = results_ds[k]
        if "result" in res and "rejected" not in rds and j["pat"] != "random" and rds.get("result") != res["result"]:
            got = pairs(rds) if "result" in rds else rds.get("error")
            bad.append(("O7", f"with DEFAULT_SCHEMA=sa (every table is written schema-qualified) the answer changes: pairs {got} "
                              f"instead of {pairs(res)}", None))
            st.c["O7:mismatch"] += 1
        st.c["O7:checked"] += 1
        for orc, msg, cls in bad:
            if cls == "D46-star-vs-positions" and "D46-star-vs-positions" in listed:
                chk.known("D46-star-vs-positions"); d27_seen += 1
                continue
            st.c["FAIL:" + orc + (":" + cls if cls else "")] += 1
            viol.append((k, orc, msg, cls))
        if not bad:
            st.c["oracles-hold"] += 1
            if st.c["oracles-hold"] % 300 == 1:
                chk.sample({"sql": sh["sql"], "metadata": j["md"], "provider": j["provider"],
                            "pairs": pairs(res) if "result" in res else res})
        # correspondence with the model (random statements that combine a set operation with a wildcard item are outside the model's
        # verified column-level fragment: table level only, see C02)
        if "result" in res and sh.get("orig_ast") is not None and setop_with_star(sh["orig_ast"]):
            st.c["model:skipped(setop+star)"] += 1
        elif "result" in res:
            a = mans[midx[canon_json(model_request(sh, j["md"]))]]
            mp = c02.model_paths(a)
            ip = res["result"]["paths"]
            if ip == mp:
                st.c["model:agree"] += 1
            else:
                outs = model_outcomes(drv, sh, j["md"])
                if c02.agrees_modulo_order(ip, outs):
                    st.c["model:agree-modulo-star-order"] += 1
                else:
                    st.c["model:DISAGREE"] += 1
                    if not bad and len(chk.stale) < 10:
                        chk.stale.append({"kind": "c13-model", "sql": sh["sql"], "metadata": j["md"], "provider": j["provider"],
                                          "impl_paths": ip, "model_paths": mp})
    # ---- auxiliary correspondence (session metadata, placeholder schema): implementation vs model only
    aux = aux_scripts()
    arend = drv.ask([{"cmd": "render", "stmts": ss} for _, ss, _ in aux])
    aimpl = [run_case13({"sql": r["sql"], "dialect": dialect, "provider": (None if md is None else "dict"), "metadata": md})
             for (_, ss, md), r in zip(aux, arend)]
    amodel = drv.ask([dict({"cmd": "sqlfx", "stmts": ss}, **({} if md is None else {"metadata": md if md else UNRELATED})) for _, ss, md in aux])
    for (name, ss, md), r, i, a in zip(aux, arend, aimpl, amodel):
        chk.count(canon_json(["aux", r["sql"], md]), True)
        st.c["aux:" + name] += 1
        ip = i["result"]["paths"] if "result" in i else i
        mp = c02.model_paths(model_answer(a))
        if ip == mp:
            st.c["model:agree"] += 1
        else:
            st.c["model:DISAGREE"] += 1
            chk.stale.append({"kind": "c13-model-aux", "case": name, "sql": r["sql"], "metadata": md, "impl_paths": ip, "model_paths": mp})
    # both providers must agree with each other on identical metadata
    byk = collections.defaultdict(dict)
    for j, res in zip(jobs, results):
        byk[canon_json([j["sh"]["sql"], j["md"]])][j["provider"]] = res
    for key, d in byk.items():
        if "dict" in d and "sqlite" in d and "result" in d["dict"] and "result" in d["sqlite"]:
            st.c["providers-compared"] += 1
            if full_view(d["dict"]) != full_view(d["sqlite"]):
                st.c["FAIL:providers-differ"] += 1
                sql, md = json.loads(key)
                viol.append((None, "providers", f"dict-backed and SQLAlchemy providers answer differently on the same metadata: {sql} {md}", None))
    # ---- report (one violation per oracle/class, smallest SQL first)
    seen = set()
    for k, orc, msg, cls in sorted(viol, key=lambda v: (v[1], len(jobs[v[0]]["sh"]["sql"]) if v[0] is not None else 0)):
        if (orc, cls) in seen:
            continue
        seen.add((orc, cls))
        if k is None:
            chk.violation(msg, {"kind": "c13-providers", "what": msg})
            continue
        j = jobs[k]
        sh = j["sh"]
        rec = {"kind": "c13", "oracle": orc, "class": cls, "sql": sh["sql"], "dialect": dialect, "provider": j["provider"], "metadata": j["md"],
               "known": j["known"], "pattern": j["pat"], "shape": sh["name"],
               "with_provider": pairs(results[k]) if "result" in results[k] else results[k],
               "without_provider": pairs(j.get("base") or shape_base[(j["pat"], sh["name"])]) if "result" in (j.get("base") or shape_base[(j["pat"], sh["name"])]) else None}
        chk.violation(f"{orc}: {msg}" + (f" [{cls} class]" if cls else ""), rec)
    chk.coverage.update({"shapes": len(all_shapes), "assignments_enumerated": n_assign, "random_statements": n_rand, "providers": ["dict"] + (["sqlite"] if have_sqlite else []),
                         "sqlalchemy_available": have_sqlite, "patterns": list(PATTERNS), "distribution": st.as_dict(),
                         "exhaustive": False,
                         "exhaustive_part": "assignments of {known, unknown} to the tables in scope of every targeted shape: all subsets; random statements: sampled"})
    chk.assumptions += ["SQLAlchemy reflection is used as a black box (sqlite in memory, one attached in-memory database per schema)",
                        "the attribution of a column name shared by several relations under an unqualified `*` depends on set order (C11 / D16): "
                        "for those statements only table-level equality and the correspondence modulo order are checked",
                        "single statements (the property's quantifier); session metadata across statements is C04 / C12"]
    return chk.finish(
        level="proof",
        rule="targeted shapes (select *, x.*, star through derived table / CTE, unqualified columns over 2-3 joined tables incl. the same bare "
             "table name in two schemas, INSERT with / without column list, UNION, CTAS, VIEW) x overlap pattern {none, partial, partial "
             "with upper/mixed-case provider spellings} x EVERY subset of the tables in scope known x provider {dict, sqlite via SQLAlchemy}; "
             "+ seeded random statements qualified by Lean x sampled assignments; each compared with the run without provider (O1, O2), the "
             "property's text (O3-O6) and the Lean model. non-trivial = at least one known table and one column path; distinct by (SQL, metadata, provider)",
        trusted_base=["Lean 4.33 kernel", "axioms: propext, Classical.choice, Quot.sound", "harness/c13.py, c02.py (order classes), sqlimpl.py"])


def check_random(j, res, base):
    bad = []
    if "result" not in res or "result" not in base:
        if {k: res.get(k) for k in ("error", "etype")} != {k: base.get(k) for k in ("error", "etype")}:
            bad.append(("O1", f"with provider: {res.get('error')} ({res.get('etype')}) / without: {base.get('error')}", None))
        return bad
    if table_view(res) != table_view(base):
        bad.append(("O1", "table-level lineage changes when metadata is supplied", None))
    if not j["known"] and full_view(res) != full_view(base):
        bad.append(("O2", "no table in scope is known to the provider, yet the answer differs from the answer without metadata", None))
    return bad


def replay(chk, obj):
    r = obj["replay"]
    if r.get("kind") == "c13":
        base = run_case13({"sql": r["sql"], "dialect": r["dialect"], "provider": None})
        res = run_case13({"sql": r["sql"], "dialect": r["dialect"], "provider": r["provider"], "metadata": r["metadata"]})
        sh = None
        if r.get("pattern") in PATTERNS:
            for s in shapes(r["pattern"]):
                if s["name"] == r["shape"]:
                    sh = s
        if sh is not None:
            sh["sql"] = r["sql"]
            bad = check_oracles(sh, r["pattern"], r["known"], res, base)
        else:
            bad = check_random({"known": r["known"]}, res, base)
        if r.get("oracle") == "O7":
            rds = run_case13({"sql": r["sql"], "dialect": r["dialect"], "provider": r["provider"], "metadata": r["metadata"], "default_schema": "sa"})
            if "result" in res and "rejected" not in rds and rds.get("result") != res["result"]:
                bad.append(("O7", "with DEFAULT_SCHEMA=sa the answer changes", None))
        print(json.dumps({"sql": r["sql"], "metadata": r["metadata"], "provider": r["provider"],
                          "with_provider": pairs(res) if "result" in res else res,
                          "without_provider": pairs(base) if "result" in base else base,
                          "violated": [[o, m] for o, m, c in bad]}, indent=1))
        return 1 if any(o == r["oracle"] for o, _, _ in bad) else 0
    print("replay file names no concrete input:", json.dumps(r)[:600])
    return 1
