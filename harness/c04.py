"""C04 — column lineage chains across statements.

Inputs: scripts of 2-4 generated statements in which later statements read earlier targets — bounded-exhaustive over
chain shape (linear 2/3/4, diamond, fan-in by join, fan-in by union, re-write of the intermediate, two independent joins = the D11
shape, late repair of an unqualified column from the graph) x column-overlap pattern of every consumer (all consumed / some dangling / renamed / star) x provider (none / dict provider
knowing the source tables / dict provider knowing one source and a STALE definition of an intermediate) x schema qualification;
statement bodies (kinds, expressions, aliases, qualification of column references, WHERE) are seeded random.

Per script and dialect:
  1. CORRESPONDENCE  implementation (real LineageRunner on the SQL Lean rendered) vs the Lean model (`Runner.eval` through driver
     cmd `chain`): complete set of column paths (`c02.agrees_modulo_order` over the iteration orders of an unqualified `*`), table
     roles, and the SESSION: a tap provider (subclass of DummyMetaDataProvider logging register/deregister) vs the model's
     registration per statement.
  2. ORACLE, implementation only (no model) — the property's composition claim:
       pairs(script) == root/leaf pairs of the relational composition of the per-statement pairs,
     where pairs(x) = {(first, last) of each reported path} and statement k's own pairs come from running statement k ALONE with
     a provider that holds the base metadata plus exactly the session entries the tap saw registered by statements 1..k-1 (what
     `later_sees_earlier` says it would have had).  Expected (class `Resolved`) when no statement alone reports an unresolved
     (multi-candidate) source column.  Also: session hygiene (one deregister, after the last statement; the provider's session is empty
     afterwards), a later statement sees an earlier target's columns (with a provider: `select *` from it expands to exactly the
     registered columns).
  3. D11 (finding): when two statements have an unresolved column of the same name with different candidate sets, the combined graph
     merges them; a composition mismatch confined to such names is counted under D11.
A disagreement with the model while the oracle holds is a stale correspondence (`no-failing-input-found`); an oracle failure is a
VIOLATION with the script as replay.
"""
import collections
import itertools
import json
import random

import c02
import gensql as G
import monitor
import sqlcheck
import sqlimpl
from common import Check, Driver, Infra, canon_json, log

SHAPES = ["linear2", "linear3", "linear4", "diamond", "fanin_join", "fanin_union", "rewrite", "two_joins", "late_by_graph"]
PATTERNS = ["all", "dangling", "renamed", "star"]
PROVIDERS = ["none", "sources", "partial_stale"]

SRC = {"src1": ["a", "b", "c", "k"], "src2": ["d", "e", "k"], "src3": ["a", "k"], "src4": ["a", "k"]}


# ------------------------------------------------------------------------------------------------ generator
class Gen:
    def __init__(self, rng, schema):
        self.rng = rng
        self.schema = schema
        self.n_alias = 0

    def tname(self, t):
        return ([self.schema] if self.schema else []) + [t]

    def printed(self, t):
        return (self.schema or "<default>") + "." + t

    def expr(self, refs):
        """random expression over column references `refs` (list of ["col", quals, name])"""
        r = self.rng.random()
        c = self.rng.choice(refs)
        if r < 0.45:
            return c
        d = self.rng.choice(refs)
        if r < 0.6:
            return G.func(self.rng.choice(["coalesce", "concat", "max"]), [c, d] if self.rng.random() < 0.5 else [c])
        if r < 0.72:
            return ["bin", self.rng.choice(["+", "-", "||"]), c, d]
        if r < 0.82:
            return ["case", [[["bin", ">", c, G.lit("1")], d]], G.lit("0") if self.rng.random() < 0.5 else None]
        if r < 0.9:
            return ["cast", c, "int"]
        return ["paren", ["bin", "*", c, G.lit("2")]]

    def stage(self, inputs, target, pattern, kind=None, union=False, qualify=None):
        """one statement writing `target` from `inputs` = [(table, cols|None)].  Returns (stmt AST, output columns | None)."""
        rng = self.rng
        kind = kind or rng.choice(["insert", "insert", "ctas", "view"])
        qualify = qualify if qualify is not None else rng.choice(["none", "name", "alias"])
        if union:
            brs, outs = [], None
            for (t, cols) in inputs:
                q, o = self.block([(t, cols)], pattern, qualify, fixed=outs)
                outs = outs or o
                brs.append((q, False))
            q = G.setop(brs[0], [(rng.choice(["union all", "union"]), b) for b in brs[1:]])
        else:
            q, outs = self.block(inputs, pattern, qualify)
        tn = self.tname(target)
        if kind == "insert":
            return ["insert", "into", False, tn, None, q, False], outs
        if kind == "ctas":
            return ["ctas", tn, False, False, q, False], outs
        return ["create_view", tn, False, None, q], outs

    def block(self, inputs, pattern, qualify, fixed=None):
        rng = self.rng
        elems, quals = [], []
        for (t, cols) in inputs:
            if qualify == "alias":
                self.n_alias += 1
                a = f"q{self.n_alias}"
                elems.append(G.table(t, self.schema, a, rng.random() < 0.5)); quals.append(a)
            else:
                elems.append(G.table(t, self.schema)); quals.append(t if qualify == "name" else None)
        if len(elems) == 1:
            frm = [G.from_expr(elems[0])]
        else:
            # join on the first known column of each side (always qualified so that the ON clause itself is unambiguous)
            jq = [q or inputs[i][0] for i, q in enumerate(quals)]
            joins = []
            for i in range(1, len(elems)):
                c0 = (inputs[0][1] or ["k"])[0]
                ci = (inputs[i][1] or ["k"])[0]
                joins.append(G.join(elems[i], G.eq(G.col(c0, jq[0]), G.col(ci, jq[i])), rng.choice(["join", "left join", "inner join"])))
            frm = [G.from_expr(elems[0], joins)]
        refs = []   # (ref, source column name)
        for (t, cols), q in zip(inputs, quals):
            for c in (cols or ["a", "k"]):
                refs.append((G.col(c, q), c))
        if pattern == "star" and fixed is None:
            items = [G.item(["star", []])]
            outs = None
            known = [c for (_, cols) in inputs for c in (cols or [])]
            if all(cols is not None for _, cols in inputs) and len(set(known)) == len(known):
                outs = known
            wh = None
        else:
            if fixed is not None:
                # later union branch: same arity, positional
                chosen = [rng.choice(refs) for _ in fixed]
                items = [G.item(r) if rng.random() < 0.5 else G.item(self.expr([r]), f"u{j}", True) for j, (r, _) in enumerate(chosen)]
                return G.select(items, frm), fixed
            if pattern == "dangling" and len(refs) > 1:
                keep = max(1, len(refs) - rng.randrange(1, len(refs)))
                use = refs[:keep]
            else:
                use = refs
            items, outs, seen = [], [], set()
            for j, (r, c) in enumerate(use):
                if pattern == "renamed":
                    name = f"x{j}"
                    e = r if rng.random() < 0.6 else self.expr([r] + [x for x, _ in refs])
                    items.append(G.item(e, name, rng.random() < 0.8))
                else:
                    name = c
                    if name in seen:
                        name = f"{c}{j}"
                    if rng.random() < 0.65 and name == c:
                        items.append(G.item(r))
                    else:
                        items.append(G.item(self.expr([r] + [x for x, _ in refs]), name, True))
                seen.add(name); outs.append(name)
            wh = None
            if rng.random() < 0.3:
                wh = ["bin", ">", rng.choice(refs)[0], G.lit("1")]
        return G.select(items, frm, wh), outs


def build_script(shape, pattern, provider, schema, rng):
    g = Gen(rng, schema)
    s = []
    first = rng.choice(["all", "renamed", "dangling"])     # how the first stage reads the sources (never star: columns must be known)

    def st(inputs, target, pat, **kw):
        stmt, outs = g.stage(inputs, target, pat, **kw)
        s.append(stmt)
        return outs

    if shape.startswith("linear"):
        n = int(shape[-1])
        cols = st([("src1", SRC["src1"])], "mid1", first)
        for i in range(1, n):
            tgt = "tgt" if i == n - 1 else f"mid{i + 1}"
            cols = st([(f"mid{i}", cols)], tgt, pattern)
    elif shape == "diamond":
        c1 = st([("src1", SRC["src1"])], "mid1", first)
        c2 = st([("src1", SRC["src1"])], "mid2", rng.choice(["renamed", "all"]))
        st([("mid1", c1), ("mid2", c2)], "tgt", pattern)
    elif shape == "fanin_join":
        c1 = st([("src1", SRC["src1"])], "mid1", first)
        c2 = st([("src2", SRC["src2"])], "mid2", rng.choice(["renamed", "all"]))
        st([("mid1", c1), ("mid2", c2)], "tgt", pattern)
    elif shape == "fanin_union":
        c1 = st([("src1", SRC["src1"])], "mid1", "all")
        c2 = st([("src2", SRC["src2"])], "mid2", "all")
        st([("mid1", c1), ("mid2", c2)], "tgt", pattern, union=True)
    elif shape == "rewrite":
        st([("src1", SRC["src1"])], "mid1", first, kind="insert")
        c2 = st([("src2", SRC["src2"])], "mid1", rng.choice(["all", "renamed"]), kind="insert")
        st([("mid1", c2)], "tgt", pattern)
    elif shape == "two_joins":
        # the D11 shape: two statements each selecting the same unqualified column from different joins, then a consumer
        st([("src1", ["a", "k"]), ("src2", ["k"])], "mid1", "all", qualify="none")
        st([("src3", ["a", "k"]), ("src4", ["k"])], "mid2", "all", qualify="none")
        st([("mid1", ["a", "k"])], "tgt", pattern)
    elif shape == "late_by_graph":
        # statement 1 names columns of a source table with a qualifier; statement 2 selects the same columns UNQUALIFIED from a join
        # that includes that source: the multi-candidate column is repaired late, from the graph (holders.py:416-421)
        st([("src1", SRC["src1"])], "mid1", "all", qualify=rng.choice(["name", "alias"]))
        st([("src1", ["a", "b"]), ("src2", ["d"])], "tgt", pattern, qualify="none")
    else:
        raise ValueError(shape)
    md = None
    if provider == "sources":
        md = {g.printed(t): list(c) for t, c in SRC.items()}
    elif provider == "partial_stale":
        md = {g.printed("src1"): list(SRC["src1"]), g.printed("mid1"): ["stale1", "stale2"]}
    return s, md


def gen_cases(chk):
    cases = []
    reps = 3 if chk.tier == "thorough" else 1
    for shape, pattern, provider, schema in itertools.product(SHAPES, PATTERNS, PROVIDERS, ["s1", None]):
        for r in range(reps):
            seed = chk.rng.randrange(1 << 30)
            stmts, md = build_script(shape, pattern, provider, schema, random.Random(seed))
            cases.append({"name": f"{shape}/{pattern}/{provider}/{schema or '-'}/{r}", "stmts": stmts, "metadata": md})
    return cases


# ------------------------------------------------------------------------------------------------ implementation side
def _tap_provider_class():
    from sqllineage.core.metadata.dummy import DummyMetaDataProvider

    class TapProvider(DummyMetaDataProvider):
        """session tap (DESIGN §2.4): logs every register / deregister; no change to /repo"""

        def __init__(self, metadata=None, preset=None):
            super().__init__(metadata)
            self.events = []
            self.lookups = []
            if preset:
                # session knowledge of an earlier part of the script, for running one statement alone
                self._session_metadata.update({k: list(v) for k, v in preset})

        def register_session_metadata(self, table, columns):
            self.events.append(["register", str(table), [c.raw_name for c in columns]])
            super().register_session_metadata(table, columns)

        def deregister_session_metadata(self):
            self.events.append(["deregister"])
            super().deregister_session_metadata()

        def get_table_columns(self, table, **kwargs):
            cols = super().get_table_columns(table, **kwargs)
            self.lookups.append([str(table), [c.raw_name for c in cols], len(self.events)])
            return cols
    return TapProvider


def run_script(case):
    """case = dict(sql=[stmt texts], dialect, metadata, preset=None).  Runs the real runner with the tap provider and the C06 monitor."""
    import warnings
    from sqllineage.runner import LineageRunner
    from sqllineage import exceptions as X
    Tap = _tap_provider_class()
    prov = Tap(case.get("metadata"), case.get("preset"))
    sql = ";\n".join(case["sql"])
    try:
        with warnings.catch_warnings():
            warnings.simplefilter("ignore")
            lr = LineageRunner(sql, dialect=case.get("dialect", "ansi"), metadata_provider=prov)
            paths = lr.get_column_lineage()
            res = {
                "paths": sorted([sqlimpl.norm_name(str(c)) for c in p] for p in paths),
                "unresolved": sorted({(p[0].raw_name, tuple(str(x) for x in p[0].parent_candidates)) for p in paths if p[0].parent is None}),
                "source": sorted(str(t) for t in lr.source_tables), "target": sorted(str(t) for t in lr.target_tables),
                "intermediate": sorted(str(t) for t in lr.intermediate_tables),
                "n_statements": len(lr.statements()),
                "stmt_writes": [sorted(str(t) for t in h.write) for h in lr._stmt_holders],
                "monitor": monitor.check_runner(lr, paths),
            }
            if case.get("export"):
                res["export"] = monitor.export(lr, paths)
            for f in res["monitor"]:
                f["detail"] = {k: (v if isinstance(v, (list, int, bool, str)) else str(v)) for k, v in f["detail"].items()}
        return {"result": res, "events": prov.events, "lookups": prov.lookups, "session_after": dict(prov._session_metadata)}
    except X.InvalidSyntaxException as e:
        return {"rejected": str(e)[-200:], "events": prov.events}
    except BaseException as e:  # noqa
        if isinstance(e, (KeyboardInterrupt, SystemExit)):
            raise
        out = sqlimpl.classify_exception(e)
        out["events"] = prov.events
        return out


def run_scripts(cases):
    real = [c for c in cases if "sql" in c]
    res = [run_script(c) for c in real] if len(real) < 8 else sqlimpl.pool().map(run_script, real, chunksize=4)
    it, out = iter(res), []
    for c in cases:
        if "sql" in c:
            out.append(next(it))
        elif c.get("same_as_previous"):
            out.append(out[-1])
        else:
            out.append({"skipped": True})
    return out


def pairs_of(paths):
    return sorted({(p[0], p[-1]) for p in paths})


def compose_pairs(per_stmt_pairs):
    """root/leaf pairs of the relational composition of the per-statement dataflows: edges = union of the statements' pairs; a pair
    (a, b) is end to end when nothing feeds a, b feeds nothing and b is reachable from a (columns not consumed downstream end at the
    intermediate table)."""
    succ = collections.defaultdict(set)
    has_in, nodes = set(), set()
    for ps in per_stmt_pairs:
        for a, b in ps:
            if a != b:
                succ[a].add(b); has_in.add(b)
            nodes.add(a); nodes.add(b)
    out = set()
    for a in nodes:
        if a in has_in or not succ[a]:
            continue
        seen, stack = set(), [a]
        while stack:
            x = stack.pop()
            for y in succ[x]:
                if y not in seen:
                    seen.add(y); stack.append(y)
        for b in seen:
            if not succ[b] and b != a:
                out.add((a, b))
    return sorted(out)


def may_be_unresolved(stmt):
    """the statement has a FROM with more than one relation and an unqualified column reference or `*` (only then can a source
    column have several candidates)"""
    multi = unq = False
    for n in G._walk(stmt):
        if isinstance(n, list) and n and n[0] == "select" and len(n) == 7:
            if len(n[3]) > 1 or any(fe[1] for fe in n[3]):
                multi = True
        if isinstance(n, list) and len(n) == 3 and n[0] == "col" and n[1] == []:
            unq = True
        if isinstance(n, list) and len(n) == 2 and n[0] == "star" and n[1] == []:
            unq = True
    return multi and unq


def oracle_prepare(sqls, dialect, metadata, full, stmts=None):
    """phase 1 (after the script itself was run): attribute the tap's registrations to statements and list the single-statement
    runs the oracle needs.  Returns (state, alone_cases) — alone_cases = per statement [with session knowledge, plain]."""
    out = {"applicable": False, "ok": True, "why": "", "fails": []}
    if "result" not in full:
        out["why"] = "script not analysed"
        out["outcome"] = {k: full[k] for k in full if k in ("rejected", "error", "etype", "site", "msg")}
        return out, []
    ev = full["events"]
    regs = [e for e in ev if e[0] == "register"]
    # ---- session hygiene
    if [e[0] for e in ev].count("deregister") != 1 or ev[-1] != ["deregister"]:
        out["fails"].append("session metadata is not deregistered exactly once at the end of the run")
    if full["session_after"]:
        out["fails"].append("session metadata survives the run: " + json.dumps(full["session_after"]))
    if full["result"]["n_statements"] != len(sqls):
        out["why"] = "statement count differs"
        return out, []
    # registrations are in statement order, at most one per statement, for the statement's write target
    writes = full["result"]["stmt_writes"]
    reg_iter = iter(regs)
    session, cases, per_stmt_reg = [], [], []
    pending = next(reg_iter, None)
    for k, s in enumerate(sqls):
        cases.append({"sql": [s], "dialect": dialect, "metadata": metadata, "preset": list(session)})
        # the same statement without any provider (to see which columns are unresolved before any repair); identical to the run
        # above when the provider is falsy, and pointless when nothing in the statement can have several candidates
        if not metadata:
            cases.append({"same_as_previous": True})
        elif stmts is not None and not may_be_unresolved(stmts[k]):
            cases.append({"skip": True})
        else:
            cases.append({"sql": [s], "dialect": dialect, "metadata": None})
        if pending is not None and pending[1] in writes[k]:
            per_stmt_reg.append(pending)
            session.append((pending[1], pending[2]))
            pending = next(reg_iter, None)
        else:
            per_stmt_reg.append(None)
    if pending is not None:
        out["fails"].append("a session registration could not be attributed to a statement in order: " + json.dumps(pending))
    for r in regs:
        if any(c == "*" for c in r[2]):
            out["fails"].append("a wildcard is registered as a column of " + r[1] + ": " + json.dumps(r[2]))
    out["registered"] = per_stmt_reg
    return out, cases


def oracle_finish(out, full, runs):
    """phase 2: `runs` = results of the cases of phase 1, in order"""
    if not runs:
        return out
    alone, alone_plain = runs[0::2], runs[1::2]
    ev = full["events"]
    per_stmt_reg = out["registered"]
    # ---- each statement alone, with the session knowledge it would have had, registers what the script registered for it
    per_pairs, unresolved = [], False
    for k, a in enumerate(alone):
        if "result" not in a:
            out["why"] = f"statement {k} alone is not analysed"
            return out
        r = [e for e in a["events"] if e[0] == "register"]
        if (r[0] if r else None) != per_stmt_reg[k]:
            out["fails"].append(f"statement {k + 1} registers {json.dumps(per_stmt_reg[k])} in the script but {json.dumps(r[0] if r else None)} "
                                "when analysed alone with the same session knowledge (registration does not come after / from the "
                                "statement's own analysis)")
        per_pairs.append(pairs_of(a["result"]["paths"]))
        if a["result"]["unresolved"]:
            unresolved = True
    # ---- a later statement sees an earlier target's columns: a lookup of a table registered so far answers its session entry
    for (tname, cols, n_ev) in full["lookups"]:
        cur = {}
        for e in ev[:n_ev]:
            if e[0] == "register":
                cur[e[1]] = e[2]
        if tname in cur and cols != cur[tname]:
            out["fails"].append(f"lookup of {tname} answered {cols} while the session holds {cur[tname]}")
    # ---- D11 class: same-named unresolved columns with different candidate sets in different statements
    un = collections.defaultdict(set)
    for k, a in enumerate(alone_plain):
        if "result" in a:
            for name, cands in a["result"]["unresolved"]:
                un[name].add((k, tuple(cands)))
    d11 = sorted(nm for nm, v in un.items() if len({c for _, c in v}) > 1 and len({k for k, _ in v}) > 1)
    out["d11_names"] = d11
    expected = compose_pairs(per_pairs)
    actual = pairs_of(full["result"]["paths"])
    out.update({"expected": expected, "actual": actual, "per_statement_pairs": per_pairs})
    out["applicable"] = not unresolved
    if out["applicable"] or d11:
        out["ok"] = expected == actual
        if not out["ok"]:
            diff = set(map(tuple, expected)) ^ set(map(tuple, actual))
            out["diff"] = sorted(diff)
            # confined to the clashing names?
            out["d11_only"] = bool(d11) and all(any(a == nm or a.endswith("." + nm) for nm in d11) for a, _ in diff)
            if not out["applicable"] and not out["d11_only"]:
                out["ok"] = True          # not in the class where the composition is expected, and not the D11 shape
    return out


PROJECTION_CLASSES = ("table graph does not connect the first column's table to the last column's table",
                      "first column's table is not in table lineage as source or intermediate")


def monitor_d11_only(mon, d11_names):
    """every monitor failure is a projection failure of a path that starts at a column whose name clashes (D11)"""
    if not d11_names:
        return False
    return all(f["class"] in PROJECTION_CLASSES and f["detail"].get("path") and f["detail"]["path"][0].rsplit(".", 1)[-1] in d11_names
               for f in mon)


def oracle(sqls, dialect, metadata, full=None):
    """the composition + session claims on the implementation alone"""
    full = full or run_script({"sql": sqls, "dialect": dialect, "metadata": metadata})
    out, cases = oracle_prepare(sqls, dialect, metadata, full)
    return oracle_finish(out, full, run_scripts(cases))


# ------------------------------------------------------------------------------------------------ model side
def model_chain(drv, scripts, rev_star=0):
    reqs = [{"cmd": "chain", "stmts": c["stmts"], "metadata": c["metadata"] or {}, "rev_star": rev_star} for c in scripts]
    ans = drv.ask(reqs)
    for a in ans:
        if "error" in a and "out" not in a:
            raise Infra("model driver error: " + str(a["error"]))
    return ans


def model_outcomes(drv, case, n=24):
    ks = [0, 1] + [(i * 2654435761 + i * i * 40503) % (10 ** 12) for i in range(2, n)]
    ans = drv.ask([{"cmd": "chain", "stmts": case["stmts"], "metadata": case["metadata"] or {}, "rev_star": k} for k in ks])
    seen, res = set(), []
    for a in ans:
        m = c02.model_paths(a)
        k = canon_json(m)
        if k not in seen:
            seen.add(k); res.append(m)
    return res


def model_events(a):
    return [["register", st["registered"]["table"], st["registered"]["columns"]] for st in a["steps"] if st["registered"]]


def compare_with_model(drv, case, a0, a1, impl):
    """None if implementation and model agree on this script, else a description"""
    ip = c02.impl_paths(impl)
    if ip is None:
        return None
    m0, m1 = c02.model_paths(a0), c02.model_paths(a1)
    if isinstance(ip, dict) or isinstance(m0, dict):
        if isinstance(ip, dict) and isinstance(m0, dict) and ip.get("error") == m0.get("error"):
            return None
        return {"what": "outcome", "impl": ip, "model": m0}
    if ip != m0 and ip != m1:
        outs = model_outcomes(drv, case)
        if not c02.agrees_modulo_order(ip, outs):
            return {"what": "paths", "impl": ip, "model": m0}
    r = impl["result"]
    mr = a0["out"]["result"]
    for k in ("source", "target", "intermediate"):
        if sorted(r[k]) != sorted(mr[k]):
            return {"what": "tables:" + k, "impl": r[k], "model": mr[k]}
    ie = [e for e in impl["events"] if e[0] == "register"]
    me = model_events(a0)
    if ie != me and ie != model_events(a1):
        # the column ORDER of a registration follows the hash order of the relations an unqualified `*` ranges over (C11 / D16):
        # accepted only when the model itself says the order is iteration-order dependent, and the registrations agree otherwise
        same_sets = [(e[1], sorted(e[2])) for e in ie] == [(e[1], sorted(e[2])) for e in me]
        if not (same_sets and me != model_events(a1)):
            return {"what": "session events", "impl": ie, "model": me, "model_other_order": model_events(a1)}
    return None


# ------------------------------------------------------------------------------------------------ check
def evaluate(chk, drv, cases, dialects, st):
    a0 = model_chain(drv, cases, 0)
    a1 = model_chain(drv, cases, 1)
    jobs = [(ci, d) for ci in range(len(cases)) for d in dialects]
    impl = run_scripts([{"sql": a0[ci]["sql"], "dialect": d, "metadata": cases[ci]["metadata"]} for ci, d in jobs])
    listed = {e["id"] for e in chk.findings if e.get("status") == "finding"}
    # the oracle's single-statement runs, batched through the pool
    prepared, alone_cases, spans = [], [], []
    for (ci, d), i in zip(jobs, impl):
        o, cs = oracle_prepare(a0[ci]["sql"], d, cases[ci]["metadata"], i, cases[ci]["stmts"])
        prepared.append(o); spans.append((len(alone_cases), len(alone_cases) + len(cs))); alone_cases += cs
    alone_runs = run_scripts(alone_cases)
    for ji, ((ci, d), i) in enumerate(zip(jobs, impl)):
        case = cases[ci]
        sqls = a0[ci]["sql"]
        if "rejected" in i:
            st.reject[d] += 1
            continue
        st.accept[d] += 1
        nontrivial = "result" in i and any(len(p) > 2 for p in i["result"]["paths"])
        chk.count(canon_json([sqls, d, case["metadata"]]), nontrivial)
        st.c["shape:" + case["name"].split("/")[0]] += 1
        # ---- oracle (implementation only)
        o = oracle_finish(prepared[ji], i, alone_runs[spans[ji][0]:spans[ji][1]])
        rec = {"kind": "chain-script", "name": case["name"], "sql": sqls, "dialect": d, "metadata": case["metadata"], "stmts": case["stmts"]}
        mon = i["result"]["monitor"] if "result" in i else []
        if mon and monitor_d11_only(mon, o.get("d11_names")) and "D11" in listed:
            chk.known("D11")
            st.c["monitor:D11"] += 1
            mon = []
        if mon:
            chk.violation("a chained script's result is not well-formed (C06 monitor): " + mon[0]["class"], dict(rec, monitor=mon))
            return False
        if o["fails"]:
            chk.violation("session handling of a chained script: " + o["fails"][0], dict(rec, oracle=o))
            return False
        if o.get("applicable"):
            st.c["oracle:resolved-class"] += 1
        if not o["ok"]:
            if o.get("d11_only") and "D11" in listed:
                chk.known("D11")
                st.c["oracle:D11"] += 1
            else:
                chk.violation("end-to-end column pairs of a script are not the composition of its statements' dataflows",
                              dict(rec, expected=o["expected"], actual=o["actual"], per_statement_pairs=o["per_statement_pairs"],
                                   d11_names=o.get("d11_names")))
                return False
        elif o.get("d11_names"):
            st.c["d11-shape-without-mismatch"] += 1
        # ---- correspondence with the model
        if any(G.item_has_subq(s) for s in case["stmts"]):
            st.c["skipped-model:item-subquery"] += 1
            continue
        dis = compare_with_model(drv, case, a0[ci], a1[ci], i)
        if dis is None:
            st.c["agree"] += 1
            if st.c["agree"] % 60 == 1 and "result" in i:
                chk.sample({"sql": sqls, "dialect": d, "metadata": case["metadata"], "pairs": pairs_of(i["result"]["paths"]),
                            "session": [e for e in i["events"] if e[0] == "register"]})
        else:
            st.c["impl!=model"] += 1
            if len(chk.stale) < 10:
                chk.stale.append(dict(rec, disagreement=dis, oracle_ok=o["ok"], oracle_applicable=o.get("applicable")))
    return True


D11_WITNESS_SQL = ["insert into s.o1 select a from s.t1 join s.t2 on t1.k = t2.k",
                   "insert into s.o2 select a from s.t3 join s.t4 on t3.k = t4.k"]
D11_WITNESS_MD = {"s.t1": ["a", "k"], "s.t2": ["k"], "s.t3": ["a", "k"], "s.t4": ["k"]}


def replay_known(chk):
    """DESIGN §2.5 step 7: the recorded witness of every finding is replayed first"""
    f = chk.finding("D11")
    if f is None:
        return
    w = f["witness"]
    o = oracle(w["sql"], w.get("dialect", "ansi"), w.get("metadata"))
    chk.count("witness:D11", True)
    if (not o["ok"]) and o.get("d11_only"):
        chk.known("D11")
    else:
        # the code no longer fails as recorded: the model still carries the deviation -> correspondence is stale
        chk.stale.append({"kind": "finding-witness", "id": "D11", "why": "recorded witness no longer fails as recorded", "oracle": o})


def run(chk):
    if not chk.lean.driver_ok:
        chk.stale.append({"kind": "driver", "why": "model driver does not build"})
        return chk.finish(level="proof", rule="driver unavailable")
    drv = Driver()
    dialects = ["ansi", "sparksql", "bigquery", "tsql", "postgres"] if chk.tier == "thorough" else ["ansi", "sparksql"]
    st = sqlcheck.Stats()
    replay_known(chk)
    cases = gen_cases(chk)
    ok = True
    step = 64
    for i in range(0, len(cases), step):
        ok = evaluate(chk, drv, cases[i:i + step], dialects, st)
        if not ok:
            break
    sqlimpl.close_pool()
    chk.coverage.update({"scripts": len(cases), "dialects": dialects, "distribution": st.as_dict(),
                         "exhaustive": False,
                         "enumerated_product": {"shapes": SHAPES, "patterns": PATTERNS, "providers": PROVIDERS, "schema": ["s1", None]}})
    chk.assumptions += ["text -> tree (sqlfluff grammars) is not modelled",
                        "per-statement dataflow of the oracle = the statement analysed alone by the same implementation with the session "
                        "knowledge the tap saw (so a defect common to single statements is C02's to find, not this oracle's)",
                        "the walk (Model/Walk.lean) is tied to the extractors by the correspondence only; the theorems are about the "
                        "runner loop, the path enumeration and graph composition"]
    return chk.finish(
        level="proof",
        rule="chain shape (9) x consumer column pattern (4) x provider (3) x schema qualification (2) fully enumerated (x3 bodies in "
             "thorough), statement bodies seeded random; each script under the listed dialects: paths/roles/session events vs the Lean "
             "model, composition + session oracle on the implementation alone, C06 monitor. non-trivial = some path crosses an "
             "intermediate table (>= 2 hops); distinct by (SQL texts, dialect, metadata)",
        trusted_base=["Lean 4.33 kernel", "axioms: propext, Classical.choice, Quot.sound", "harness/c04.py + monitor.py + sqlimpl.py"])


def replay(chk, obj):
    r = obj["replay"]
    if r.get("kind") == "chain-script":
        full = run_script({"sql": r["sql"], "dialect": r["dialect"], "metadata": r.get("metadata")})
        o = oracle(r["sql"], r["dialect"], r.get("metadata"), full=full)
        mon = full["result"]["monitor"] if "result" in full else []
        if mon and monitor_d11_only(mon, o.get("d11_names")):
            mon = []
        print(json.dumps({"sql": r["sql"], "monitor": mon, "session_fails": o["fails"], "expected": o.get("expected"),
                          "actual": o.get("actual"), "d11_names": o.get("d11_names")}, indent=1, default=str))
        sqlimpl.close_pool()
        return 1 if (mon or o["fails"] or not o["ok"]) else 0
    print("replay file names no concrete input:", json.dumps(r)[:800])
    return 1
