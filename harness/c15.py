"""C15 — configuration overrides are scoped and thread-local.

A. correspondence (impl vs Lean model), bounded-exhaustive: every operation sequence over a small op alphabet on a
   fresh `_SQLLineageConfigLoader` with virtual thread ids (single thread to length N1; two/three threads, every
   interleaving of every pair of programs to length N2), under two environments.  Compared: every output, the final
   per-thread state, and — through logging dict/set taps — the *micro-operations* each op performed on the shared
   dicts and the thread id each was keyed by (ties `Config.expand`).
B. property oracle on the implementation alone (does not mention the model): `with`-structured programs; per-thread
   serial equivalence, scope semantics, rejected attempts are no-ops, coercion, assignment refused.
C. real threads under a deterministic line-level scheduler (sys.settrace inside config.py): every thread must read
   what it reads when run alone.
"""
import itertools
import json
import os
import sys
import threading

from common import Check, Driver, Infra, REPO, canon_json, log

KEYS_ENV = [
    {},
    {"DEFAULT_SCHEMA": "envs", "TSQL_NO_SEMICOLON": "true", "DIRECTORY": "/envdir"},
]


def load_impl():
    for m in [m for m in sys.modules if m == "sqllineage" or m.startswith("sqllineage.")]:
        pass
    import sqllineage.config as cfgmod
    from sqllineage.exceptions import ConfigException
    return cfgmod, ConfigException


def jval(v):
    if isinstance(v, bool):
        return ["b", v]
    if isinstance(v, int):
        return ["i", v]
    if isinstance(v, str):
        return ["s", v]
    return ["other", repr(v)]


def pyval(j):
    return j[1]


def classify_cfg_error(e):
    m = str(e)
    if "read-only" in m:
        return "readonly"
    if "Invalid config key" in m:
        return "invalid-key"
    if "not reentrant" in m:
        return "reentrant"
    return "other:" + m[:40]


class LogDict(dict):
    """dict that logs mutating accesses (harness-side tap; the repository is not edited)"""

    def __init__(self, logf, inner=False, owner=None):
        super().__init__()
        self._logf, self._inner, self._owner = logf, inner, owner

    def __setitem__(self, k, v):
        if self._inner:
            self._logf(("store", self._owner, k, v))
            return super().__setitem__(k, v)
        if isinstance(v, dict) and not isinstance(v, LogDict):
            nv = LogDict(self._logf, inner=True, owner=k)
            nv.update(v)
            v = nv
        self._logf(("ensure", k))
        return super().__setitem__(k, v)

    def pop(self, k, *a):
        self._logf(("popCfg", k))
        return super().pop(k, *a)

    def __delitem__(self, k):
        self._logf(("popCfg", k))
        return super().__delitem__(k)

    def clear(self):
        self._logf(("clear-all",))
        return super().clear()


class LogSet(set):
    def __init__(self, logf):
        super().__init__()
        self._logf = logf

    def add(self, k):
        self._logf(("ctxAdd", k))
        return super().add(k)

    def remove(self, k):
        self._logf(("ctxRemove", k))
        return super().remove(k)

    def discard(self, k):
        self._logf(("ctxRemove", k))
        return super().discard(k)

    def clear(self):
        self._logf(("clear-all",))
        return super().clear()


class Impl:
    """the real loader driven with virtual thread identifiers"""

    def __init__(self, env, default_dir_token=True):
        self.cfgmod, self.ConfigException = load_impl()
        self.loader = self.cfgmod._SQLLineageConfigLoader()
        self.cur = 0
        self.mlog = []
        object.__setattr__(self.loader, "get_ident", lambda: self.cur)
        object.__setattr__(self.loader, "_thread_config", LogDict(self.mlog.append))
        object.__setattr__(self.loader, "_thread_in_context_manager", LogSet(self.mlog.append))
        self.env = env
        self.default_dir = self.cfgmod._SQLLineageConfigLoader.config["DIRECTORY"][1] if "DIRECTORY" in self.cfgmod._SQLLineageConfigLoader.config else None

    def _with_env(self, f):
        saved = {k: os.environ.get(k) for k in list(os.environ) if k.startswith("SQLLINEAGE_")}
        for k in saved:
            del os.environ[k]
        for k, v in self.env.items():
            os.environ["SQLLINEAGE_" + k] = v
        try:
            return f()
        finally:
            for k in self.env:
                os.environ.pop("SQLLINEAGE_" + k, None)
            for k, v in saved.items():
                os.environ[k] = v

    def canon_val(self, key, v):
        j = jval(v)
        if j[0] == "s" and self.default_dir is not None and j[1] == self.default_dir and key == "DIRECTORY":
            return ["s", "$DEFAULT:DIRECTORY"]
        return j

    def do(self, tid, op):
        self.cur = tid
        self.mlog.clear()
        try:
            out = self._with_env(lambda: self._do(op))
        except self.ConfigException as e:
            out = ["cfgErr", classify_cfg_error(e)]
        except AttributeError:
            out = ["attrErr"]
        except Exception as e:  # anything else is outside the model's error enum
            out = ["internal", type(e).__name__]
        micro = []
        for m in self.mlog:
            if m[0] == "store":
                micro.append((m[1], ["store", m[2], jval(m[3])]))
            elif m[0] == "clear-all":
                micro.append((None, ["clear-all"]))
            else:
                micro.append((m[1], [m[0]]))
        return out, micro

    def _do(self, op):
        L = self.loader
        if op[0] == "call":
            L(**{k: pyval(v) for k, v in op[1]})
            return ["unit"]
        if op[0] == "enter":
            L.__enter__()
            return ["unit"]
        if op[0] == "exit":
            L.__exit__(None, None, None)
            return ["unit"]
        if op[0] == "read":
            return ["val", self.canon_val(op[1], getattr(L, op[1]))]
        if op[0] == "assign":
            setattr(L, op[1], "assigned")
            return ["unit"]
        raise ValueError(op)

    def final(self, tids):
        out = []
        for t in tids:
            c = self.loader._thread_config.get(t)
            out.append([t, {"cfg": None if c is None else [[k, jval(c[k])] for k in sorted(c)],
                            "ctx": t in self.loader._thread_in_context_manager}])
        return out


def op_alphabet(small=False):
    calls = [
        [],
        [["DEFAULT_SCHEMA", ["s", "x"]]],
        [["DEFAULT_SCHEMA", ["s", ""]]],
        [["TSQL_NO_SEMICOLON", ["s", " Yes "]], ["DEFAULT_SCHEMA", ["i", 7]]],
        [["LATERAL_COLUMN_ALIAS_REFERENCE", ["i", 0]], ["DIRECTORY", ["b", True]]],
        [["BOGUS", ["i", 1]]],
        [["DEFAULT_SCHEMA", ["s", "z"]], ["BOGUS", ["i", 1]]],
        [["BOGUS", ["i", 1]], ["TSQL_NO_SEMICOLON", ["b", True]]],
    ]
    if small:
        calls = [calls[1], calls[3], calls[6]]
    ops = [["call", c] for c in calls] + [["enter"], ["exit"], ["read", "DEFAULT_SCHEMA"], ["read", "TSQL_NO_SEMICOLON"]]
    if not small:
        ops += [["read", "DIRECTORY"], ["read", "BOGUS"], ["assign", "DEFAULT_SCHEMA"]]
    return ops


def interleavings(a, b):
    """all merges of sequences a and b (as lists of (tid, op))"""
    if not a:
        yield list(b); return
    if not b:
        yield list(a); return
    for r in interleavings(a[1:], b):
        yield [a[0]] + r
    for r in interleavings(a, b[1:]):
        yield [b[0]] + r


def gen_traces(tier):
    ops = op_alphabet()
    n1 = 4 if tier == "thorough" else 3
    # single thread: all sequences up to n1 (tid 5)
    for n in range(1, n1 + 1):
        for seq in itertools.product(ops, repeat=n):
            yield [[5, op] for op in seq]
    # two threads, every interleaving; thorough: full alphabet length<=2 each; quick: small alphabet
    sm = op_alphabet(small=True)
    alpha2 = ops if tier == "thorough" else sm
    progs = [list(p) for n in range(1, 3) for p in itertools.product(alpha2, repeat=n)]
    for pa in progs:
        for pb in progs:
            A = [[1, op] for op in pa]
            B = [[2, op] for op in pb]
            for tr in interleavings(A, B):
                yield tr
    # thread-id reuse + three threads: small alphabet, one op each after a 2-op prefix
    progs3 = [list(p) for p in itertools.product(sm, repeat=2)]
    for pa in progs3:
        for pb in progs3[: (len(progs3) if tier == "thorough" else 12)]:
            for last in sm:
                yield [[1, pa[0]], [2, pb[0]], [3, last], [1, pa[1]], [2, pb[1]], [1, last], [3, ["read", "DEFAULT_SCHEMA"]]]


# ---------------------------------------------------------------------------------------------------- part A
def part_a(chk, drv):
    n_cases = 0
    mism = 0
    for env in KEYS_ENV:
        traces = list(gen_traces(chk.tier))
        reqs = [{"cmd": "cfg", "env": env, "trace": tr} for tr in traces]
        answers = drv.ask(reqs)
        # micro programs from the model for single-thread traces (tid 5) — ties Config.expand
        single = [i for i, tr in enumerate(traces) if all(t == 5 for t, _ in tr)]
        micro_ans = drv.ask([{"cmd": "cfgexpand", "env": env, "ops": [op for _, op in traces[i]]} for i in single])
        micro_by_idx = dict(zip(single, micro_ans))
        for i, (tr, ans) in enumerate(zip(traces, answers)):
            if "error" in ans:
                raise Infra("model driver error: " + ans["error"])
            impl = Impl(env)
            outs, micros = [], []
            for tid, op in tr:
                o, m = impl.do(tid, op)
                outs.append([tid, o])
                micros.append((tid, m))
            tids = []
            for t, _ in tr:
                if t not in tids:
                    tids.append(t)
            final = impl.final(tids)
            n_cases += 1
            nontrivial = any(o[1][0] != "unit" for o in outs) and any(op[0] == "call" for _, op in tr)
            chk.count(canon_json([env, tr]), nontrivial)
            ok = outs == ans["outs"] and final == ans["final"]
            micro_ok = True
            # every mutation must be keyed by the calling thread (the heart of non-interference)
            for tid, ms in micros:
                for key, m in ms:
                    if key != tid:
                        micro_ok = False
            if i in micro_by_idx:
                want = [[m for m in ms if m != ["nop"]] for ms in micro_by_idx[i]["micro"]]
                got = [[m for _, m in ms] for _, ms in micros]
                # `ensure`/`popCfg`/`ctxRemove` are conditional in the source (guarded by a membership test on the caller's
                # own entry); the model's micro-ops are the unconditional idempotent versions.  Compare modulo that.
                if not micro_equiv(want, got):
                    micro_ok = False
            if ok and micro_ok:
                if n_cases % 5000 == 1:
                    chk.sample({"env": env, "trace": tr, "outs": outs, "final": final})
                continue
            mism += 1
            handle_mismatch(chk, env, tr, outs, final, ans, micros, micro_ok)
            if chk.violations:
                return n_cases
    return n_cases


def micro_equiv(want, got):
    """model micro program vs logged mutations, per op.  The model's ensure/popCfg/ctxRemove are idempotent versions of
    guarded statements: the source performs them only when they change something, so the log may omit them."""
    if len(want) != len(got):
        return False
    for w, g in zip(want, got):
        wi = 0
        for m in g:
            # skip optional model ops that the source elided
            while wi < len(w) and w[wi] != m and w[wi][0] in ("ensure", "popCfg", "ctxRemove"):
                wi += 1
            if wi >= len(w) or w[wi] != m:
                return False
            wi += 1
        if any(x[0] not in ("ensure", "popCfg", "ctxRemove") for x in w[wi:]):
            return False
    return True


def store_coerced(m):
    return m


# ------------------------------------------------------------------ property oracle used on a mismatch / in part B
def serial_reads(env, tr, tid):
    """what thread `tid` observes when its operations run alone on a fresh loader (implementation only)"""
    impl = Impl(env)
    return [impl.do(tid, op)[0] for t, op in tr if t == tid]


def property_failures(env, tr, outs, final):
    """evaluate C15 on the implementation's own behaviour, without the model.  Returns a list of failure strings."""
    fails = []
    tids = sorted({t for t, _ in tr})
    # (1) thread-locality: each thread's outputs equal its outputs when run alone
    for t in tids:
        alone = serial_reads(env, tr, t)
        mine = [o for (tt, o) in outs if tt == t]
        if alone != mine:
            fails.append(f"thread {t} observes {mine} in the interleaving but {alone} alone")
    # (2) a rejected attempt changes nothing a later read can observe: removing the rejected op from the thread's
    #     program must not change any of its other outputs
    for t in tids:
        prog = [op for tt, op in tr if tt == t]
        res = serial_reads(env, tr, t)
        for i, (op, o) in enumerate(zip(prog, res)):
            if o[0] == "cfgErr":
                without = prog[:i] + prog[i + 1:]
                r2 = serial_reads(env, [[t, x] for x in without], t)
                if r2 != res[:i] + res[i + 1:]:
                    fails.append(f"rejected {op} is observable: outputs {res} vs {r2} without it")
        # (3) after an exit, reads are environment/default; state is clean
        impl = Impl(env)
        base = {k: impl.do(t, ["read", k])[0] for k in ("DEFAULT_SCHEMA", "TSQL_NO_SEMICOLON", "DIRECTORY")}
        impl2 = Impl(env)
        for op in prog:
            impl2.do(t, op)
            if op[0] == "exit":
                for k, b in base.items():
                    got = impl2.do(t, ["read", k])[0]
                    if got != b:
                        fails.append(f"after scope exit thread {t} reads {k}={got}, expected environment/default {b}")
        # (4) assignment refused; (5) coercion
        for op, o in zip(prog, res):
            if op[0] == "assign" and op[1] in ("DEFAULT_SCHEMA", "TSQL_NO_SEMICOLON", "DIRECTORY", "LATERAL_COLUMN_ALIAS_REFERENCE") and o != ["cfgErr", "readonly"]:
                fails.append(f"assignment to {op[1]} was not refused: {o}")
            if op[0] == "read" and o[0] == "val":
                want = {"DEFAULT_SCHEMA": "s", "DIRECTORY": "s", "TSQL_NO_SEMICOLON": "b", "LATERAL_COLUMN_ALIAS_REFERENCE": "b"}.get(op[1])
                if want and o[1][0] != want:
                    fails.append(f"read {op[1]} returned {o[1]} (not coerced to the key's type)")
            if o[0] == "internal":
                fails.append(f"{op} raised a non-library exception {o[1]}")
    return fails


def shrink_trace(env, tr, pred):
    """greedy removal of steps while `pred` (property failure on the implementation) persists"""
    cur = list(tr)
    changed = True
    while changed:
        changed = False
        for i in range(len(cur)):
            cand = cur[:i] + cur[i + 1:]
            if cand and pred(cand):
                cur = cand; changed = True; break
    return cur


def run_impl_trace(env, tr):
    impl = Impl(env)
    outs = []
    for tid, op in tr:
        outs.append([tid, impl.do(tid, op)[0]])
    tids = []
    for t, _ in tr:
        if t not in tids:
            tids.append(t)
    return outs, impl.final(tids)


PROBE_KEYS = ["DEFAULT_SCHEMA", "TSQL_NO_SEMICOLON", "DIRECTORY", "LATERAL_COLUMN_ALIAS_REFERENCE"]


def handle_mismatch(chk, env, tr, outs, final, ans, micros, micro_ok):
    # failing-input search: make every thread read every key after the trace so that any state difference
    # becomes observable, then evaluate the property on the implementation alone
    tids = sorted({t for t, _ in tr})
    tr = list(tr) + [[t, ["read", k]] for t in tids for k in PROBE_KEYS]
    outs, final = run_impl_trace(env, tr)
    fails = property_failures(env, tr, outs, final)
    if fails:
        def pred(c):
            o, f = run_impl_trace(env, c)
            return bool(property_failures(env, c, o, f))
        small = shrink_trace(env, tr, pred)
        o, f = run_impl_trace(env, small)
        chk.violation("config override observable outside its thread/scope, or a rejected attempt had an effect: "
                      + property_failures(env, small, o, f)[0],
                      {"kind": "cfg-trace", "env": env, "trace": small, "impl_outs": o, "impl_final": f,
                       "failures": property_failures(env, small, o, f)})
    else:
        if len(chk.stale) < 20:
            chk.stale.append({"kind": "cfg-trace", "env": env, "trace": tr, "impl": {"outs": outs, "final": final},
                              "model": ans, "micro_ok": micro_ok,
                              "impl_micro": [[t, [[k, m] for k, m in ms]] for t, ms in micros]})
        else:
            chk.stale_more = getattr(chk, "stale_more", 0) + 1


# ---------------------------------------------------------------------------------------------------- part B
WITH_OPS = ["open_valid", "open_valid2", "open_unknown", "open_mixed", "read_ds", "read_tsql", "raise", "close", "assign"]


def run_with_program(env, prog, tid=1, impl=None):
    """execute a `with`-structured program using real `with` statements.  prog: nested list
       ["scope", kwargs, body] | ["read", key] | ["raise"] | ["assign", key].  Returns flat list of observations."""
    impl = impl or Impl(env)
    L = impl.loader
    obs = []

    class Boom(Exception):
        pass

    def ex(items):
        for it in items:
            impl.cur = tid
            if it[0] == "read":
                obs.append(impl.do(tid, ["read", it[1]])[0])
            elif it[0] == "assign":
                obs.append(impl.do(tid, ["assign", it[1]])[0])
            elif it[0] == "raise":
                raise Boom()
            elif it[0] == "scope":
                def body():
                    try:
                        with L(**it[1]):
                            obs.append(["entered"])
                            ex(it[2])
                    except impl.ConfigException as e:
                        obs.append(["cfgErr", classify_cfg_error(e)])
                try:
                    impl._with_env(body)
                except Boom:
                    obs.append(["exited-by-exception"])
                    # the exception is handled here: the scope has ended, execution continues after it
    try:
        ex(prog)
    except Boom:
        obs.append(["uncaught"])
    return obs, impl


def gen_with_programs(tier):
    """`with`-structured programs: [pre] scope(kw, body) [post]; body = <=2 items from atoms + scope(kw', <=1 atom)"""
    atoms = [["read", "DEFAULT_SCHEMA"], ["read", "TSQL_NO_SEMICOLON"], ["raise"], ["assign", "DEFAULT_SCHEMA"]]
    # the empty key set is a legal scope too (seeded mutant C15/3: a nested-scope guard by truthiness of the override dict)
    kws = [{"DEFAULT_SCHEMA": "s1"}, {"DEFAULT_SCHEMA": "", "TSQL_NO_SEMICOLON": "on"}, {"BOGUS": 1},
           {"DEFAULT_SCHEMA": "s2", "BOGUS": 1}, {"TSQL_NO_SEMICOLON": 0}, {}]
    inner_kws = kws if tier == "thorough" else [kws[1], kws[2], kws[3]]
    body2 = [[]] + [[a] for a in atoms]
    inner = list(atoms) + [["scope", kw, b] for kw in inner_kws for b in body2]
    bodies = [[]] + [[x] for x in inner] + [[x, y] for x in inner for y in inner]
    pres = [[], [["read", "DEFAULT_SCHEMA"]]] + ([[["scope", {"DEFAULT_SCHEMA": "p", "BOGUS": 2}, []]]] if tier == "thorough" else [])
    posts = [[], [["read", "DEFAULT_SCHEMA"], ["read", "TSQL_NO_SEMICOLON"]]]
    for kw in kws:
        for body in bodies:
            for pre in pres:
                for post in posts:
                    yield pre + [["scope", kw, body]] + post


def expected_with(env, prog):
    """reference semantics of scoped overrides written directly from the property (independent of model and code):
       a stack-free interpreter — override dict is None outside scopes."""
    truthy = ("true", "on", "ok", "y", "yes", "1")
    types = {"DEFAULT_SCHEMA": str, "DIRECTORY": str, "TSQL_NO_SEMICOLON": bool, "LATERAL_COLUMN_ALIAS_REFERENCE": bool}
    defaults = {"DEFAULT_SCHEMA": "", "TSQL_NO_SEMICOLON": False, "LATERAL_COLUMN_ALIAS_REFERENCE": False}

    def coerce(v, t):
        if t is bool:
            try:
                return int(v) != 0
            except ValueError:
                return v.lower().strip() in truthy
        return str(v)

    obs = []

    class Boom(Exception):
        pass

    def read(k, ov):
        if ov is not None and k in ov:
            return ["val", jval(ov[k])]
        if k in env:
            return ["val", jval(coerce(env[k], types[k]))]
        return ["val", jval(coerce(defaults[k], types[k]))]

    def ex(items, ov):
        for it in items:
            if it[0] == "read":
                obs.append(read(it[1], ov))
            elif it[0] == "assign":
                obs.append(["cfgErr", "readonly"])
            elif it[0] == "raise":
                raise Boom()
            elif it[0] == "scope":
                if ov is not None:
                    obs.append(["cfgErr", "reentrant"]); continue
                if any(k not in types for k in it[1]):
                    obs.append(["cfgErr", "invalid-key"]); continue
                nov = {k: coerce(v, types[k]) for k, v in it[1].items()}
                obs.append(["entered"])
                try:
                    ex(it[2], nov)
                except Boom:
                    obs.append(["exited-by-exception"])
    try:
        ex(prog, None)
    except Boom:
        obs.append(["uncaught"])
    return obs


def blur(obs):
    """the property says a rejected attempt is rejected, not which message wins when two reasons apply"""
    return [["cfgErr", "rejected"] if o[0] == "cfgErr" and o[1] in ("invalid-key", "reentrant") else o for o in obs]


def part_b(chk):
    n = 0
    for env in KEYS_ENV:
        for prog in gen_with_programs(chk.tier):
            n += 1
            obs, impl = run_with_program(env, prog)
            obs = blur(obs)
            want = blur(expected_with(env, prog))
            chk.count("with:" + canon_json([env, prog]), any(it[0] == "scope" for it in prog))
            if obs != want:
                # shrink by removing top-level items
                def pred(p):
                    return blur(run_with_program(env, p)[0]) != blur(expected_with(env, p))
                cur = prog
                ch = True
                while ch:
                    ch = False
                    for i in range(len(cur)):
                        c = cur[:i] + cur[i + 1:]
                        if c and pred(c):
                            cur = c; ch = True; break
                chk.violation("`with`-structured program: observations differ from scoped-override semantics",
                              {"kind": "with-program", "env": env, "program": cur,
                               "impl": run_with_program(env, cur)[0], "expected": expected_with(env, cur)})
                return n
            # state must be clean at the end of every program (all scopes closed)
            fin = impl.final([1])
            if fin != [[1, {"cfg": None, "ctx": False}]]:
                chk.violation("override survives the end of all scopes",
                              {"kind": "with-program", "env": env, "program": prog, "final": fin})
                return n
            if n % 3000 == 1:
                chk.sample({"env": env, "with_program": prog, "observations": obs})
    return n


# ---------------------------------------------------------------------------------------------------- part C
class LineScheduler:
    """runs real threads in lock-step: a thread may advance only when it holds the turn; it offers the turn at every
    `line` event inside sqllineage/config.py.  `schedule` is an iterator of booleans/ints: at each yield point the next
    element says which thread index runs next."""

    def __init__(self, n, schedule, cfgfile):
        self.n = n
        self.schedule = iter(schedule)
        self.cfgfile = cfgfile
        self.cv = threading.Condition()
        self.turn = 0
        self.alive = [True] * n
        self.steps = 0

    def _next(self, me):
        try:
            want = next(self.schedule) % self.n
        except StopIteration:
            want = me
        if not self.alive[want]:
            want = me if self.alive[me] else next((i for i in range(self.n) if self.alive[i]), me)
        return want

    def yield_point(self, me):
        with self.cv:
            self.steps += 1
            nxt = self._next(me)
            if nxt != me:
                self.turn = nxt
                self.cv.notify_all()
                while self.turn != me:
                    self.cv.wait()

    def start(self, me):
        with self.cv:
            while self.turn != me:
                self.cv.wait()

    def finish(self, me):
        with self.cv:
            self.alive[me] = False
            nxt = next((i for i in range(self.n) if self.alive[i]), None)
            if nxt is not None:
                self.turn = nxt
            self.cv.notify_all()

    def tracer(self, me):
        def local(frame, event, arg):
            if event == "line":
                self.yield_point(me)
            return local

        def glob(frame, event, arg):
            if event == "call" and frame.f_code.co_filename == self.cfgfile:
                return local
            return None
        return glob


def run_threads_scheduled(env, programs, schedule):
    """programs: list of `with`-structured programs, one per real thread, all on ONE fresh loader."""
    cfgmod, ConfigException = load_impl()
    shared = Impl(env)
    L = shared.loader
    object.__setattr__(L, "get_ident", threading.get_ident)   # real thread identifiers
    sched = LineScheduler(len(programs), schedule, cfgmod.__file__)
    results = [None] * len(programs)
    errors = []

    def worker(i):
        sched.start(i)
        sys.settrace(sched.tracer(i))
        try:
            obs = []

            class Boom(Exception):
                pass

            def rd(k):
                try:
                    return ["val", shared.canon_val(k, getattr(L, k))]
                except ConfigException as e:
                    return ["cfgErr", classify_cfg_error(e)]

            def ex(items):
                for it in items:
                    if it[0] == "read":
                        obs.append(rd(it[1]))
                    elif it[0] == "assign":
                        try:
                            setattr(L, it[1], 1); obs.append(["unit"])
                        except ConfigException as e:
                            obs.append(["cfgErr", classify_cfg_error(e)])
                    elif it[0] == "raise":
                        raise Boom()
                    elif it[0] == "scope":
                        try:
                            try:
                                with L(**it[1]):
                                    obs.append(["entered"])
                                    ex(it[2])
                            except ConfigException as e:
                                obs.append(["cfgErr", classify_cfg_error(e)])
                        except Boom:
                            obs.append(["exited-by-exception"])
            try:
                ex(programs[i])
            except Boom:
                obs.append(["uncaught"])
            results[i] = obs
        except BaseException as e:  # noqa
            errors.append(repr(e))
        finally:
            sys.settrace(None)
            sched.finish(i)

    def go():
        ths = [threading.Thread(target=worker, args=(i,)) for i in range(len(programs))]
        for t in ths:
            t.start()
        for t in ths:
            t.join(30)
        if any(t.is_alive() for t in ths):
            raise Infra("scheduled threads did not terminate")
    shared._with_env(go)
    if errors:
        raise Infra("worker error: " + errors[0])
    leftovers = {"cfg": dict(L._thread_config), "ctx": set(L._thread_in_context_manager)}
    return results, sched.steps, leftovers


def part_c(chk):
    env = KEYS_ENV[1]
    progs = [
        [["scope", {"DEFAULT_SCHEMA": "A"}, [["read", "DEFAULT_SCHEMA"], ["read", "TSQL_NO_SEMICOLON"]]], ["read", "DEFAULT_SCHEMA"]],
        [["scope", {"DEFAULT_SCHEMA": "", "TSQL_NO_SEMICOLON": 0}, [["read", "DEFAULT_SCHEMA"], ["scope", {"DEFAULT_SCHEMA": "N"}, []], ["read", "DEFAULT_SCHEMA"]]], ["read", "TSQL_NO_SEMICOLON"]],
        [["read", "DEFAULT_SCHEMA"], ["scope", {"DEFAULT_SCHEMA": "C", "BOGUS": 1}, [["read", "DEFAULT_SCHEMA"]]], ["read", "DEFAULT_SCHEMA"]],
        [["scope", {"TSQL_NO_SEMICOLON": "off"}, [["read", "TSQL_NO_SEMICOLON"], ["raise"], ["read", "TSQL_NO_SEMICOLON"]]], ["read", "TSQL_NO_SEMICOLON"]],
    ]
    n = 0
    total_steps = 0
    pairs = list(itertools.permutations(range(len(progs)), 2))
    n_sched = 400 if chk.tier == "thorough" else 60
    for (a, b) in pairs:
        P = [progs[a], progs[b]]
        want = [blur(expected_with(env, p)) for p in P]
        # bounded-exhaustive: all schedules with at most `k` context switches at line granularity
        alone_steps = 80
        scheds = []
        k = 3 if chk.tier == "thorough" else 2
        pts = list(range(0, alone_steps, 3 if chk.tier == "thorough" else 6))
        for cs in itertools.combinations(pts, k):
            s, cur = [], 0
            for i in range(alone_steps * 2):
                if i in cs:
                    cur = 1 - cur
                s.append(cur)
            scheds.append(s)
        scheds = scheds[:: max(1, len(scheds) // n_sched)]
        for j in range(n_sched // 2):
            scheds.append([chk.rng.randrange(2) for _ in range(alone_steps * 2)])
        for s in scheds:
            res, steps, left = run_threads_scheduled(env, P, s)
            res = [blur(r) for r in res]
            n += 1
            total_steps += steps
            chk.count("sched:" + canon_json([a, b, s[:80]]), True)
            if res != want or left["cfg"] or left["ctx"]:
                chk.violation("real threads under a line-level schedule: a thread observed something other than its "
                              "own scoped overrides (or state leaked)",
                              {"kind": "line-schedule", "env": env, "programs": P, "schedule": s,
                               "observed": res, "expected": want, "leftover": {k: str(v) for k, v in left.items()}})
                return n, total_steps
    # three threads, random schedules
    for j in range(n_sched // 4):
        idx = [chk.rng.randrange(len(progs)) for _ in range(3)]
        P = [progs[i] for i in idx]
        s = [chk.rng.randrange(3) for _ in range(400)]
        res, steps, left = run_threads_scheduled(env, P, s)
        n += 1
        total_steps += steps
        chk.count("sched3:" + canon_json([idx, s[:60]]), True)
        res = [blur(r) for r in res]
        want = [blur(expected_with(env, p)) for p in P]
        if res != want or left["cfg"] or left["ctx"]:
            chk.violation("three real threads under a random line-level schedule",
                          {"kind": "line-schedule", "env": env, "programs": P, "schedule": s, "observed": res,
                           "expected": want})
            return n, total_steps
    return n, total_steps


# ---------------------------------------------------------------------------------------------------- replay
def replay(chk, obj):
    r = obj["replay"]
    if r.get("kind") == "cfg-trace":
        outs, final = run_impl_trace(r["env"], r["trace"])
        fails = property_failures(r["env"], r["trace"], outs, final)
        print(json.dumps({"impl_outs": outs, "impl_final": final, "failures": fails}, indent=1))
        return 1 if fails else 0
    if r.get("kind") == "with-program":
        obs = blur(run_with_program(r["env"], r["program"])[0])
        want = blur(expected_with(r["env"], r["program"]))
        print(json.dumps({"impl": obs, "expected": want}, indent=1))
        return 1 if obs != want else 0
    if r.get("kind") == "line-schedule":
        res, _, left = run_threads_scheduled(r["env"], r["programs"], r["schedule"])
        res = [blur(x) for x in res]
        want = [blur(expected_with(r["env"], p)) for p in r["programs"]]
        print(json.dumps({"observed": res, "expected": want}, indent=1))
        return 1 if res != want else 0
    print("replay file names no concrete input:", json.dumps(r)[:500])
    return 1


def run(chk):
    drv = Driver() if chk.lean.driver_ok else None
    na = 0
    if drv is not None:
        na = part_a(chk, drv)
    else:
        chk.stale.append({"kind": "driver", "why": "model driver does not build"})
    nb = part_b(chk)
    nc, steps = part_c(chk)
    chk.coverage.update({
        "exhaustive": True,
        "op_traces_vs_model": na, "with_programs_vs_scope_semantics": nb, "line_schedules_real_threads": nc,
        "line_level_yield_points": steps,
        "op_alphabet": op_alphabet(),
        "environments": KEYS_ENV,
    })
    chk.assumptions += [
        "CPython executes a single dict/set operation atomically (GIL); threading.get_ident is unique among live threads",
        "the `with` statement calls __exit__ on every exit path once __enter__ returned",
        "value domain of overrides: str, int, bool (None/float are outside the modelled domain)",
    ]
    return chk.finish(
        level="proof",
        rule="A: every op sequence over the printed alphabet (1 thread, length<=3/4; 2 threads x every interleaving of "
             "every pair of programs of length<=2; 3 threads with id reuse) x 2 environments, impl vs Lean model incl. "
             "micro-operation log; B: every `with`-structured program to nesting depth 2 vs scoped-override semantics; "
             "C: real threads under bounded-exhaustive (<=2/3 context switches) and random line-level schedules. "
             "non-trivial = contains a call and a non-unit output (A), a scope (B), any schedule (C); distinct by canonical JSON",
        trusted_base=["Lean 4.33 kernel", "axioms: propext, Classical.choice, Quot.sound", "tools/translate.py (Gen/Config.lean)",
                      "harness/c15.py correspondence (virtual thread ids, logging dict/set taps)"],
    )
