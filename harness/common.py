"""Shared machinery of the checks: Lean build + audit, model driver, violations, known findings, evidence.

The implementation under test is always the working tree at VERIF_REPO (default /repo): it is put first on
sys.path here, nothing is installed.  Exit codes of a check: 0 held, 1 VIOLATION, 2 infrastructure failure.
"""
import hashlib
import json
import os
import random
import re
import subprocess
import sys
import time

HERE = os.path.dirname(os.path.abspath(__file__))
VERIF = os.path.dirname(HERE)
REPO = os.environ.get("VERIF_REPO", "/repo")
LEAN_DIR = os.path.join(VERIF, "lean")
DRIVER_BIN = os.path.join(LEAN_DIR, ".lake", "build", "bin", "driver")
PY = "/venv/bin/python"

if REPO not in sys.path:
    sys.path.insert(0, REPO)

ALLOWED_AXIOMS = {"propext", "Classical.choice", "Quot.sound"}
FORBIDDEN = re.compile(r"\b(sorry|admit|native_decide|bv_decide|implemented_by|unsafe)\b|^\s*axiom\s|maxHeartbeats\s+0")

# which generated table each property's model/theorems depend on (tie #1)
GEN_DEPS = {
    "Config.lean": ["C15", "C14", "C05"],
    "Const.lean": ["C16", "C07", "C03", "C18", "C17"],
    "Dispatch.lean": ["C01", "C09", "C10"],
}


class Infra(Exception):
    """infrastructure failure: exit 2, never reported as a violation"""


def log(*a):
    print(*a, file=sys.stderr, flush=True)


# ------------------------------------------------------------------------------------------------ Lean side
class LeanStatus:
    def __init__(self):
        self.translate_failed = []   # Gen files the translator could not regenerate
        self.regenerated = []        # Gen files whose content changed on this run
        self.build_ok = True
        self.build_log = ""
        self.forbidden = []          # forbidden tokens found in the sources
        self.theorems = []           # [(name, [axioms])] of this property
        self.bad_axioms = []         # theorems depending on anything outside ALLOWED_AXIOMS
        self.driver_ok = True

    def broken_for(self, prop):
        """list of human-readable reasons why the proof side no longer checks for `prop`"""
        why = []
        for g in self.translate_failed:
            if prop in GEN_DEPS.get(g, []):
                why.append(f"translator could not regenerate Gen/{g} from the source")
        if not self.build_ok:
            why.append("lake build of SqlLineage.Props.%s failed: %s" % (prop, self.first_error()))
        for t, ax in self.bad_axioms:
            why.append(f"theorem {t} depends on non-standard axioms {ax}")
        for f in self.forbidden:
            why.append(f"forbidden token in {f}")
        return why

    def first_error(self):
        for line in self.build_log.splitlines():
            if "error:" in line:
                return line.strip()[:300]
        return self.build_log.strip()[-300:]


def _strip_comments(text):
    # remove block comments (nested) and line comments before grepping for forbidden tokens
    out = []
    i, depth, n = 0, 0, len(text)
    while i < n:
        if text.startswith("/-", i):
            depth += 1; i += 2
        elif depth and text.startswith("-/", i):
            depth -= 1; i += 2
        elif depth:
            if text[i] == "\n":
                out.append("\n")
            i += 1
        elif text.startswith("--", i):
            while i < n and text[i] != "\n":
                i += 1
        else:
            out.append(text[i]); i += 1
    return "".join(out)


def grep_forbidden():
    hits = []
    for root, _, files in os.walk(LEAN_DIR):
        if ".lake" in root:
            continue
        for f in files:
            if f.endswith(".lean"):
                p = os.path.join(root, f)
                with open(p, encoding="utf-8") as fh:
                    body = _strip_comments(fh.read())
                # string literals may mention the words (e.g. the audit prints them); drop them too
                body = re.sub(r'"(\\.|[^"\\])*"', '""', body)
                for ln, line in enumerate(body.splitlines(), 1):
                    if FORBIDDEN.search(line):
                        hits.append(f"{os.path.relpath(p, VERIF)}:{ln}: {line.strip()[:80]}")
    return hits


def prepare_lean(prop, need_driver=True):
    """translate -> build Props.<prop> (+ driver) -> audit.  Never raises for a *proof* failure (that is a result);
    raises Infra only when the toolchain itself is unusable."""
    st = LeanStatus()
    t0 = time.time()
    r = subprocess.run([PY, os.path.join(VERIF, "tools", "translate.py"), "--repo", REPO],
                       capture_output=True, text=True)
    for line in r.stdout.splitlines():
        m = re.match(r"translate: regenerated Gen/(\S+)", line)
        if m:
            st.regenerated.append(m.group(1))
    for line in r.stderr.splitlines():
        m = re.match(r"translate: FAILED Gen/(\S+?):", line)
        if m:
            st.translate_failed.append(m.group(1))
    if r.returncode not in (0, 2):
        raise Infra("translator crashed: " + r.stderr[-500:])
    targets = [f"SqlLineage.Props.{prop}"]
    b = subprocess.run(["lake", "build"] + targets, cwd=LEAN_DIR, capture_output=True, text=True)
    st.build_log = b.stdout + b.stderr
    st.build_ok = b.returncode == 0
    if need_driver:
        d = subprocess.run(["lake", "build", "driver"], cwd=LEAN_DIR, capture_output=True, text=True)
        st.driver_ok = d.returncode == 0 and os.path.exists(DRIVER_BIN)
        if not st.driver_ok:
            st.build_log += "\n[driver]\n" + d.stdout + d.stderr
    st.forbidden = grep_forbidden()
    if st.build_ok:
        st.theorems = audit(prop)
        st.bad_axioms = [(t, [a for a in ax if a not in ALLOWED_AXIOMS]) for t, ax in st.theorems
                         if any(a not in ALLOWED_AXIOMS for a in ax)]
    log(f"[lean] translate+build+audit {time.time() - t0:.1f}s  build_ok={st.build_ok} driver_ok={st.driver_ok} "
        f"theorems={len(st.theorems)} regenerated={st.regenerated} translate_failed={st.translate_failed}")
    return st


AUDIT_TEMPLATE = r'''
import SqlLineage.Props.%(prop)s
import Lean
open Lean Elab Command
run_cmd do
  let env ← getEnv
  let mut rows : Array (String × Array Name) := #[]
  for (n, ci) in env.constants.toList do
    if n.isInternal then continue
    let last := n.components.getLast?.map Name.toString |>.getD ""
    if last.startsWith "eq_" || last.startsWith "match_" || last.startsWith "_" then continue
    match ci with
    | .thmInfo _ =>
      match n.components with
      | `SqlLineage :: `Props :: c :: rest =>
        if c.toString == "%(prop)s" && !rest.isEmpty then
          let ax ← liftCoreM (collectAxioms n)
          rows := rows.push (".".intercalate (rest.map Name.toString), ax)
      | _ => pure ()
    | _ => pure ()
  for (t, ax) in rows.qsort (fun a b => a.1 < b.1) do
    let axs := ", ".intercalate (ax.toList.map (fun a => "\"" ++ a.toString ++ "\""))
    IO.println s!"\{\"theorem\": \"{t}\", \"axioms\": [{axs}]}"
'''


def audit(prop):
    d = os.path.join(LEAN_DIR, ".lake", "audit")
    os.makedirs(d, exist_ok=True)
    p = os.path.join(d, f"Audit{prop}.lean")
    with open(p, "w") as f:
        f.write(AUDIT_TEMPLATE % {"prop": prop})
    r = subprocess.run(["lake", "env", "lean", p], cwd=LEAN_DIR, capture_output=True, text=True)
    if r.returncode != 0:
        raise Infra("audit failed: " + (r.stdout + r.stderr)[-800:])
    out = []
    for line in r.stdout.splitlines():
        line = line.strip()
        if line.startswith("{"):
            o = json.loads(line)
            out.append((o["theorem"], o["axioms"]))
    return out


def count_declared_theorems(prop):
    p = os.path.join(LEAN_DIR, "SqlLineage", "Props", f"{prop}.lean")
    try:
        with open(p, encoding="utf-8") as f:
            body = _strip_comments(f.read())
    except OSError:
        return 0
    return len(re.findall(r"^\s*theorem\s", body, flags=re.M))


def leanchecker(modules):
    """thorough tier: independent re-check of the compiled modules"""
    r = subprocess.run(["lake", "env", "leanchecker"] + modules, cwd=LEAN_DIR, capture_output=True, text=True)
    return r.returncode == 0, (r.stdout + r.stderr)[-2000:]


class Driver:
    """batch interface to the compiled model driver: ask(list of request objects) -> list of answers"""

    def __init__(self):
        if not os.path.exists(DRIVER_BIN):
            raise Infra("model driver is not built")

    def ask(self, requests, chunk=20000):
        out = []
        for i in range(0, len(requests), chunk):
            data = "\n".join(json.dumps(r, separators=(",", ":")) for r in requests[i:i + chunk]) + "\n"
            r = subprocess.run([DRIVER_BIN], input=data, capture_output=True, text=True)
            if r.returncode != 0:
                raise Infra("driver crashed: " + r.stderr[-500:])
            lines = [l for l in r.stdout.split("\n") if l]
            if len(lines) != len(requests[i:i + chunk]):
                raise Infra(f"driver answered {len(lines)} lines for {len(requests[i:i + chunk])} requests")
            out.extend(json.loads(l) for l in lines)
        return out

    def ask1(self, request):
        return self.ask([request])[0]


# ------------------------------------------------------------------------------------------------ results
def load_known_findings():
    p = os.path.join(VERIF, "known_findings.json")
    if not os.path.exists(p):
        return []
    with open(p, encoding="utf-8") as f:
        return json.load(f).get("entries", [])


class Check:
    """one run of one property's check; collects coverage, violations, known-finding hits; writes evidence"""

    def __init__(self, prop, tier, seed):
        self.prop, self.tier, self.seed = prop, tier, seed
        self.t0 = time.time()
        self.rng = random.Random(seed)
        self.violations = []          # [(replay_path, tail)]
        self.known_hits = {}          # finding id -> count
        self.coverage = {}
        self.assumptions = []
        self.samples = []
        self.evaluations = 0
        self.nontrivial = set()
        self.stale = []               # impl != model but impl == spec (correspondence stale, not a failing input)
        self.lean = None
        self.findings = [e for e in load_known_findings() if e.get("property") == prop]

    # -- counting
    def count(self, key, nontrivial=True, n=1):
        self.evaluations += n
        if nontrivial:
            self.nontrivial.add(key if isinstance(key, (str, int, tuple)) else json.dumps(key, sort_keys=True))

    def sample(self, obj, limit=6):
        if len(self.samples) < limit:
            self.samples.append(obj)

    # -- outcomes
    def violation(self, what, replay, tail=""):
        """record a violation with a replay object; `tail` = 'no-failing-input-found' when there is no concrete input"""
        os.makedirs(os.path.join(VERIF, "replays"), exist_ok=True)
        body = {"property": self.prop, "what": what, "tier": self.tier, "seed": self.seed, "replay": replay}
        h = hashlib.sha1(json.dumps(body, sort_keys=True, default=str).encode()).hexdigest()[:10]
        path = os.path.join("replays", f"{self.prop}-{h}.json")
        with open(os.path.join(VERIF, path), "w", encoding="utf-8") as f:
            json.dump(body, f, indent=1, default=str)
        self.violations.append((path, tail, what))
        return path

    def known(self, finding_id, n=1):
        self.known_hits[finding_id] = self.known_hits.get(finding_id, 0) + n

    def finding(self, finding_id):
        for e in self.findings:
            if e.get("id") == finding_id and e.get("status") == "finding":
                return e
        return None

    # -- end of run
    def finish(self, level, rule, extra_coverage=None, trusted_base=None, checker_cmd=None):
        lean = self.lean
        obligations = discharged = 0
        if lean is not None:
            if lean.build_ok:
                obligations = len(lean.theorems)
                bad = {t for t, _ in lean.bad_axioms}
                discharged = len([t for t, _ in lean.theorems if t not in bad])
            else:
                obligations = max(count_declared_theorems(self.prop), 1)
                discharged = 0
            broken = lean.broken_for(self.prop)
            if broken and not any(t == "" for _, t, _ in self.violations):
                # proof side no longer checks and no concrete failing input was found by the search
                self.violation("proof obligations / translation no longer check; the search found no failing input",
                               {"broken": broken, "stale_correspondence": self.stale[:20]},
                               tail="no-failing-input-found")
            elif self.stale and not any(t == "" for _, t, _ in self.violations):
                self.violation("model/implementation correspondence no longer holds; the search found no input on which "
                               "the property fails",
                               {"correspondence": self.stale[:20]}, tail="no-failing-input-found")
        cov = {
            "evaluations": self.evaluations,
            "distinct_nontrivial": len(self.nontrivial),
            "rule": rule,
            "samples": self.samples,
            "obligations": obligations,
            "discharged": discharged,
            "checker_cmd": checker_cmd or f"cd lean && lake build SqlLineage.Props.{self.prop} && lake env lean .lake/audit/Audit{self.prop}.lean",
            "trusted_base": trusted_base or [],
            "known_findings_hit": self.known_hits,
            "theorems": [t for t, _ in (lean.theorems if lean else [])],
            "axioms_used": sorted({a for _, ax in (lean.theorems if lean else []) for a in ax}),
        }
        cov.update(self.coverage)
        if extra_coverage:
            cov.update(extra_coverage)
        ev = {
            "property_id": self.prop, "tier": self.tier, "seed": self.seed, "level": level,
            "coverage": cov, "assumptions": self.assumptions,
            "wall_s": round(time.time() - self.t0, 2), "violations": len(self.violations),
        }
        # evidence/ describes runs against /repo only: a run against another tree (VERIF_REPO=<scratch copy with a seeded
        # change>) writes its evidence next to that tree instead
        evdir = os.path.join(VERIF, "evidence") if os.path.realpath(REPO) == "/repo" else os.path.join(REPO, ".verif-evidence")
        os.makedirs(evdir, exist_ok=True)
        with open(os.path.join(evdir, f"{self.prop}.json"), "w", encoding="utf-8") as f:
            json.dump(ev, f, indent=1, default=str)
        for fid, n in sorted(self.known_hits.items()):
            e = self.finding(fid)
            print(f"KNOWN-FINDING: property={self.prop} {fid}: {e['what'] if e else ''} ({n} case(s) on this run)")
        seen = set()
        for path, tail, what in self.violations:
            if path in seen:
                continue
            seen.add(path)
            print(f"VIOLATION property={self.prop} replay={path}" + (f" {tail}" if tail else ""))
            log(f"  -> {what}")
        sys.stdout.flush()
        return 1 if self.violations else 0


def canon_json(o):
    return json.dumps(o, sort_keys=True, separators=(",", ":"), default=str)
