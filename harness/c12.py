"""C12 — runs are isolated from one another.

A. correspondence (impl vs Lean model, `provhist`): the REAL `DummyMetaDataProvider` / `MetaDataProvider.session()` /
   `LineageRunner` are driven through harness-side taps (a `TapProvider` logging register / deregister / lookups with
   their answers and raising on the j-th base lookup; a statement tap around `analyze` raising at statement k; taps on
   `split` and `SQLLineageHolder.of`) on generated scripts of 1-4 simple statements whose provider behaviour is known
   (descriptions below), as histories on ONE provider object: systematic fault enumeration (every k, every j, split,
   assembly) and random histories.  Compared per run: the event log, the session content after the run, the provider's
   answers after the run, the class of the escaping exception.
B. the property oracle, which never mentions the model: after every run `_session_metadata == {}` and
   `get_table_columns` answers as the bare metadata; every run on the reused provider has the result AND the event
   log of the same run on a newly constructed provider (in-process, all cases); whole histories executed in one fresh
   subprocess (reused provider, or the shared default provider of `LineageRunner(sql)`) vs each run alone in its own
   fresh subprocess (corpus harvested from /repo/tests + generated + tsql split-cache scripts).
C. threads: `ThreadPoolExecutor(16)` with one provider per thread (and tasks on the shared default provider) vs the
   sequential answers, several seeds.
"""
import ast
import inspect
import json
import os
import re
import subprocess
import sys
import threading
import time
import warnings
from concurrent.futures import ThreadPoolExecutor

from common import Check, Driver, Infra, REPO, PY, VERIF, HERE, canon_json, log

# ----------------------------------------------------------------------------------------- implementation + taps
CUR = threading.local()     # .run : RunCtx of the run the calling thread is executing (None outside runs)
_IMPL = None


class Boom(Exception):
    """injected non-library exception"""


class ProviderBoom(Exception):
    """what the fault-injecting provider raises from `_get_table_columns`"""


class RunCtx:
    def __init__(self, faults, sched=None, me=None):
        self.faults = faults or {}
        self.log = []
        self.stmt_idx = 0
        self.n_base = 0
        self.lookup_fails = set(self.faults.get("lookupFails") or [])
        self.sched, self.me = sched, me


def _ctx():
    return getattr(CUR, "run", None)


def _park(c):
    """tap point reached: under an access scheduler the thread waits here, BEFORE the access, for its turn"""
    if c is not None and c.sched is not None:
        c.sched.park(c.me)


def _raise_err(e):
    I = impl()
    if e == "invalidSyntax":
        raise I.InvalidSyntaxException("injected")
    if e == "unsupported":
        raise I.UnsupportedStatementException("injected")
    if e == "provider":
        raise ProviderBoom("injected")
    raise Boom(e[1] if isinstance(e, list) else str(e))


class Impl:
    pass


def impl():
    """import the implementation under test (from VERIF_REPO) and place the taps — once per process"""
    global _IMPL
    if _IMPL is not None:
        return _IMPL
    warnings.simplefilter("ignore")
    I = Impl()
    import sqllineage.runner as runner_mod
    import sqllineage.core.holders as holders_mod
    from sqllineage.config import SQLLineageConfig
    from sqllineage.core.metadata.dummy import DummyMetaDataProvider
    from sqllineage.core.metadata_provider import MetaDataProvider
    from sqllineage.core.models import Table
    from sqllineage.core.parser.sqlfluff.analyzer import SqlFluffLineageAnalyzer
    from sqllineage.core.parser.sqlparse.analyzer import SqlParseLineageAnalyzer
    from sqllineage.exceptions import InvalidSyntaxException, SQLLineageException, UnsupportedStatementException
    I.runner_mod, I.LineageRunner, I.SQLLineageConfig, I.Table = runner_mod, runner_mod.LineageRunner, SQLLineageConfig, Table
    I.InvalidSyntaxException, I.UnsupportedStatementException = InvalidSyntaxException, UnsupportedStatementException
    I.SQLLineageException = SQLLineageException
    I.DummyMetaDataProvider, I.MetaDataProvider = DummyMetaDataProvider, MetaDataProvider

    class _TapMixin:
        """session tap: logs what reaches the provider into the log of the run the calling thread executes"""

        def register_session_metadata(self, table, columns):
            c = _ctx()
            _park(c)
            if c is not None:
                c.log.append(["register", str(table), [x.raw_name for x in columns]])
            return super().register_session_metadata(table, columns)

        def deregister_session_metadata(self):
            c = _ctx()
            _park(c)
            if c is not None:
                c.log.append(["deregister"])
            return super().deregister_session_metadata()

        def get_table_columns(self, table, **kwargs):
            c = _ctx()
            _park(c)
            hit = c is not None and str(table) in self._session_metadata
            ans = super().get_table_columns(table, **kwargs)
            if hit:
                c.log.append(["lookupSession", str(table), [x.raw_name for x in ans]])
            return ans

        def _get_table_columns(self, schema, table, **kwargs):
            c = _ctx()
            name = f"{schema}.{table}"
            if c is not None:
                j = c.n_base
                c.n_base += 1
                if j in c.lookup_fails:
                    c.log.append(["lookupRaised", name])
                    raise ProviderBoom(name)
            ans = super()._get_table_columns(schema, table, **kwargs)
            if c is not None:
                c.log.append(["lookupBase", name, list(ans)])
            return ans

    class TapDict(_TapMixin, DummyMetaDataProvider):
        pass

    class _DictBacked(MetaDataProvider):
        """a provider that is NOT the dummy one: inherits `__bool__` = True"""

        def __init__(self, metadata=None):
            super().__init__()
            self.metadata = dict(metadata or {})

        def _get_table_columns(self, schema, table, **kwargs):
            return self.metadata.get(f"{schema}.{table}", [])

    class TapOther(_TapMixin, _DictBacked):
        pass

    # the other bundled provider: SQLAlchemy on in-memory sqlite (one database per provider object; tables of schema `main` are
    # created from the configuration).  Behaves like `other` (truthy whatever it knows), which is how the model sees it.
    try:
        from sqlalchemy.pool import StaticPool
        from sqllineage.core.metadata.sqlalchemy import SQLAlchemyMetaDataProvider

        class TapSql(_TapMixin, SQLAlchemyMetaDataProvider):
            def __init__(self, metadata=None):
                super().__init__("sqlite://", engine_kwargs={"poolclass": StaticPool, "connect_args": {"check_same_thread": False}})
                with self.engine.begin() as conn:
                    for name, cols in (metadata or {}).items():
                        sch, tab = name.split(".")
                        conn.exec_driver_sql(f'create table {tab} ({", ".join(cols)})')
        I.TapSql = TapSql
    except Exception:      # noqa  (sqlalchemy missing: the kind is skipped)
        I.TapSql = None
    I.TapDict, I.TapOther = TapDict, TapOther

    # statement tap
    def wrap_analyze(cls):
        orig = cls.analyze

        def analyze(self, sql, metadata_provider):
            c = _ctx()
            if c is None:
                return orig(self, sql, metadata_provider)
            _park(c)
            i = c.stmt_idx
            c.stmt_idx += 1
            c.log.append(["analyze", i])
            at = c.faults.get("analyzeAt")
            if at and at[0] == i:
                _raise_err(at[1])
            return orig(self, sql, metadata_provider)
        cls.analyze = analyze
    wrap_analyze(SqlFluffLineageAnalyzer)
    wrap_analyze(SqlParseLineageAnalyzer)

    # split taps (runner.py:193-200): both ways of splitting
    orig_split = runner_mod.split

    def split(sql):
        c = _ctx()
        if c is not None and c.faults.get("split"):
            _raise_err(c.faults["split"])
        return orig_split(sql)
    runner_mod.split = split
    orig_split_tsql = SqlFluffLineageAnalyzer.split_tsql

    def split_tsql(self, sql):
        c = _ctx()
        if c is not None and c.faults.get("split"):
            _raise_err(c.faults["split"])
        return orig_split_tsql(self, sql)
    SqlFluffLineageAnalyzer.split_tsql = split_tsql

    # assembly tap (runner.py:214-216)
    orig_of = holders_mod.SQLLineageHolder.of

    def of(metadata_provider, *args):
        c = _ctx()
        if c is not None and c.faults.get("assemble"):
            _raise_err(c.faults["assemble"])
        return orig_of(metadata_provider, *args)
    holders_mod.SQLLineageHolder.of = staticmethod(of)

    try:
        d = inspect.signature(runner_mod.LineageRunner.__init__).parameters["metadata_provider"].default
        I.default_provider = d if isinstance(d, MetaDataProvider) else None
    except Exception:
        I.default_provider = None
    _IMPL = I
    return I


def new_provider(cfg):
    """cfg = {"kind": "dict"|"other", "base": {name: [cols]}}; None = use the runner's shared default"""
    if cfg is None:
        return None
    I = impl()
    md = {k: list(v) for k, v in cfg["base"].items()}
    if cfg["kind"] == "sql":
        return I.TapSql(md) if I.TapSql is not None else I.TapOther(md)
    return I.TapDict(md) if cfg["kind"] == "dict" else I.TapOther(md)


def classify_exc(e):
    I = impl()
    if isinstance(e, ProviderBoom):
        return "provider"
    if isinstance(e, Boom):
        return ["other", str(e)]
    if isinstance(e, I.InvalidSyntaxException):
        return "invalidSyntax"
    if isinstance(e, I.UnsupportedStatementException):
        return "unsupported"
    if isinstance(e, I.SQLLineageException):
        return ["other", "lib:" + type(e).__name__]
    return ["other", "internal:" + type(e).__name__]


_SUBQ = re.compile(r"subquery_-?\d+")


def canon_names(obj):
    """anonymous subquery names carry a hash; number them by first appearance"""
    s = json.dumps(obj)
    seen = {}

    def rep(m):
        if m.group(0) not in seen:
            seen[m.group(0)] = f"subquery_#{len(seen)}"
        return seen[m.group(0)]
    return json.loads(_SUBQ.sub(rep, s))


def spec_sql(spec):
    return ";\n".join(spec["stmts"])


def do_run(spec, provider, sched=None, me=None):
    """one complete `LineageRunner` evaluation under the taps.  Returns {"result": ["ok", {...}] | ["error", cls], "events"}"""
    I = impl()
    ctx = RunCtx(spec.get("faults"), sched, me)
    if sched is not None:
        sched.ctxs[me] = ctx
    kwargs = {"dialect": spec.get("dialect", "ansi"), "silent_mode": bool(spec.get("silent"))}
    if provider is not None:
        kwargs["metadata_provider"] = provider

    def go():
        r = I.LineageRunner(spec_sql(spec), **kwargs)
        src = [str(t) for t in r.source_tables]           # first accessor triggers `_eval`
        return {"src": src, "tgt": [str(t) for t in r.target_tables],
                "mid": [str(t) for t in r.intermediate_tables],
                "col": [[str(c) for c in path] for path in r.get_column_lineage()],
                "n": len(r.statements())}
    CUR.run = ctx
    try:
        try:
            if spec.get("tsql_ns"):
                with I.SQLLineageConfig(TSQL_NO_SEMICOLON=True):
                    res = go()
            else:
                res = go()
            result = ["ok", canon_names(res)]
        except RecursionError:
            result = ["error", ["other", "internal:RecursionError"]]
        except Exception as e:      # every exception class is an observation
            result = ["error", classify_exc(e)]
    finally:
        CUR.run = None
    return {"result": result, "events": ctx.log}


def session_of(provider):
    return [[k, list(v)] for k, v in provider._session_metadata.items()]


def probe_of(provider, names):
    I = impl()
    out = []
    for t in names:
        try:
            out.append([t, [c.raw_name for c in provider.get_table_columns(I.Table(t))]])
        except Exception as e:
            out.append([t, ["!exc:" + type(e).__name__]])
    return out


def run_history(cfg, runs, probe=(), with_fresh=False):
    """execute `runs` in order on ONE provider object (cfg None: no provider argument, i.e. the shared default).
    After each run: the provider's session, its answers to `probe`.  with_fresh: additionally each run on a newly
    constructed provider (the in-process reference)."""
    I = impl()
    p = new_provider(cfg)
    out = []
    for spec in runs:
        o = do_run(spec, p)
        target = p if p is not None else I.default_provider
        o["session"] = session_of(target) if target is not None else None
        o["probe"] = probe_of(p, probe) if p is not None else []
        if with_fresh:
            o["fresh"] = do_run(spec, new_provider(cfg)) if cfg is not None else None
        out.append(o)
    return out


# ----------------------------------------------------------------------------------------- generated scripts
MD1 = {"main.s": ["a", "b", "c"], "main.r": ["b", "d"]}
MD2 = {"main.s": ["a", "b", "c"], "main.r": ["b", "d"], "main.u": ["p", "q"], "main.v": ["a", "e"]}
PROVIDERS = [
    {"kind": "dict", "base": {}},       # falsy, like the shared default
    {"kind": "dict", "base": MD1},
    {"kind": "dict", "base": MD2},
    {"kind": "other", "base": {}},      # truthy although it knows nothing
    {"kind": "other", "base": MD1},
    {"kind": "sql", "base": MD1},       # SQLAlchemyMetaDataProvider on in-memory sqlite
]
SRC = ["main.s", "main.r", "main.t", "main.u", "main.v", "main.x"]
TGT = ["main.t", "main.u", "main.v"]
COLS = ["a", "b", "c", "d", "e"]
PROBE = ["main.s", "main.r", "main.t", "main.u", "main.v", "main.x", "main.w0", "main.w1"]
UNSUPPORTED = ["grant select on main.t to role1", "create index i1 on main.t (a)", "commit"]
UNPARSABLE = ["select from from", "vacuum main.t"]
NOOP = ["drop table main.t", "truncate table main.u", "use db1"]


def bare(t):
    return t.split(".")[-1]


def gen_stmt(rng, i, weights=None, earlier=()):
    """one statement at position i of a script: (sql, model description).  What each template does to the provider
    was established on the unchanged tree and is re-checked by the correspondence on every run.  `earlier` = targets of
    earlier statements of the script: sources are drawn from them half of the time so that statements chain."""
    kinds = ["ctas", "insstar", "ctasstar", "seljoin", "insunres", "unsupported", "unparsable", "noop"]
    w = weights or [5, 6, 4, 1, 3, 1, 1, 1]
    k = rng.choices(kinds, weights=w)[0]

    def src_for(x):
        cands = [t for t in earlier if t != x]
        if cands and rng.random() < 0.5:
            return rng.choice(cands)
        return rng.choice([t for t in SRC if t != x])
    if k == "ctas":
        x = rng.choice(TGT)
        y = src_for(x)
        c = rng.sample(COLS, 2)
        return (f"create table {x} as select {c[0]}, {c[1]} from {y}",
                {"lookups": [], "write": ["table", x, [["lit", c]]]})
    if k == "insstar":
        x = rng.choice(TGT)
        y = src_for(x)
        return (f"insert into {x} select * from {y}",
                {"lookups": [x, y], "write": ["table", x, [["ans", 0], ["ans", 1]]]})
    if k == "ctasstar":
        x = rng.choice(TGT)
        y = src_for(x)
        return (f"create table {x} as select * from {y}",
                {"lookups": [y], "write": ["table", x, [["ans", 0]]]})
    if k == "seljoin":
        y, z = rng.sample(SRC, 2)
        return (f"select zz{i} from {y} join {z} on {bare(y)}.a = {bare(z)}.a", {"lookups": []})
    if k == "insunres":
        y = src_for(None)
        z = rng.choice([t for t in SRC if t != y])
        return (f"insert into main.w{i} select zz{i} from {y} join {z} on {bare(y)}.a = {bare(z)}.a",
                {"lookups": [f"main.w{i}"], "write": ["table", f"main.w{i}", [["lit", [f"zz{i}"]]]],
                 "_assemble": sorted([y, z])})
    if k == "unsupported":
        return (rng.choice(UNSUPPORTED), {"lookups": [], "raises": "unsupported"})
    if k == "unparsable":
        return (rng.choice(UNPARSABLE), {"lookups": [], "raises": "invalidSyntax"})
    return (rng.choice(NOOP), {"lookups": []})


def gen_script(rng, n=None, weights=None):
    n = n or rng.randint(1, 4)
    stmts, descs, asm = [], [], []
    earlier = []
    for i in range(n):
        sql, d = gen_stmt(rng, i, weights, earlier)
        d = dict(d)
        asm += d.pop("_assemble", [])
        if d.get("write") and d["write"][1] in TGT:
            earlier.append(d["write"][1])
        stmts.append(sql)
        descs.append(d)
    return {"stmts": stmts, "dialect": "ansi", "desc": {"stmts": descs, "assembleLookups": asm}}


ERRS = ["unsupported", "invalidSyntax", ["other", "boom"]]


def count_base_lookups(cfg, spec):
    """number of `_get_table_columns` calls of the fault-free run on a fresh provider (bounds the j enumeration)"""
    o = do_run({**spec, "faults": {}}, new_provider(cfg))
    return sum(1 for e in o["events"] if e[0] in ("lookupBase", "lookupRaised"))


def systematic_history(rng, cfg, spec):
    """every fault point of one script, as ONE history on one provider: every statement position k (tap raising
    unsupported / unparsable / another exception), every base lookup j (plus one beyond the last), assembly, split,
    and the clean run in between and at the end"""
    n = len(spec["stmts"])
    J = count_base_lookups(cfg, spec)
    runs = []
    for k in range(n):
        runs.append({**spec, "faults": {"analyzeAt": [k, ERRS[k % len(ERRS)]]}})
    runs.append({**spec, "faults": {}})
    for j in range(J + 1):
        runs.append({**spec, "faults": {"lookupFails": [j]}})
    runs.append({**spec, "faults": {"assemble": ["other", "asm"]}})
    runs.append({**spec, "faults": {"split": "invalidSyntax"}})
    if J >= 2:
        runs.append({**spec, "faults": {"lookupFails": [J - 1], "analyzeAt": [n, "unsupported"]}})
    runs.append({**spec, "faults": {}})
    return runs


def random_fault(rng, spec):
    n = len(spec["stmts"])
    r = rng.random()
    if r < 0.35:
        return {}
    if r < 0.6:
        return {"analyzeAt": [rng.randrange(n), rng.choice(ERRS)]}
    if r < 0.85:
        return {"lookupFails": sorted(set(rng.randrange(6) for _ in range(rng.randint(1, 2))))}
    if r < 0.93:
        return {"assemble": ["other", "asm"]}
    return {"split": rng.choice(["invalidSyntax", ["other", "split"]])}


def gen_cases(chk):
    """cases of parts A/B-in-process: (provider cfg, history)"""
    rng = chk.rng
    thorough = chk.tier == "thorough"
    cases = []
    n_sys = 480 if thorough else 70
    for i in range(n_sys):
        cfg = PROVIDERS[i % len(PROVIDERS)]
        spec = gen_script(rng, n=1 + (i // len(PROVIDERS)) % 4)
        cases.append({"cfg": cfg, "mode": "systematic", "spec": spec, "seed": rng.randrange(1 << 30)})
    n_rand = 1500 if thorough else 160
    for i in range(n_rand):
        cfg = PROVIDERS[rng.randrange(len(PROVIDERS))]
        runs = []
        for _ in range(rng.randint(2, 5)):
            spec = gen_script(rng)
            spec["faults"] = random_fault(rng, spec)
            runs.append(spec)
        cases.append({"cfg": cfg, "mode": "random", "runs": runs})
    return cases


def strip_spec(spec):
    return {k: v for k, v in spec.items() if k != "desc"}


def exec_case(case):
    """(worker side) run one case on the implementation: the history on one provider + each run on a fresh provider"""
    import random
    cfg = case["cfg"]
    if case["mode"] == "systematic":
        runs = systematic_history(random.Random(case["seed"]), cfg, case["spec"])
    else:
        runs = case["runs"]
    obs = run_history(cfg, runs, PROBE, with_fresh=True)
    return {"cfg": cfg, "runs": runs, "obs": obs}


def model_request(cfg, runs):
    return {"cmd": "provhist",
            "provider": {"kind": "other" if cfg["kind"] == "sql" else cfg["kind"], "base": [[k, v] for k, v in cfg["base"].items()]},
            "probe": PROBE,
            "runs": [{"script": r["desc"], "faults": r.get("faults") or {}} for r in runs]}


# ----------------------------------------------------------------------------------------- the oracle (no model)
def base_answers(cfg, names):
    return [[t, list(cfg["base"].get(t, []))] for t in names]


def history_failures(cfg, runs, obs, probe=PROBE):
    """C12 evaluated on the implementation's own behaviour.  Returns failure strings (empty = property holds here)."""
    fails = []
    for i, (spec, o) in enumerate(zip(runs, obs)):
        what = f"run {i + 1} of {len(runs)} ({short(spec)})"
        if o.get("session"):
            fails.append(f"after {what} the provider still holds session metadata {o['session']}")
        if cfg is not None and o.get("probe") is not None and o["probe"] != base_answers(cfg, probe):
            diff = [(a, b) for a, b in zip(o["probe"], base_answers(cfg, probe)) if a != b]
            fails.append(f"after {what} the provider answers {diff[0][0]} where a fresh one answers {diff[0][1]}")
        fr = o.get("fresh")
        if fr is not None:
            if fr["result"] != o["result"]:
                fails.append(f"{what}: result on the reused provider differs from the result on a fresh provider")
            elif fr["events"] != o["events"]:
                fails.append(f"{what}: the reused provider was asked / answered differently from a fresh one "
                             f"(first difference: {first_diff(o['events'], fr['events'])})")
    return fails


def first_diff(a, b):
    for i, (x, y) in enumerate(zip(a, b)):
        if x != y:
            return f"#{i}: {x} vs {y}"
    return f"length {len(a)} vs {len(b)}"


def short(spec):
    s = spec_sql(spec).replace("\n", " ")
    f = spec.get("faults")
    return (s[:70] + ("…" if len(s) > 70 else "")) + (f" faults={json.dumps(f)}" if f else "")


def shrink_history(cfg, runs, probe=PROBE):
    """greedy: drop runs, then statements, while the oracle still fails on the implementation"""
    def bad(rs):
        try:
            return bool(history_failures(cfg, rs, run_history(cfg, rs, probe, with_fresh=cfg is not None), probe))
        except Exception:
            return False
    cur = [strip_spec(r) for r in runs]
    if not bad(cur):
        return cur
    changed = True
    while changed:
        changed = False
        for i in range(len(cur)):
            cand = cur[:i] + cur[i + 1:]
            if cand and bad(cand):
                cur, changed = cand, True
                break
        if changed:
            continue
        for i, r in enumerate(cur):
            if len(r["stmts"]) > 1 and not (r.get("faults") or {}).get("analyzeAt"):
                for j in range(len(r["stmts"])):
                    cand = cur[:i] + [{**r, "stmts": r["stmts"][:j] + r["stmts"][j + 1:]}] + cur[i + 1:]
                    if bad(cand):
                        cur, changed = cand, True
                        break
            if changed:
                break
    return cur


# ----------------------------------------------------------------------------------------- parts A + B (in-process)
def part_ab(chk, drv):
    import multiprocessing as mp
    cases = gen_cases(chk)
    impl()      # import + taps before forking so that the workers inherit them
    nproc = max(2, min(10, (os.cpu_count() or 4) - 2))
    t0 = time.time()
    with mp.get_context("fork").Pool(nproc) as pool:
        results = pool.map(exec_case, cases, chunksize=4)
    log(f"[c12] A/B: {len(cases)} histories, {sum(len(r['runs']) for r in results)} runs on the implementation "
        f"in {time.time() - t0:.1f}s ({nproc} workers)")
    answers = drv.ask([model_request(r["cfg"], r["runs"]) for r in results]) if drv is not None else [None] * len(results)
    n_runs = n_fault = n_mism = 0
    dist = {"runs": 0, "ok": 0, "error": {}, "fault": {"none": 0, "analyzeAt": 0, "lookupFails": 0, "assemble": 0, "split": 0},
            "events": {}, "stmts": {}}
    reach = {"__exit__ without exception": 0, "__exit__ with exception in flight": 0, "session never entered (split raised)": 0,
             "get_table_columns from session": 0, "get_table_columns from base": 0, "_get_table_columns raising": 0,
             "register_session_metadata": 0, "register on a falsy provider": 0, "gate closed (falsy provider)": 0,
             "register overwriting a session entry": 0}
    for res, ans in zip(results, answers):
        cfg, runs, obs = res["cfg"], res["runs"], res["obs"]
        falsy = cfg["kind"] == "dict" and not cfg["base"]
        for o in obs:
            ev = o["events"]
            if ["deregister"] in ev:
                reach["__exit__ without exception" if o["result"][0] == "ok" else "__exit__ with exception in flight"] += 1
            else:
                reach["session never entered (split raised)"] += 1
            reach["get_table_columns from session"] += sum(1 for e in ev if e[0] == "lookupSession")
            reach["get_table_columns from base"] += sum(1 for e in ev if e[0] == "lookupBase")
            reach["_get_table_columns raising"] += sum(1 for e in ev if e[0] == "lookupRaised")
            regs = [e[1] for e in ev if e[0] == "register"]
            reach["register_session_metadata"] += len(regs)
            reach["register overwriting a session entry"] += len(regs) - len(set(regs))
            if falsy:
                reach["gate closed (falsy provider)"] += 1
                reach["register on a falsy provider"] += len(regs)
        if ans is not None and "error" in ans:
            raise Infra("model driver error: " + ans["error"])
        fails = history_failures(cfg, runs, obs)
        if fails:
            small = shrink_history(cfg, runs)
            o2 = run_history(cfg, small, PROBE, with_fresh=True)
            f2 = history_failures(cfg, small, o2) or fails
            chk.violation("a run leaves something behind on its provider / a reused provider differs from a fresh one: " + f2[0],
                          {"kind": "history", "provider": cfg, "runs": small, "probe": PROBE, "failures": f2})
            return n_runs
        for i, (spec, o) in enumerate(zip(runs, obs)):
            n_runs += 1
            f = spec.get("faults") or {}
            for k in dist["fault"]:
                if k != "none" and f.get(k):
                    dist["fault"][k] += 1
            if not f:
                dist["fault"]["none"] += 1
            dist["runs"] += 1
            if o["result"][0] == "ok":
                dist["ok"] += 1
            else:
                key = json.dumps(o["result"][1])
                dist["error"][key] = dist["error"].get(key, 0) + 1
            for e in o["events"]:
                dist["events"][e[0]] = dist["events"].get(e[0], 0) + 1
            dist["stmts"][len(spec["stmts"])] = dist["stmts"].get(len(spec["stmts"]), 0) + 1
            nontrivial = any(e[0] == "register" for e in o["events"]) and (i > 0)
            chk.count("hist:" + canon_json([cfg, [strip_spec(r) for r in runs[:i + 1]]]), nontrivial)
            if ans is None:
                continue
            m = ans["runs"][i]
            same = (m["events"] == o["events"] and m["session"] == o["session"] and m["probe"] == o["probe"]
                    and m["result"][0] == o["result"][0]
                    and (o["result"][0] == "ok" or m["result"][1] == o["result"][1]))
            if not same:
                n_mism += 1
                if len(chk.stale) < 20:
                    chk.stale.append({"kind": "history", "provider": cfg, "runs": [strip_spec(r) for r in runs[:i + 1]],
                                      "descs": [r["desc"] for r in runs[:i + 1]], "at_run": i,
                                      "impl": {k: o[k] for k in ("result", "events", "session", "probe")},
                                      "model": m})
        if len(chk.samples) < 3 and len(runs) >= 3 and any(e[0] == "lookupSession" for o in obs for e in o["events"]):
            chk.sample({"provider": cfg, "history": [short(r) for r in runs],
                        "events_of_run_1": obs[0]["events"], "results": [o["result"][0] if o["result"][0] == "ok" else o["result"] for o in obs]})
    chk.coverage["ab_histories"] = len(results)
    chk.coverage["ab_runs_vs_model_and_fresh_provider"] = n_runs
    chk.coverage["ab_model_mismatches"] = n_mism
    chk.coverage["ab_distribution"] = dist
    chk.coverage["anchor_reach"] = reach
    chk.coverage["unreached_anchors"] = sorted(k for k, v in reach.items() if v == 0)
    return n_runs


# ----------------------------------------------------------------------------------------- access scheduler
class AccessScheduler:
    """Real threads in lock-step at the granularity of provider accesses: every tap point (statement tap, register,
    deregister, lookup) is a place where the running thread stops BEFORE the access; the controller then decides who
    performs its pending access next.  One grant = perform the pending access and run on to the next tap point."""

    def __init__(self, n):
        self.n = n
        self.go = [threading.Event() for _ in range(n)]
        self.parked = [threading.Event() for _ in range(n)]
        self.done = [False] * n
        self.ctxs = [None] * n
        self.errors = []

    def park(self, me):
        self.parked[me].set()
        if not self.go[me].wait(180):
            raise RuntimeError("access scheduler: no turn within 180 s")
        self.go[me].clear()

    def finish(self, me):
        self.done[me] = True
        self.parked[me].set()

    def grant(self, i):
        self.parked[i].clear()
        self.go[i].set()
        if not self.parked[i].wait(180):
            raise Infra("access scheduler: a thread did not reach its next provider access within 180 s")


def run_scheduled(cfgs, threads, sched):
    """cfgs: provider configurations (one provider OBJECT each); threads: [{"pid": index into cfgs, "spec": run spec}];
    sched: thread indices, one per provider access.  Returns the steps actually performed
    [tid, event|None, sessions of all providers after it] (the schedule is completed round-robin), per-thread
    observations, final sessions."""
    provs = [new_provider(c) for c in cfgs]
    n = len(threads)
    S = AccessScheduler(n)
    obs = [None] * n

    def work(i):
        try:
            S.park(i)
            obs[i] = do_run(threads[i]["spec"], provs[threads[i]["pid"]], S, i)
        except BaseException as e:     # noqa
            S.errors.append(repr(e))
        finally:
            S.finish(i)
    ths = [threading.Thread(target=work, args=(i,), daemon=True) for i in range(n)]
    for t in ths:
        t.start()
    for i in range(n):
        if not S.parked[i].wait(60):
            raise Infra("access scheduler: thread did not start")
    for i in range(n):
        S.grant(i)          # start-up: run to the first provider access (split, parsing: nothing shared)
    steps = []

    def one(i):
        if S.done[i]:
            steps.append([i, None, [session_of(p) for p in provs]])
            return
        before = len(S.ctxs[i].log) if S.ctxs[i] is not None else 0
        S.grant(i)
        new = S.ctxs[i].log[before:] if S.ctxs[i] is not None else []
        steps.append([i, new[0] if len(new) == 1 else (None if not new else ["several"] + new),
                      [session_of(p) for p in provs]])
    for i in sched:
        one(i)
    for i in range(n):
        while not S.done[i]:
            one(i)
    for t in ths:
        t.join(60)
    if S.errors:
        raise Infra("scheduled worker failed: " + S.errors[0])
    return steps, obs, [session_of(p) for p in provs]


def sched_failures(cfgs, threads, steps, obs, final, shared_ok):
    """the property on the implementation alone: every thread whose provider object is its own (or falsy, like the
    shared default) behaves exactly as when it runs alone on a new provider; nothing is left behind"""
    fails = []
    users = {}
    for t in threads:
        users[t["pid"]] = users.get(t["pid"], 0) + 1
    for i, t in enumerate(threads):
        cfg = cfgs[t["pid"]]
        falsy = cfg["kind"] == "dict" and not cfg["base"]
        if users[t["pid"]] > 1 and not (falsy and shared_ok):
            continue
        alone = do_run(t["spec"], new_provider(cfg))
        if alone["result"] != obs[i]["result"]:
            fails.append(f"thread {i} ({short(t['spec'])}): result under the interleaving differs from its result alone")
        elif alone["events"] != obs[i]["events"]:
            fails.append(f"thread {i} ({short(t['spec'])}): provider accesses under the interleaving differ from those "
                         f"alone ({first_diff(obs[i]['events'], alone['events'])})")
    for k, sess in enumerate(final):
        if sess:
            fails.append(f"provider {k} still holds {sess} after all runs ended")
    return fails


def gen_sched_cases(chk):
    rng = chk.rng
    thorough = chk.tier == "thorough"
    cases = []
    truthy = [PROVIDERS[1], PROVIDERS[2], PROVIDERS[3], PROVIDERS[4]]
    falsy = PROVIDERS[0]
    chain_w = [6, 7, 5, 0, 3, 0, 0, 1]

    def thread_spec(maybe_fault=True):
        spec = gen_script(rng, n=rng.randint(2, 4), weights=chain_w if rng.random() < 0.8 else None)
        if maybe_fault and rng.random() < 0.3:
            spec["faults"] = random_fault(rng, spec)
        return spec
    plan = [("own", 260 if thorough else 34), ("shared-falsy", 160 if thorough else 20), ("shared-truthy", 100 if thorough else 12)]
    for mode, count in plan:
        for _ in range(count):
            n = rng.randint(2, 3)
            if mode == "own":
                c = rng.choice(truthy)
                cfgs = [c if rng.random() < 0.7 else rng.choice(truthy) for _ in range(n)]
                threads = [{"pid": i, "spec": thread_spec()} for i in range(n)]
            elif mode == "shared-falsy":
                cfgs = [falsy]
                threads = [{"pid": 0, "spec": thread_spec()} for _ in range(n)]
            else:
                cfgs = [rng.choice(truthy)]
                threads = [{"pid": 0, "spec": thread_spec(False)} for _ in range(n)]
            style = rng.random()
            if style < 0.3:
                sched = [i % n for i in range(60)]                       # switch after every access
            elif style < 0.5:
                a = rng.randint(1, 6)
                sched = [0] * a + [1] * 40 + [0] * 40                    # one thread runs to its end inside another's run
            else:
                sched = [rng.randrange(n) for _ in range(60)]
            cases.append({"mode": mode, "cfgs": cfgs, "threads": threads, "sched": sched})
    return cases


def exec_sched_case(case):
    steps, obs, final = run_scheduled(case["cfgs"], case["threads"], case["sched"])
    fails = sched_failures(case["cfgs"], case["threads"], steps, obs, final, shared_ok=True)
    return {"steps": steps, "obs": obs, "final": final, "fails": fails}


def sched_model_request(case, steps):
    return {"cmd": "provsched",
            "providers": [{"kind": "other" if c["kind"] == "sql" else c["kind"], "base": [[k, v] for k, v in c["base"].items()]} for c in case["cfgs"]],
            "threads": [{"pid": t["pid"], "script": t["spec"]["desc"], "faults": t["spec"].get("faults") or {}}
                        for t in case["threads"]],
            "sched": [st[0] for st in steps]}


def strip_case(case):
    return {"kind": "sched", "mode": case["mode"], "cfgs": case["cfgs"], "sched": case["sched"],
            "threads": [{"pid": t["pid"], "spec": strip_spec(t["spec"])} for t in case["threads"]]}


def part_sched(chk, drv):
    import multiprocessing as mp
    cases = gen_sched_cases(chk)
    impl()
    nproc = max(2, min(10, (os.cpu_count() or 4) - 2))
    t0 = time.time()
    with mp.get_context("fork").Pool(nproc) as pool:
        results = pool.map(exec_sched_case, cases, chunksize=2)
    answers = drv.ask([sched_model_request(c, r["steps"]) for c, r in zip(cases, results)]) if drv is not None else [None] * len(cases)
    n_steps = n_mism = 0
    modes = {}
    for case, res, ans in zip(cases, results, answers):
        modes[case["mode"]] = modes.get(case["mode"], 0) + 1
        n_steps += sum(1 for st in res["steps"] if st[1] is not None)
        interleaved = len({st[0] for st in res["steps"][:10]}) > 1
        chk.count("sched:" + canon_json(strip_case(case)), interleaved)
        if res["fails"]:
            chk.violation("real threads interleaved at provider accesses: " + res["fails"][0],
                          {**strip_case(case), "failures": res["fails"][:5], "steps": res["steps"]})
            return len(cases)
        if ans is None:
            continue
        if "error" in ans:
            raise Infra("model driver error: " + ans["error"])
        same = ans["steps"] == res["steps"] and ans["sessions"] == res["final"]
        for t, o in zip(ans["threads"], res["obs"]):
            same = same and t.get("finished") and t["result"][0] == o["result"][0] and \
                (o["result"][0] == "ok" or t["result"][1] == o["result"][1])
        if not same:
            n_mism += 1
            if len(chk.stale) < 20:
                chk.stale.append({**strip_case(case), "descs": [t["spec"]["desc"] for t in case["threads"]],
                                  "impl_steps": res["steps"], "model_steps": ans["steps"],
                                  "first_difference": first_diff(res["steps"], ans["steps"])})
    if cases and len(chk.samples) < 4:
        c, r = cases[0], results[0]
        chk.sample({"interleaving": c["mode"], "threads": [short(t["spec"]) for t in c["threads"]],
                    "steps": [[st[0], st[1]] for st in r["steps"]]})
    log(f"[c12] sched: {len(cases)} interleavings, {n_steps} scheduled provider accesses in {time.time() - t0:.1f}s")
    chk.coverage["sched_interleavings"] = modes
    chk.coverage["sched_provider_access_steps"] = n_steps
    chk.coverage["sched_model_mismatches"] = n_mism
    return len(cases)


# ----------------------------------------------------------------------------------------- corpus
def harvest(repo):
    """SQL handed to `LineageRunner` / `assert_*_lineage_equal` by the repository's own tests (read with `ast`)"""
    out = []
    root = os.path.join(repo, "tests")
    for dp, dn, fn in sorted(os.walk(root)):
        dn.sort()
        for f in sorted(fn):
            if not f.endswith(".py"):
                continue
            p = os.path.join(dp, f)
            try:
                with open(p, encoding="utf-8") as fh:
                    tree = ast.parse(fh.read())
            except (SyntaxError, OSError):
                continue
            md = None
            for node in ast.walk(tree):
                if isinstance(node, ast.Call) and getattr(node.func, "id", None) == "generate_metadata_providers" and node.args:
                    try:
                        md = ast.literal_eval(node.args[0])
                    except Exception:
                        pass
            for fdef in [n for n in ast.walk(tree) if isinstance(n, ast.FunctionDef)]:
                env = {}
                for n in ast.walk(fdef):
                    if (isinstance(n, ast.Assign) and len(n.targets) == 1 and isinstance(n.targets[0], ast.Name)
                            and isinstance(n.value, ast.Constant) and isinstance(n.value.value, str)):
                        env[n.targets[0].id] = n.value.value
                for n in ast.walk(fdef):
                    if not isinstance(n, ast.Call) or not n.args:
                        continue
                    name = getattr(n.func, "id", None) or getattr(n.func, "attr", None)
                    if not name or not ("lineage_equal" in name or name == "LineageRunner"):
                        continue
                    a = n.args[0]
                    sql = a.value if isinstance(a, ast.Constant) else env.get(getattr(a, "id", None))
                    if not isinstance(sql, str) or not sql.strip():
                        continue
                    dialect, uses_md = "ansi", False
                    for kw in n.keywords:
                        if kw.arg == "dialect" and isinstance(kw.value, ast.Constant) and isinstance(kw.value.value, str):
                            dialect = kw.value.value
                        if kw.arg == "metadata_provider":
                            uses_md = True
                    out.append({"sql": sql, "dialect": dialect, "md": md if (uses_md and isinstance(md, dict)) else None})
    return out


TSQL_SCRIPTS = [
    "insert into t select * from a\ninsert into u select * from t",
    "select * from a\nselect * from b",
    "create table t1 (a int)\ninsert into t1 select a from s1\nselect a from t1",
    "insert into u select * from t",
    "insert into t select * from a",
    "select * from a\nselect from from",
]


# (script without semicolons, its statements as tsql splits them) — statements that tsql parses and ansi does not, so
# that a segment cached by a tsql run would be visible if a later run of another dialect picked it up
TSQL_CACHE_HISTORIES = [
    ("select a from [t1]\nselect b from [t2]", ["select a from [t1]", "select b from [t2]"]),
    ("insert into [u] select * from [t]\ninsert into [v] select * from [u]",
     ["insert into [u] select * from [t]", "insert into [v] select * from [u]"]),
    ("select top 3 a from t1 with (nolock)\nselect b from t2", ["select top 3 a from t1 with (nolock)", "select b from t2"]),
    ("insert into t select * from a\ninsert into u select * from t", ["insert into t select * from a", "insert into u select * from t"]),
]


def build_corpus(chk):
    """run specs (without faults) with the provider configuration each is meant for: harvested multi-statement scripts,
    concatenations of harvested single statements, generated scripts, tsql split-cache scripts"""
    rng = chk.rng
    h = harvest(REPO)
    if len(h) < 20:
        raise Infra(f"corpus harvest from {REPO}/tests found only {len(h)} scripts")
    multi = [x for x in h if ";" in x["sql"].strip().rstrip(";")]
    single = [x for x in h if x not in multi and x["dialect"] == "ansi" and x["md"] is None]
    corpus = []
    for x in multi:
        cfg = {"kind": "dict", "base": x["md"]} if x["md"] else None
        corpus.append({"spec": {"stmts": [x["sql"]], "dialect": x["dialect"]}, "cfg": cfg, "src": "tests-multi"})
    with_md = [x for x in h if x["md"] and x not in multi]
    for x in rng.sample(with_md, min(len(with_md), 30 if chk.tier == "thorough" else 10)):
        corpus.append({"spec": {"stmts": [x["sql"]], "dialect": x["dialect"]}, "cfg": {"kind": "dict", "base": x["md"]},
                       "src": "tests-metadata"})
    n_cat = 120 if chk.tier == "thorough" else 24
    for _ in range(n_cat):
        parts = [y["sql"].strip().rstrip(";").strip() for y in rng.sample(single, rng.randint(2, 4))]
        corpus.append({"spec": {"stmts": parts, "dialect": "ansi"}, "cfg": rng.choice([None, None, PROVIDERS[1], PROVIDERS[2]]),
                       "src": "tests-concatenated"})
    n_gen = 160 if chk.tier == "thorough" else 30
    for _ in range(n_gen):
        s = gen_script(rng, n=rng.randint(2, 4))
        corpus.append({"spec": {"stmts": s["stmts"], "dialect": "ansi"}, "cfg": rng.choice([None] + PROVIDERS), "src": "generated"})
    for t in TSQL_SCRIPTS:
        for dialect, ns in (("tsql", True), ("tsql", False), ("ansi", False)):
            corpus.append({"spec": {"stmts": [t], "dialect": dialect, "tsql_ns": ns}, "cfg": None, "src": "tsql"})
    # the same script silent / not silent (a per-run option that must not stick): scripts with an unsupported statement
    for i in range(12 if chk.tier == "thorough" else 6):
        s = gen_script(rng, n=3, weights=[5, 6, 4, 1, 3, 0, 0, 1])
        pos = rng.randrange(3)
        stmts = s["stmts"][:pos] + [rng.choice(UNSUPPORTED)] + s["stmts"][pos:]
        cfg = None if i % 2 == 0 else PROVIDERS[1]
        corpus.append({"spec": {"stmts": stmts, "dialect": "ansi", "silent": True}, "cfg": cfg, "src": "generated-silent"})
        corpus.append({"spec": {"stmts": stmts, "dialect": "ansi"}, "cfg": cfg, "src": "generated-silent"})
    return corpus


# ----------------------------------------------------------------------------------------- fresh subprocesses
def worker_main():
    """`c12.py --worker`: one request on stdin ({"cfg", "runs", "probe"}), observations on stdout, then exit"""
    req = json.loads(sys.stdin.read())
    obs = run_history(req["cfg"], req["runs"], req.get("probe") or [], with_fresh=False)
    sys.stdout.write(json.dumps(obs))
    sys.stdout.flush()


def in_subprocess(req, timeout=600):
    env = dict(os.environ)
    env["PYTHONPATH"] = HERE + os.pathsep + env.get("PYTHONPATH", "")
    env["VERIF_REPO"] = REPO
    env.setdefault("PYTHONHASHSEED", "0")
    env["PYTHONDONTWRITEBYTECODE"] = "1"
    try:
        r = subprocess.run([PY, os.path.join(HERE, "c12.py"), "--worker"], input=json.dumps(req), capture_output=True,
                           text=True, timeout=timeout, env=env, cwd=VERIF)
    except subprocess.TimeoutExpired:
        raise Infra("fresh-process worker timed out")
    if r.returncode != 0:
        raise Infra("fresh-process worker failed: " + r.stderr[-600:])
    return json.loads(r.stdout)


def subprocess_many(reqs, par=16):
    with ThreadPoolExecutor(par) as ex:
        return list(ex.map(in_subprocess, reqs))


def _handle_req(req):
    return run_history(req["cfg"], req["runs"], req.get("probe") or [], with_fresh=False)


def zygote_main():
    """`c12.py --zygote`: imports the implementation and places the taps, runs NOTHING itself, and forks one new child
    per request (`maxtasksperchild=1`): every request starts from the state a process has right after the import —
    the state of a fresh process — without paying the import each time"""
    import multiprocessing as mp
    impl()
    reqs = json.loads(sys.stdin.read())
    if not reqs:
        sys.stdout.write("[]")
        return
    with mp.get_context("fork").Pool(processes=min(16, len(reqs)), maxtasksperchild=1) as pool:
        out = pool.map(_handle_req, reqs, chunksize=1)
    sys.stdout.write(json.dumps(out))
    sys.stdout.flush()


def fresh_processes(reqs, timeout=2400):
    """each request in a process of its own that has executed nothing before it (forked from a pristine zygote)"""
    env = dict(os.environ)
    env["PYTHONPATH"] = HERE + os.pathsep + env.get("PYTHONPATH", "")
    env["VERIF_REPO"] = REPO
    env.setdefault("PYTHONHASHSEED", "0")
    env["PYTHONDONTWRITEBYTECODE"] = "1"
    try:
        r = subprocess.run([PY, os.path.join(HERE, "c12.py"), "--zygote"], input=json.dumps(reqs), capture_output=True,
                           text=True, timeout=timeout, env=env, cwd=VERIF)
    except subprocess.TimeoutExpired:
        raise Infra("fresh-process zygote timed out")
    if r.returncode != 0:
        raise Infra("fresh-process zygote failed: " + r.stderr[-600:])
    out = json.loads(r.stdout)
    if len(out) != len(reqs):
        raise Infra("fresh-process zygote answered the wrong number of requests")
    return out


def process_history_failures(cfg, runs, obs, alone):
    """history in ONE process (one provider object / the shared default) vs each run alone in its own fresh process"""
    fails = []
    for i, (spec, o, a) in enumerate(zip(runs, obs, alone)):
        what = f"run {i + 1} of {len(runs)} ({short(spec)})"
        if o.get("session"):
            fails.append(f"after {what} the {'shared default ' if cfg is None else ''}provider still holds {o['session']}")
        if cfg is not None and o.get("probe") != a.get("probe"):
            fails.append(f"after {what} the provider answers differently from a fresh one")
        if o["result"] != a["result"]:
            fails.append(f"{what}: result after the history differs from the result in a fresh process")
        elif cfg is not None and o["events"] != a["events"]:
            fails.append(f"{what}: provider accesses after the history differ from those in a fresh process "
                         f"({first_diff(o['events'], a['events'])})")
    return fails


def part_b_processes(chk, corpus):
    rng = chk.rng
    thorough = chk.tier == "thorough"
    n_hist = 220 if thorough else 24
    by_cfg = {}
    for c in corpus:
        by_cfg.setdefault(canon_json(c["cfg"]), []).append(c)
    hists = []
    keys = sorted(by_cfg)
    others = [k for k in keys if k != canon_json(None)]
    for i in range(n_hist):
        # every third history runs on the shared default provider (no provider argument)
        key = canon_json(None) if i % 3 == 0 else others[(i - i // 3) % len(others)]
        pool = by_cfg[key]
        cfg = pool[0]["cfg"]
        runs = []
        for _ in range(rng.randint(4, 9)):
            spec = dict(rng.choice(pool)["spec"])
            r = rng.random()
            if r < 0.3 and cfg is not None:
                spec["faults"] = rng.choice([{"lookupFails": [rng.randrange(4)]}, {"analyzeAt": [rng.randrange(3), rng.choice(ERRS)]}])
            elif r < 0.45:
                spec["faults"] = rng.choice([{"analyzeAt": [rng.randrange(3), rng.choice(ERRS)]}, {"assemble": ["other", "asm"]}])
            runs.append(spec)
        hists.append({"cfg": cfg, "runs": runs})
    # tsql split cache (analyzer.py:34-45): the script split without semicolons, then its statements one by one under
    # other settings, then again — all in ONE process
    tsql = list(TSQL_CACHE_HISTORIES)
    rng.shuffle(tsql)
    for script, stmts in tsql[: (len(tsql) if thorough else 3)]:
        runs = [{"stmts": [script], "dialect": "tsql", "tsql_ns": True}]
        for st in stmts:
            runs.append({"stmts": [st], "dialect": "ansi"})
            runs.append({"stmts": [st], "dialect": "tsql"})
        runs.append({"stmts": [script], "dialect": "tsql"})
        runs.append({"stmts": [script], "dialect": "tsql", "tsql_ns": True})
        hists.append({"cfg": None, "runs": runs})
    probe = sorted({t for c in corpus if c["cfg"] for t in c["cfg"]["base"]} | set(PROBE))
    distinct = {}
    for hst in hists:
        for spec in hst["runs"]:
            distinct.setdefault(canon_json([hst["cfg"], spec]), {"cfg": hst["cfg"], "runs": [spec], "probe": probe})
    t0 = time.time()
    keys_d = list(distinct)
    alone_obs = fresh_processes([distinct[k] for k in keys_d])
    alone = {k: o[0] for k, o in zip(keys_d, alone_obs)}
    # determinism of the reference itself, and of the way it is obtained: a sample again, each in a newly started
    # interpreter (a run whose result varies from process to process cannot be judged by comparison; skipped, counted)
    sample_keys = rng.sample(keys_d, min(len(keys_d), 40 if thorough else 6))
    again = subprocess_many([distinct[k] for k in sample_keys])
    unstable = {k for k, o in zip(sample_keys, again) if o[0]["result"] != alone[k]["result"]}
    hist_obs = fresh_processes([{"cfg": hst["cfg"], "runs": hst["runs"], "probe": probe} for hst in hists])
    log(f"[c12] B: {len(hists)} process histories + {len(keys_d)} single-run fresh processes (+{len(sample_keys)} new interpreters) in {time.time() - t0:.1f}s")
    n = 0
    for hst, obs in zip(hists, hist_obs):
        cfg, runs = hst["cfg"], hst["runs"]
        al = [alone[canon_json([cfg, s])] for s in runs]
        if any(canon_json([cfg, s]) in unstable for s in runs):
            chk.coverage["b_unstable_reference_skipped"] = chk.coverage.get("b_unstable_reference_skipped", 0) + 1
            continue
        fails = process_history_failures(cfg, runs, obs, al)
        for i, spec in enumerate(runs):
            n += 1
            chk.count("proc:" + canon_json([cfg, runs[:i + 1]]),
                      i > 0 and (alone[canon_json([cfg, spec])]["result"][0] == "ok"))
        if fails:
            small = shrink_process_history(cfg, runs, obs, al, probe)
            # a leak through process state is deterministic: the (shrunk) history must fail again in new processes;
            # a difference that does not reproduce is nondeterminism of a single run (C11's subject) and is only counted
            again = eval_process_history(cfg, small, probe)[0]
            if not again and small != runs:
                small = list(runs)
                again = eval_process_history(cfg, small, probe)[0]
            if not again:
                chk.coverage["b_unreproducible_differences"] = chk.coverage.get("b_unreproducible_differences", 0) + 1
                continue
            chk.violation("the outcome of a run depends on what ran earlier in the same process: " + again[0],
                          {"kind": "process-history", "provider": cfg, "runs": small, "probe": probe, "failures": again[:5]})
            return n
    chk.coverage["b_process_histories"] = len(hists)
    chk.coverage["b_runs_vs_fresh_process"] = n
    chk.coverage["b_distinct_fresh_process_references"] = len(keys_d)
    chk.coverage["b_default_provider_histories"] = sum(1 for hst in hists if hst["cfg"] is None)
    if len(chk.samples) < 5:
        hst = hists[0]
        chk.sample({"process_history_on": "shared default provider" if hst["cfg"] is None else hst["cfg"],
                    "runs": [short(r) for r in hst["runs"]]})
    return n


def eval_process_history(cfg, runs, probe):
    obs = in_subprocess({"cfg": cfg, "runs": runs, "probe": probe})
    alone = [o[0] for o in subprocess_many([{"cfg": cfg, "runs": [s], "probe": probe} for s in runs])]
    return process_history_failures(cfg, runs, obs, alone), obs, alone


def shrink_process_history(cfg, runs, obs, alone, probe):
    """cut the history after the first run that differs from its fresh-process result, then look (one parallel batch of
    subprocesses) for a single earlier run that is enough to make it differ"""
    first = None
    for i, (spec, o, a) in enumerate(zip(runs, obs, alone)):
        if process_history_failures(cfg, [spec], [o], [a]):
            first = i
            break
    if first is None:
        return list(runs)
    prefix = list(runs[:first + 1])
    if first == 0:
        return prefix
    pairs = [[runs[j], runs[first]] for j in range(first)]
    res = subprocess_many([{"cfg": cfg, "runs": pr, "probe": probe} for pr in pairs])
    for pr, o in zip(pairs, res):
        if process_history_failures(cfg, pr, o, [alone[runs.index(pr[0])], alone[first]]):
            return pr
    return prefix


# ----------------------------------------------------------------------------------------- part C: threads
def part_c_threads(chk, corpus):
    I = impl()
    rng = chk.rng
    thorough = chk.tier == "thorough"
    n_seeds = 8 if thorough else 3
    n_tasks = 300 if thorough else 40
    pool = [c for c in corpus if c["src"] != "tests-metadata"]
    total = 0
    seq_cache = {}
    old_si = sys.getswitchinterval()
    try:
        for seed_i in range(n_seeds):
            # GIL hand-over every 1 ms (≈ 30 switches per statement analysis); every third pool every 0.1 ms
            sys.setswitchinterval(1e-4 if seed_i % 3 == 2 else 1e-3)
            tasks = []
            for _ in range(n_tasks):
                c = rng.choice(pool)
                spec = dict(c["spec"])
                if c["cfg"] is not None and rng.random() < 0.3:
                    spec["faults"] = rng.choice([{"lookupFails": [rng.randrange(3)]}, {"analyzeAt": [rng.randrange(3), rng.choice(ERRS)]}])
                tasks.append({"cfg": c["cfg"], "spec": spec})
            # sequential answers first (each on a newly constructed provider)
            seq = []
            for t in tasks:
                key = canon_json(t)
                if key not in seq_cache:
                    seq_cache[key] = do_run(t["spec"], new_provider(t["cfg"]))
                seq.append(seq_cache[key])
            fails, leftovers = run_threads(tasks, seq)
            total += len(tasks)
            for t in tasks:
                chk.count("thr:" + canon_json([seed_i, t]), True)
            if fails or leftovers:
                chk.violation("16 threads with their own providers: a run's outcome differs from its sequential outcome, or "
                              "session metadata is left behind: " + (fails + leftovers)[0],
                              {"kind": "threads", "tasks": tasks, "failures": (fails + leftovers)[:5]})
                return total
    finally:
        sys.setswitchinterval(old_si)
    chk.coverage["c_thread_pools"] = n_seeds
    chk.coverage["c_runs_in_16_threads_vs_sequential"] = total
    return total


def run_threads(tasks, seq, workers=16):
    I = impl()
    tl = threading.local()
    all_providers = []
    lock = threading.Lock()

    def work(t):
        if not hasattr(tl, "prov"):
            tl.prov = {}
        key = canon_json(t["cfg"])
        if t["cfg"] is not None and key not in tl.prov:
            tl.prov[key] = new_provider(t["cfg"])       # one provider object per thread and configuration, reused
            with lock:
                all_providers.append(tl.prov[key])
        return do_run(t["spec"], tl.prov.get(key))
    with ThreadPoolExecutor(workers) as ex:
        got = list(ex.map(work, tasks))
    fails = []
    for t, g, s in zip(tasks, got, seq):
        if g["result"] != s["result"]:
            fails.append(f"{short(t['spec'])}: result in the pool differs from the sequential result")
        elif t["cfg"] is not None and g["events"] != s["events"]:
            fails.append(f"{short(t['spec'])}: provider accesses in the pool differ from the sequential ones "
                         f"({first_diff(g['events'], s['events'])})")
    leftovers = []
    for p in all_providers:
        if p._session_metadata:
            leftovers.append(f"a thread's provider still holds {dict(p._session_metadata)} after all its runs ended")
    if I.default_provider is not None and I.default_provider._session_metadata:
        leftovers.append(f"the shared default provider still holds {dict(I.default_provider._session_metadata)}")
    return fails, leftovers


# ----------------------------------------------------------------------------------------- default provider, in-process
def part_default(chk, corpus):
    """`LineageRunner(sql)` without a provider: the module-level default instance must be clean after every run however
    it ended, and a tap provider of the same class without metadata (falsy) must see no lookup at all"""
    I = impl()
    shared = isinstance(I.default_provider, I.MetaDataProvider)
    chk.coverage["default_provider_shared_instance"] = shared
    if not shared:
        # `LineageRunner.__init__` no longer evaluates a provider at import: there is no implicit shared object; the runs
        # below are still made (results are compared with fresh processes in part B)
        I.default_provider = None
    n = 0
    runs = []
    for c in [c for c in corpus if c["cfg"] is None][: (200 if chk.tier == "thorough" else 40)]:
        runs.append(dict(c["spec"]))
        if len(c["spec"]["stmts"]) > 1:
            runs.append({**c["spec"], "faults": {"analyzeAt": [1, "unsupported"]}})
            runs.append({**c["spec"], "faults": {"assemble": ["other", "asm"]}})
    obs = run_history(None, runs)
    for i, (spec, o) in enumerate(zip(runs, obs)):
        n += 1
        chk.count("default:" + canon_json(runs[:i + 1]), i > 0)
        if o["session"]:
            small = shrink_history(None, runs[:i + 1], [])
            chk.violation("the shared default provider keeps table definitions after a run ended: " + json.dumps(o["session"]),
                          {"kind": "history", "provider": None, "runs": small, "probe": []})
            return n
    chk.coverage["default_provider_runs"] = n
    chk.coverage["default_provider_is_falsy"] = (not bool(I.default_provider)) if shared else None
    return n


# ----------------------------------------------------------------------------------------- replay / run
def replay(chk, obj):
    r = obj["replay"]
    kind = r.get("kind")
    if kind == "history":
        cfg, runs, probe = r["provider"], r["runs"], r.get("probe") or []
        obs = run_history(cfg, runs, probe, with_fresh=cfg is not None)
        fails = history_failures(cfg, runs, obs, probe)
        print(json.dumps({"observations": obs, "failures": fails}, indent=1))
        return 1 if fails else 0
    if kind == "process-history":
        fails, obs, alone = eval_process_history(r["provider"], r["runs"], r.get("probe") or [])
        print(json.dumps({"in_history": [o["result"] for o in obs], "alone": [a["result"] for a in alone],
                          "sessions": [o["session"] for o in obs], "failures": fails}, indent=1))
        return 1 if fails else 0
    if kind == "threads":
        sys.setswitchinterval(1e-4)
        for attempt in range(5):
            seq = [do_run(t["spec"], new_provider(t["cfg"])) for t in r["tasks"]]
            fails, left = run_threads(r["tasks"], seq)
            if fails or left:
                print(json.dumps({"attempt": attempt, "failures": (fails + left)[:10]}, indent=1))
                return 1
        print("no failure in 5 attempts")
        return 0
    if kind == "sched":
        case = {"mode": r["mode"], "cfgs": r["cfgs"], "threads": r["threads"], "sched": r["sched"]}
        res = exec_sched_case(case)
        print(json.dumps({"steps": [[st[0], st[1]] for st in res["steps"]], "failures": res["fails"]}, indent=1))
        return 1 if res["fails"] else 0
    if "correspondence" in r:
        # no input on which the property fails was found; what is replayed is the model/implementation comparison
        drv = Driver()
        differ = 0
        for c in r["correspondence"]:
            if c.get("kind") == "history":
                runs = [{**x, "desc": d} for x, d in zip(c["runs"], c["descs"])]
                obs = run_history(c["provider"], runs, PROBE)
                ans = drv.ask1(model_request(c["provider"], runs))
                for o, m in zip(obs, ans["runs"]):
                    if m["events"] != o["events"] or m["session"] != o["session"] or m["probe"] != o["probe"]:
                        differ += 1
                        print(json.dumps({"history": [short(x) for x in runs], "impl_events": o["events"],
                                          "model_events": m["events"]}))
                        break
            elif c.get("kind") == "sched":
                case = {"mode": c["mode"], "cfgs": c["cfgs"], "sched": c["sched"],
                        "threads": [{"pid": t["pid"], "spec": {**t["spec"], "desc": d}} for t, d in zip(c["threads"], c["descs"])]}
                res = exec_sched_case(case)
                ans = drv.ask1(sched_model_request(case, res["steps"]))
                if ans.get("steps") != res["steps"]:
                    differ += 1
                    print(json.dumps({"interleaving": [short(t["spec"]) for t in case["threads"]],
                                      "first_difference": first_diff(res["steps"], ans.get("steps") or [])}))
        print(f"{differ} of {len(r['correspondence'])} recorded cases still differ between model and implementation "
              f"(no input on which the property itself fails is known)")
        return 1 if differ else 0
    print("replay file names no concrete input:", json.dumps(r)[:800])
    return 1


def run(chk):
    drv = Driver() if chk.lean.driver_ok else None
    if drv is None:
        chk.stale.append({"kind": "driver", "why": "model driver does not build"})
    if chk.tier == "thorough" and chk.lean.build_ok:
        from common import leanchecker
        ok, out = leanchecker(["SqlLineage.Model.Provider", "SqlLineage.Props.C12"])
        chk.coverage["leanchecker_ok"] = ok
        if not ok:
            chk.lean.forbidden.append("leanchecker rejected SqlLineage.Props.C12: " + out[-300:])
    t0 = time.time()
    times = {}

    def timed(name, f, *a):
        if chk.violations:
            return 0
        t = time.time()
        r = f(*a)
        times[name] = round(time.time() - t, 1)
        return r
    n_ab = timed("A/B", part_ab, chk, drv)
    n_s = timed("sched", part_sched, chk, drv)
    corpus = build_corpus(chk) if not chk.violations else []
    n_b = timed("processes", part_b_processes, chk, corpus)
    n_d = timed("default", part_default, chk, corpus)
    n_c = timed("threads", part_c_threads, chk, corpus)
    log(f"[c12] parts done in {time.time() - t0:.1f}s {times}: A/B {n_ab} runs, sched {n_s}, processes {n_b}, default {n_d}, threads {n_c}")
    chk.coverage["part_seconds"] = times
    src = {}
    for c in corpus:
        src[c["src"]] = src.get(c["src"], 0) + 1
    chk.coverage.update({
        "exhaustive": False,
        "corpus": src,
        "provider_configurations": PROVIDERS,
        "fault_points": "per generated script: every statement position k (3 exception classes), every base lookup j "
                        "(and one past the last), assembly, split",
    })
    chk.assumptions += [
        "the `with` statement calls __exit__ on every exit path once __enter__ returned (CPython)",
        "per-statement analysis and final assembly are abstract in the model (arbitrary decision trees over gated lookups); "
        "what the generated statement templates do to the provider is described in harness/c12.py and re-checked against "
        "the real code on every run",
        "thread interleavings inside sqlfluff/sqlparse are sampled by real 16-thread pools, not enumerated; the Lean "
        "interleaving theorems are at the granularity of provider accesses",
        "the configuration object is the other piece of module-level state (property C15)",
    ]
    return chk.finish(
        level="proof",
        rule="A/B: histories on one provider object (5 provider configurations: dict/other x metadata) of generated scripts "
             "of 1-4 statements from 8 templates; systematic = every fault point of the script as one history, random = 2-5 "
             "runs with random faults; each run compared with the Lean model (events, session, answers, exception class) and "
             "with the same run on a newly constructed provider (result + events). Process level: histories of 4-9 corpus runs "
             "in one fresh subprocess (reused provider or the shared default) vs each run alone in its own fresh subprocess. "
             "Threads: 16-thread pools, provider per thread, vs sequential. non-trivial = a run that is not the first of its "
             "history and (A/B) registers session metadata / (process) succeeds alone; distinct by canonical JSON of the "
             "history prefix",
        trusted_base=["Lean 4.33 kernel", "axioms: propext, Quot.sound (audited per theorem)",
                      "harness/c12.py taps (TapProvider, statement/split/assembly taps) and statement-template descriptions",
                      "CPython `with` exit guarantee"],
    )


if __name__ == "__main__":
    if len(sys.argv) > 1 and sys.argv[1] == "--worker":
        worker_main()
    elif len(sys.argv) > 1 and sys.argv[1] == "--zygote":
        zygote_main()
