"""./check <Cnn> [--tier quick|thorough] [--replay file]"""
import importlib
import json
import os
import sys
import traceback

import common
from common import Check, Infra, log, prepare_lean


def main(argv):
    if not argv:
        print(__doc__); return 2
    prop = argv[0]
    tier = os.environ.get("VERIF_TIER", "quick")
    replay = None
    i = 1
    while i < len(argv):
        if argv[i] == "--tier":
            tier = argv[i + 1]; i += 2
        elif argv[i] == "--replay":
            replay = argv[i + 1]; i += 2
        else:
            print("unknown argument", argv[i]); return 2
    if tier not in ("quick", "thorough"):
        tier = "quick"
    try:
        seed = int(os.environ.get("VERIF_SEED", "0"))
    except ValueError:
        seed = 0
    try:
        mod = importlib.import_module(prop.lower())
    except ImportError as e:
        print(f"no check for {prop}: {e}"); return 2
    chk = Check(prop, tier, seed)
    try:
        if replay is not None:
            with open(replay if os.path.isabs(replay) else os.path.join(common.VERIF, replay)) as f:
                obj = json.load(f)
            return mod.replay(chk, obj)
        chk.lean = prepare_lean(prop, need_driver=getattr(mod, "NEED_DRIVER", True))
        return mod.run(chk)
    except Infra as e:
        log("INFRASTRUCTURE FAILURE:", e)
        return 2
    except Exception:
        traceback.print_exc()
        return 2


if __name__ == "__main__":
    sys.exit(main(sys.argv[1:]))
